// go2lean regenerates the Lean modules under lean/JsightVerif/Gen from the
// current working tree of the repository under verification.
//
// Usage: go2lean -repo /repo -out /verif/lean/JsightVerif/Gen
//
// Any Go construct outside the supported subset aborts the translation with
// file:line and exit status 3: that is a broken tie (DESIGN 2.2), never a
// silently skipped function.
package main

import (
	"bytes"
	"flag"
	"fmt"
	"os"
	"path/filepath"
	"strings"
)

type abort struct{ msg string }

func fail(format string, a ...any) {
	panic(abort{fmt.Sprintf(format, a...)})
}

func main() {
	repo := flag.String("repo", "/repo", "repository root")
	out := flag.String("out", "", "output directory for Gen/*.lean")
	flag.Parse()
	if *out == "" {
		fmt.Fprintln(os.Stderr, "go2lean: -out required")
		os.Exit(2)
	}
	defer func() {
		if r := recover(); r != nil {
			if a, ok := r.(abort); ok {
				fmt.Fprintln(os.Stderr, "go2lean: UNSUPPORTED: "+a.msg)
				os.Exit(3)
			}
			panic(r)
		}
	}()
	if err := os.MkdirAll(*out, 0o755); err != nil {
		fail("%v", err)
	}
	files := map[string]string{}
	files["ScannerTable.lean"] = genScanner(*repo)
	files["DirectiveTable.lean"] = genDirectiveTable(*repo)
	files["Facts.lean"] = genFacts(*repo)
	// remove stale generated files
	ents, _ := os.ReadDir(*out)
	for _, e := range ents {
		if _, ok := files[e.Name()]; !ok && strings.HasSuffix(e.Name(), ".lean") {
			os.Remove(filepath.Join(*out, e.Name()))
		}
	}
	for name, content := range files {
		writeIfChanged(filepath.Join(*out, name), content)
	}
}

// writeIfChanged keeps mtime stable for unchanged content so lake does not rebuild.
func writeIfChanged(path, content string) {
	old, err := os.ReadFile(path)
	if err == nil && bytes.Equal(old, []byte(content)) {
		return
	}
	tmp := path + ".tmp"
	if err := os.WriteFile(tmp, []byte(content), 0o644); err != nil {
		fail("%v", err)
	}
	if err := os.Rename(tmp, path); err != nil {
		fail("%v", err)
	}
}

// leanStr renders a Go string as a Lean string literal.
func leanStr(s string) string {
	var b strings.Builder
	b.WriteByte('"')
	for _, r := range []byte(s) {
		switch {
		case r == '"':
			b.WriteString("\\\"")
		case r == '\\':
			b.WriteString("\\\\")
		case r == '\n':
			b.WriteString("\\n")
		case r == '\t':
			b.WriteString("\\t")
		case r < 0x20 || r >= 0x7f:
			fmt.Fprintf(&b, "\\x%02x", r)
		default:
			b.WriteByte(r)
		}
	}
	b.WriteByte('"')
	return b.String()
}
