package main

import (
	"fmt"
	"go/ast"
	"go/parser"
	"go/token"
	"os"
	"path/filepath"
	"sort"
	"strconv"
	"strings"
)

// ---------------------------------------------------------------------------
// Prog AST (mirrors JsightVerif.Model.ScannerSyntax.Prog)

type node struct {
	kind string // setStep push pushCur popToStep found curSub readLen ite ok redispatch call failChar failBasic
	st   string // state name
	ev   string
	n    int
	s1   string
	s2   string
	cond *cond
	k    *node // continuation (or then-branch for ite)
	e    *node // else-branch
}

type cond struct {
	kind string // byteEq isWs isNl dataBackEq isDirective hasTypeOrAnyOrEmpty hasAnyOrEmpty hasRegex not and or tt
	b    int
	n    int
	a, c *cond
}

func (c *cond) lean() string {
	switch c.kind {
	case "byteEq":
		return fmt.Sprintf("(.byteEq %d)", c.b)
	case "byteLe":
		return fmt.Sprintf("(.byteLe %d)", c.b)
	case "byteGe":
		return fmt.Sprintf("(.byteGe %d)", c.b)
	case "dataBackEq":
		return fmt.Sprintf("(.dataBackEq %d %d)", c.n, c.b)
	case "not":
		return "(.not " + c.a.lean() + ")"
	case "and":
		return "(.and " + c.a.lean() + " " + c.c.lean() + ")"
	case "or":
		return "(.or " + c.a.lean() + " " + c.c.lean() + ")"
	default:
		return "." + c.kind
	}
}

func (n *node) lean(ind string) string {
	in := ind + " "
	switch n.kind {
	case "setStep":
		return ind + ".setStep ." + n.st + " <|\n" + n.k.lean(ind)
	case "push":
		return ind + ".push ." + n.st + " <|\n" + n.k.lean(ind)
	case "pushCur":
		return ind + ".pushCur <|\n" + n.k.lean(ind)
	case "popToStep":
		return ind + ".popToStep <|\n" + n.k.lean(ind)
	case "found":
		return ind + fmt.Sprintf(".found .%s %d <|\n", n.ev, n.n) + n.k.lean(ind)
	case "curSub":
		return ind + fmt.Sprintf(".curSub %d <|\n", n.n) + n.k.lean(ind)
	case "readLen":
		return ind + ".readLen ." + n.s1 + " <|\n" + n.k.lean(ind)
	case "ite":
		return ind + ".ite " + n.cond.lean() + "\n" + ind + " (\n" + n.k.lean(in+" ") + ")\n" + ind + " (\n" + n.e.lean(in+" ") + ")"
	case "ok":
		return ind + ".ok"
	case "redispatch":
		return ind + ".redispatch"
	case "call":
		return ind + ".call ." + n.st
	case "failChar":
		return ind + ".failChar " + leanStr(n.s1) + " " + leanStr(n.s2)
	case "failBasic":
		return ind + ".failBasic " + leanStr(n.s1)
	}
	panic("bad node " + n.kind)
}

// ---------------------------------------------------------------------------

type env struct {
	vars   map[string]ast.Expr
	parent *env
}

type scanTr struct {
	fset    *token.FileSet
	funcs   map[string]*ast.FuncDecl // all funcs and methods of package scanner by name
	states  map[string]bool
	consts  map[string]ast.Expr // package-level constants (scanner)
	jerrC   map[string]string   // jerr string constants
	inlineD int
}

func (t *scanTr) pos(n ast.Node) string {
	p := t.fset.Position(n.Pos())
	return fmt.Sprintf("%s:%d", p.Filename, p.Line)
}

func parseDir(fset *token.FileSet, dir string, filter func(string) bool) []*ast.File {
	ents, err := os.ReadDir(dir)
	if err != nil {
		fail("%v", err)
	}
	var files []*ast.File
	for _, e := range ents {
		name := e.Name()
		if !strings.HasSuffix(name, ".go") || strings.HasSuffix(name, "_test.go") {
			continue
		}
		if filter != nil && !filter(name) {
			continue
		}
		src, err := os.ReadFile(filepath.Join(dir, name))
		if err != nil {
			fail("%v", err)
		}
		// honour build constraints: skip files guarded by the verif tag
		if strings.Contains(string(src), "//go:build verif") {
			continue
		}
		f, err := parser.ParseFile(fset, filepath.Join(dir, name), src, parser.ParseComments)
		if err != nil {
			fail("parse: %v", err)
		}
		files = append(files, f)
	}
	return files
}

func isStateSig(fd *ast.FuncDecl) bool {
	if fd.Recv != nil || fd.Type.Params == nil || fd.Type.Results == nil {
		return false
	}
	ps := fd.Type.Params.List
	if len(ps) != 2 || len(fd.Type.Results.List) != 1 {
		return false
	}
	star, ok := ps[0].Type.(*ast.StarExpr)
	if !ok {
		return false
	}
	if id, ok := star.X.(*ast.Ident); !ok || id.Name != "Scanner" {
		return false
	}
	if id, ok := ps[1].Type.(*ast.Ident); !ok || id.Name != "byte" {
		return false
	}
	return true
}

func genScanner(repo string) string {
	fset := token.NewFileSet()
	t := &scanTr{fset: fset, funcs: map[string]*ast.FuncDecl{}, states: map[string]bool{},
		consts: map[string]ast.Expr{}, jerrC: map[string]string{}}
	files := parseDir(fset, filepath.Join(repo, "scanner"), nil)
	var order []string
	for _, f := range files {
		for _, d := range f.Decls {
			switch d := d.(type) {
			case *ast.FuncDecl:
				t.funcs[d.Name.Name] = d
				if isStateSig(d) {
					t.states[d.Name.Name] = true
					order = append(order, d.Name.Name)
				}
			case *ast.GenDecl:
				if d.Tok == token.CONST {
					for _, sp := range d.Specs {
						vs := sp.(*ast.ValueSpec)
						for i, n := range vs.Names {
							if i < len(vs.Values) {
								t.consts[n.Name] = vs.Values[i]
							}
						}
					}
				}
			}
		}
	}
	for _, f := range parseDir(fset, filepath.Join(repo, "jerr"), func(n string) bool { return n == "const.go" }) {
		for _, d := range f.Decls {
			if gd, ok := d.(*ast.GenDecl); ok && gd.Tok == token.CONST {
				for _, sp := range gd.Specs {
					vs := sp.(*ast.ValueSpec)
					for i, n := range vs.Names {
						if i < len(vs.Values) {
							if bl, ok := vs.Values[i].(*ast.BasicLit); ok && bl.Kind == token.STRING {
								s, err := strconv.Unquote(bl.Value)
								if err == nil {
									t.jerrC[n.Name] = s
								}
							}
						}
					}
				}
			}
		}
	}
	if len(order) == 0 {
		fail("no scanner state functions found")
	}
	if !t.states["stateRoot"] || !t.states["stateExpectKeyword"] {
		fail("stateRoot/stateExpectKeyword missing")
	}
	sort.Strings(order)

	var b strings.Builder
	b.WriteString("-- GENERATED by tools/go2lean from /repo/scanner/*.go — do not edit\n")
	b.WriteString("import JsightVerif.Model.ScannerSyntax\n")
	b.WriteString("set_option maxRecDepth 4000\n")
	b.WriteString("namespace JsightVerif.Gen\nopen JsightVerif.Model\n\n")
	b.WriteString("inductive St where\n")
	for _, s := range order {
		b.WriteString("  | " + s + "\n")
	}
	b.WriteString("  deriving DecidableEq, Repr, Inhabited\n\n")
	b.WriteString("def St.all : List St := [\n")
	for i, s := range order {
		sep := ","
		if i == len(order)-1 {
			sep = ""
		}
		b.WriteString("  ." + s + sep + "\n")
	}
	b.WriteString("]\n\n")
	b.WriteString("def St.name : St → String\n")
	for _, s := range order {
		b.WriteString("  | ." + s + " => " + leanStr(s) + "\n")
	}
	b.WriteString("\ndef St.ofName? : String → Option St\n")
	for _, s := range order {
		b.WriteString("  | " + leanStr(s) + " => some ." + s + "\n")
	}
	b.WriteString("  | _ => none\n\n")
	b.WriteString("def St.idx : St → Nat\n")
	for i, s := range order {
		b.WriteString(fmt.Sprintf("  | .%s => %d\n", s, i))
	}
	b.WriteString("\n")
	for _, s := range order {
		fd := t.funcs[s]
		e := &env{vars: map[string]ast.Expr{}}
		cname := fd.Type.Params.List[1].Names[0].Name
		sname := fd.Type.Params.List[0].Names[0].Name
		if sname != "s" {
			fail("%s: scanner parameter must be named s", t.pos(fd))
		}
		if cname != "_" && cname != "c" {
			fail("%s: byte parameter must be named c or _", t.pos(fd))
		}
		p := t.stmts(fd.Body.List, nil, e)
		b.WriteString("def prog_" + s + " : Prog St :=\n" + p.lean("  ") + "\n\n")
	}
	b.WriteString("def prog : St → Prog St\n")
	for _, s := range order {
		b.WriteString("  | ." + s + " => prog_" + s + "\n")
	}
	b.WriteString("\n")
	// lexeme events
	b.WriteString(t.genEvents())
	b.WriteString("\nend JsightVerif.Gen\n")
	return b.String()
}

// ---------------------------------------------------------------------------
// statements

func (t *scanTr) stmts(list []ast.Stmt, cont *node, e *env) *node {
	if len(list) == 0 {
		if cont == nil {
			return nil
		}
		return cont
	}
	s := list[0]
	rest := list[1:]
	need := func(n *node, at ast.Node) *node {
		if n == nil {
			fail("%s: control may fall off the end of a step function", t.pos(at))
		}
		return n
	}
	switch s := s.(type) {
	case *ast.ReturnStmt:
		if len(rest) != 0 {
			fail("%s: statements after return", t.pos(s))
		}
		if len(s.Results) != 1 {
			fail("%s: return with %d results", t.pos(s), len(s.Results))
		}
		return t.ret(s.Results[0], e)
	case *ast.ExprStmt:
		call, ok := s.X.(*ast.CallExpr)
		if !ok {
			fail("%s: unsupported expression statement", t.pos(s))
		}
		n := t.action(call, e)
		n.k = need(t.stmts(rest, cont, e), s)
		return n
	case *ast.AssignStmt:
		// s.step = X | s.step = s.stepStack.Pop() | s.curIndex -= k | x, je := s.readXWithJsc()
		if len(s.Lhs) == 2 && s.Tok == token.DEFINE {
			return t.readLen(s, rest, cont, e)
		}
		if len(s.Lhs) != 1 || len(s.Rhs) != 1 {
			fail("%s: unsupported assignment", t.pos(s))
		}
		lhs := t.selName(s.Lhs[0])
		switch {
		case lhs == "s.step" && s.Tok == token.ASSIGN:
			if id, ok := s.Rhs[0].(*ast.Ident); ok && t.states[id.Name] {
				return &node{kind: "setStep", st: id.Name, k: need(t.stmts(rest, cont, e), s)}
			}
			if c, ok := s.Rhs[0].(*ast.CallExpr); ok && t.selName(c.Fun) == "s.stepStack.Pop" && len(c.Args) == 0 {
				return &node{kind: "popToStep", k: need(t.stmts(rest, cont, e), s)}
			}
			fail("%s: unsupported value assigned to s.step", t.pos(s))
		case lhs == "s.curIndex" && s.Tok == token.SUB_ASSIGN:
			k := t.intLit(s.Rhs[0])
			return &node{kind: "curSub", n: k, k: need(t.stmts(rest, cont, e), s)}
		}
		fail("%s: unsupported assignment to %s", t.pos(s), lhs)
	case *ast.IncDecStmt:
		if t.selName(s.X) == "s.curIndex" && s.Tok == token.DEC {
			return &node{kind: "curSub", n: 1, k: need(t.stmts(rest, cont, e), s)}
		}
		fail("%s: unsupported inc/dec", t.pos(s))
	case *ast.IfStmt:
		if s.Init != nil {
			fail("%s: if with init statement", t.pos(s))
		}
		k := t.stmts(rest, cont, e)
		c := t.boolCond(s.Cond, e)
		th := need(t.stmts(s.Body.List, k, e), s)
		var el *node
		switch x := s.Else.(type) {
		case nil:
			el = need(k, s)
		case *ast.BlockStmt:
			el = need(t.stmts(x.List, k, e), s)
		case *ast.IfStmt:
			el = need(t.stmts([]ast.Stmt{x}, k, e), s)
		default:
			fail("%s: unsupported else", t.pos(s))
		}
		return &node{kind: "ite", cond: c, k: th, e: el}
	case *ast.SwitchStmt:
		if s.Init != nil {
			fail("%s: switch with init statement", t.pos(s))
		}
		k := t.stmts(rest, cont, e)
		tagged := false
		if s.Tag != nil {
			if !t.isC(s.Tag, e) {
				fail("%s: switch tag must be the current byte", t.pos(s))
			}
			tagged = true
		}
		type cl struct {
			c    *cond
			body *node
		}
		var cls []cl
		var dflt *node
		hasDefault := false
		for _, cs := range s.Body.List {
			cc := cs.(*ast.CaseClause)
			for _, st := range cc.Body {
				if br, ok := st.(*ast.BranchStmt); ok {
					fail("%s: unsupported branch statement %s", t.pos(br), br.Tok)
				}
			}
			body := t.stmts(cc.Body, k, e)
			if cc.List == nil {
				hasDefault = true
				dflt = need(body, cc)
				continue
			}
			var c *cond
			for _, ex := range cc.List {
				var ci *cond
				if tagged {
					ci = t.caseCond(ex, e)
				} else {
					ci = t.boolCond(ex, e)
				}
				if c == nil {
					c = ci
				} else {
					c = &cond{kind: "or", a: c, c: ci}
				}
			}
			cls = append(cls, cl{c, need(body, cc)})
		}
		if !hasDefault {
			dflt = need(k, s)
		}
		res := dflt
		for i := len(cls) - 1; i >= 0; i-- {
			res = &node{kind: "ite", cond: cls[i].c, k: cls[i].body, e: res}
		}
		return res
	case *ast.EmptyStmt:
		return t.stmts(rest, cont, e)
	}
	fail("%s: unsupported statement %T", t.pos(s), s)
	return nil
}

// x, je := s.readSchemaWithJsc(); if je != nil { return je }; if x > 0 { s.curIndex += bytes.Index(x - 1) }
func (t *scanTr) readLen(s *ast.AssignStmt, rest []ast.Stmt, cont *node, e *env) *node {
	call, ok := s.Rhs[0].(*ast.CallExpr)
	if !ok || len(s.Rhs) != 1 {
		fail("%s: unsupported two-value assignment", t.pos(s))
	}
	var kind string
	switch t.selName(call.Fun) {
	case "s.readSchemaWithJsc":
		kind = "jschema"
	case "s.readEnumWithJsc":
		kind = "enum"
	default:
		fail("%s: unsupported two-value call %s", t.pos(s), t.selName(call.Fun))
	}
	t.checkReadHelper(t.selName(call.Fun)[2:], kind)
	lenVar := s.Lhs[0].(*ast.Ident).Name
	errVar := s.Lhs[1].(*ast.Ident).Name
	if len(rest) < 2 {
		fail("%s: length read must be followed by the error test and the cursor jump", t.pos(s))
	}
	if1, ok1 := rest[0].(*ast.IfStmt)
	if2, ok2 := rest[1].(*ast.IfStmt)
	if !ok1 || !ok2 {
		fail("%s: length read must be followed by two if statements", t.pos(s))
	}
	// if je != nil { return je }
	good := false
	if be, ok := if1.Cond.(*ast.BinaryExpr); ok && be.Op == token.NEQ && isIdent(be.X, errVar) && isIdent(be.Y, "nil") &&
		if1.Else == nil && len(if1.Body.List) == 1 {
		if r, ok := if1.Body.List[0].(*ast.ReturnStmt); ok && len(r.Results) == 1 && isIdent(r.Results[0], errVar) {
			good = true
		}
	}
	if !good {
		fail("%s: unsupported error test after length read", t.pos(if1))
	}
	// if x > 0 { s.curIndex += bytes.Index(x - 1) }
	good = false
	if be, ok := if2.Cond.(*ast.BinaryExpr); ok && be.Op == token.GTR && isIdent(be.X, lenVar) && t.isIntLit(be.Y, 0) &&
		if2.Else == nil && len(if2.Body.List) == 1 {
		if as, ok := if2.Body.List[0].(*ast.AssignStmt); ok && as.Tok == token.ADD_ASSIGN && t.selName(as.Lhs[0]) == "s.curIndex" {
			if c, ok := as.Rhs[0].(*ast.CallExpr); ok && t.selName(c.Fun) == "bytes.Index" && len(c.Args) == 1 {
				if b2, ok := c.Args[0].(*ast.BinaryExpr); ok && b2.Op == token.SUB && isIdent(b2.X, lenVar) && t.isIntLit(b2.Y, 1) {
					good = true
				}
			}
		}
	}
	if !good {
		fail("%s: unsupported cursor jump after length read", t.pos(if2))
	}
	k := t.stmts(rest[2:], cont, e)
	if k == nil {
		fail("%s: control may fall off the end", t.pos(s))
	}
	return &node{kind: "readLen", s1: kind, k: k}
}

// checkReadHelper pins the shape of readSchemaWithJsc / readEnumWithJsc: the
// model's oracle stands for `<pkg>.FromFile(fs.NewFile("", content[cur:])).Len()`
// and the error is reported at cur + err.Index().
func (t *scanTr) checkReadHelper(name, kind string) {
	fd := t.funcs[name]
	if fd == nil {
		fail("helper %s not found", name)
	}
	src := t.nodeSrc(fd.Body)
	want := []string{"s.file.Content()", "fc.Sub(s.curIndex, fc.LenIndex())", ".FromFile(file).Len()",
		"kit.ConvertError(file, err)", "s.japiError(err.Message(), s.curIndex+bytes.Index(err.Index()))", "return l, nil"}
	if kind == "jschema" {
		want = append(want, "jschema.FromFile(file)")
	} else {
		want = append(want, "enum.FromFile(file)")
	}
	for _, w := range want {
		if !strings.Contains(src, w) {
			fail("%s: helper %s no longer has the modelled shape (missing %q)", t.pos(fd), name, w)
		}
	}
}

func (t *scanTr) nodeSrc(n ast.Node) string {
	p1 := t.fset.Position(n.Pos())
	p2 := t.fset.Position(n.End())
	src, err := os.ReadFile(p1.Filename)
	if err != nil {
		fail("%v", err)
	}
	return string(src[p1.Offset:p2.Offset])
}

func isIdent(e ast.Expr, name string) bool {
	id, ok := e.(*ast.Ident)
	return ok && id.Name == name
}

func (t *scanTr) isIntLit(e ast.Expr, v int) bool {
	bl, ok := e.(*ast.BasicLit)
	if !ok || bl.Kind != token.INT {
		return false
	}
	n, err := strconv.Atoi(bl.Value)
	return err == nil && n == v
}

func (t *scanTr) intLit(e ast.Expr) int {
	bl, ok := e.(*ast.BasicLit)
	if !ok || bl.Kind != token.INT {
		fail("%s: integer literal expected", t.pos(e))
	}
	n, err := strconv.Atoi(bl.Value)
	if err != nil || n < 0 {
		fail("%s: bad integer literal", t.pos(e))
	}
	return n
}

// selName renders a selector chain a.b.c (identifiers only).
func (t *scanTr) selName(e ast.Expr) string {
	switch x := e.(type) {
	case *ast.Ident:
		return x.Name
	case *ast.SelectorExpr:
		return t.selName(x.X) + "." + x.Sel.Name
	case *ast.ParenExpr:
		return t.selName(x.X)
	}
	return "?"
}

// action translates a call statement.
func (t *scanTr) action(call *ast.CallExpr, e *env) *node {
	switch t.selName(call.Fun) {
	case "s.found":
		if len(call.Args) != 1 {
			fail("%s: s.found arity", t.pos(call))
		}
		return &node{kind: "found", ev: t.evName(call.Args[0]), n: 0}
	case "s.foundAt":
		if len(call.Args) != 2 {
			fail("%s: s.foundAt arity", t.pos(call))
		}
		return &node{kind: "found", ev: t.evName(call.Args[1]), n: t.curBack(call.Args[0])}
	case "s.stepStack.Push":
		if len(call.Args) != 1 {
			fail("%s: Push arity", t.pos(call))
		}
		if id, ok := call.Args[0].(*ast.Ident); ok && t.states[id.Name] {
			return &node{kind: "push", st: id.Name}
		}
		if t.selName(call.Args[0]) == "s.step" {
			return &node{kind: "pushCur"}
		}
		fail("%s: unsupported Push argument", t.pos(call))
	}
	fail("%s: unsupported call statement %s", t.pos(call), t.selName(call.Fun))
	return nil
}

// curBack: s.curIndex → 0 ; s.curIndex-k → k
func (t *scanTr) curBack(e ast.Expr) int {
	if t.selName(e) == "s.curIndex" {
		return 0
	}
	if be, ok := e.(*ast.BinaryExpr); ok && be.Op == token.SUB && t.selName(be.X) == "s.curIndex" {
		return t.intLit(be.Y)
	}
	fail("%s: unsupported position expression", t.pos(e))
	return 0
}

func (t *scanTr) evName(e ast.Expr) string {
	id, ok := e.(*ast.Ident)
	if !ok {
		fail("%s: lexeme event must be an identifier", t.pos(e))
	}
	return id.Name
}

// ---------------------------------------------------------------------------
// returns

func (t *scanTr) ret(x ast.Expr, e *env) *node {
	if isIdent(x, "nil") {
		return &node{kind: "ok"}
	}
	call, ok := x.(*ast.CallExpr)
	if !ok {
		fail("%s: unsupported return value", t.pos(x))
	}
	fn := t.selName(call.Fun)
	switch fn {
	case "s.step":
		t.wantSC(call, e)
		return &node{kind: "redispatch"}
	case "s.japiErrorUnexpectedChar":
		if len(call.Args) != 2 {
			fail("%s: arity", t.pos(call))
		}
		return &node{kind: "failChar", s1: t.str(call.Args[0], e), s2: t.str(call.Args[1], e)}
	case "s.japiErrorBasic":
		if len(call.Args) != 1 {
			fail("%s: arity", t.pos(call))
		}
		return &node{kind: "failBasic", s1: t.str(call.Args[0], e)}
	}
	if id, ok := call.Fun.(*ast.Ident); ok && t.states[id.Name] {
		t.wantSC(call, e)
		return &node{kind: "call", st: id.Name}
	}
	// helper: function f(s, ...) or method s.f(...)
	var name string
	var args []ast.Expr
	if id, ok := call.Fun.(*ast.Ident); ok {
		name = id.Name
		if len(call.Args) == 0 || !isIdent(call.Args[0], "s") {
			fail("%s: helper call must pass s first", t.pos(call))
		}
		args = call.Args[1:]
	} else if strings.HasPrefix(fn, "s.") && strings.Count(fn, ".") == 1 {
		name = fn[2:]
		args = call.Args
	} else {
		fail("%s: unsupported call in return: %s", t.pos(call), fn)
	}
	fd := t.funcs[name]
	if fd == nil || fd.Body == nil {
		fail("%s: unknown helper %s", t.pos(call), name)
	}
	if fd.Type.Results == nil || len(fd.Type.Results.List) != 1 {
		fail("%s: helper %s must return one value", t.pos(call), name)
	}
	var params []string
	for i, f := range fd.Type.Params.List {
		for _, n := range f.Names {
			if fd.Recv == nil && i == 0 && len(params) == 0 && n.Name == "s" {
				// scanner parameter of a plain function
				params = append(params, "\x00s")
				continue
			}
			params = append(params, n.Name)
		}
	}
	if fd.Recv != nil {
		if len(fd.Recv.List) != 1 || len(fd.Recv.List[0].Names) != 1 || fd.Recv.List[0].Names[0].Name != "s" {
			fail("%s: helper receiver must be named s", t.pos(fd))
		}
		if _, ok := fd.Recv.List[0].Type.(*ast.StarExpr); !ok {
			fail("%s: helper %s has a value receiver (mutations would be lost)", t.pos(fd), name)
		}
	} else {
		if len(params) == 0 || params[0] != "\x00s" {
			fail("%s: helper %s must take the scanner first", t.pos(fd), name)
		}
		params = params[1:]
	}
	if len(params) != len(args) {
		fail("%s: helper %s arity mismatch", t.pos(call), name)
	}
	ne := &env{vars: map[string]ast.Expr{}, parent: e}
	for i, p := range params {
		if p != "_" {
			ne.vars[p] = args[i]
		}
	}
	t.inlineD++
	if t.inlineD > 8 {
		fail("%s: helper inlining too deep (recursive helper?)", t.pos(call))
	}
	r := t.stmts(fd.Body.List, nil, &env{vars: closeOver(ne, e, t), parent: nil})
	t.inlineD--
	if r == nil {
		fail("%s: helper %s may fall off the end", t.pos(fd), name)
	}
	return r
}

// closeOver resolves helper arguments in the caller's environment so the callee
// body is translated with a flat environment: name -> canonical expr
// (identifier "c" for the current byte, or a string literal).
func closeOver(ne, caller *env, t *scanTr) map[string]ast.Expr {
	out := map[string]ast.Expr{}
	for k, v := range ne.vars {
		if t.isC(v, caller) {
			out[k] = &ast.Ident{Name: "c"}
			continue
		}
		if s, ok := t.tryStr(v, caller); ok {
			out[k] = &ast.BasicLit{Kind: token.STRING, Value: strconv.Quote(s)}
			continue
		}
		fail("%s: unsupported helper argument", t.pos(v))
	}
	return out
}

func (t *scanTr) wantSC(call *ast.CallExpr, e *env) {
	if len(call.Args) != 2 || !isIdent(call.Args[0], "s") || !t.isC(call.Args[1], e) {
		fail("%s: step call must be (s, c)", t.pos(call))
	}
}

// isC: does the expression denote the current byte?
func (t *scanTr) isC(x ast.Expr, e *env) bool {
	id, ok := x.(*ast.Ident)
	if !ok {
		return false
	}
	for en := e; en != nil; en = en.parent {
		if v, ok := en.vars[id.Name]; ok {
			if vi, ok := v.(*ast.Ident); ok && vi.Name == "c" {
				return true
			}
			return false
		}
	}
	return id.Name == "c"
}

func (t *scanTr) tryStr(x ast.Expr, e *env) (string, bool) {
	switch v := x.(type) {
	case *ast.BasicLit:
		if v.Kind == token.STRING {
			s, err := strconv.Unquote(v.Value)
			if err == nil {
				return s, true
			}
		}
	case *ast.Ident:
		for en := e; en != nil; en = en.parent {
			if b, ok := en.vars[v.Name]; ok {
				return t.tryStr(b, nil)
			}
		}
		if c, ok := t.consts[v.Name]; ok {
			return t.tryStr(c, nil)
		}
	case *ast.SelectorExpr:
		if isIdent(v.X, "jerr") {
			if s, ok := t.jerrC[v.Sel.Name]; ok {
				return s, true
			}
		}
	case *ast.CallExpr:
		if t.selName(v.Fun) == "fmt.Sprintf" && len(v.Args) >= 1 {
			f, ok := t.tryStr(v.Args[0], e)
			if !ok {
				return "", false
			}
			var args []any
			for _, a := range v.Args[1:] {
				if b, ok := t.tryByte(a); ok {
					args = append(args, rune(b))
					continue
				}
				if s, ok := t.tryStr(a, e); ok {
					args = append(args, s)
					continue
				}
				return "", false
			}
			return fmt.Sprintf(f, args...), true
		}
	}
	return "", false
}

func (t *scanTr) str(x ast.Expr, e *env) string {
	s, ok := t.tryStr(x, e)
	if !ok {
		fail("%s: cannot evaluate string expression", t.pos(x))
	}
	return s
}

func (t *scanTr) tryByte(x ast.Expr) (int, bool) {
	switch v := x.(type) {
	case *ast.BasicLit:
		if v.Kind == token.CHAR {
			s, err := strconv.Unquote(v.Value)
			if err == nil && len(s) == 1 {
				return int(s[0]), true
			}
			if err == nil {
				r := []rune(s)
				if len(r) == 1 && r[0] < 256 {
					return int(r[0]), true
				}
			}
		}
		if v.Kind == token.INT {
			n, err := strconv.Atoi(v.Value)
			if err == nil && n >= 0 && n < 256 {
				return n, true
			}
		}
	case *ast.Ident:
		if c, ok := t.consts[v.Name]; ok {
			return t.tryByte(c)
		}
	case *ast.ParenExpr:
		return t.tryByte(v.X)
	}
	return 0, false
}

// ---------------------------------------------------------------------------
// conditions

// caseCond: expression in `switch c { case <expr> }`
func (t *scanTr) caseCond(x ast.Expr, e *env) *cond {
	if call, ok := x.(*ast.CallExpr); ok {
		if id, ok := call.Fun.(*ast.Ident); ok && len(call.Args) == 1 && t.isC(call.Args[0], e) {
			switch id.Name {
			case "caseWhitespace":
				return &cond{kind: "eqCaseWs"}
			case "caseNewLine":
				return &cond{kind: "eqCaseNl"}
			}
		}
		fail("%s: unsupported case expression", t.pos(x))
	}
	if b, ok := t.tryByte(x); ok {
		return &cond{kind: "byteEq", b: b}
	}
	fail("%s: unsupported case expression", t.pos(x))
	return nil
}

func (t *scanTr) boolCond(x ast.Expr, e *env) *cond {
	switch v := x.(type) {
	case *ast.ParenExpr:
		return t.boolCond(v.X, e)
	case *ast.UnaryExpr:
		if v.Op == token.NOT {
			return &cond{kind: "not", a: t.boolCond(v.X, e)}
		}
	case *ast.BinaryExpr:
		switch v.Op {
		case token.LAND:
			return &cond{kind: "and", a: t.boolCond(v.X, e), c: t.boolCond(v.Y, e)}
		case token.LOR:
			return &cond{kind: "or", a: t.boolCond(v.X, e), c: t.boolCond(v.Y, e)}
		case token.LSS, token.LEQ, token.GTR, token.GEQ:
			// ordered comparison of the current byte with a constant, on either side
			op := v.Op
			var b int
			var ok bool
			if t.isC(v.X, e) {
				b, ok = t.tryByte(v.Y)
			} else if t.isC(v.Y, e) {
				b, ok = t.tryByte(v.X)
				switch op { // b OP c  ==  c OP' b
				case token.LSS:
					op = token.GTR
				case token.LEQ:
					op = token.GEQ
				case token.GTR:
					op = token.LSS
				case token.GEQ:
					op = token.LEQ
				}
			}
			if !ok {
				fail("%s: unsupported comparison", t.pos(x))
			}
			switch op {
			case token.LEQ:
				return &cond{kind: "byteLe", b: b}
			case token.GEQ:
				return &cond{kind: "byteGe", b: b}
			case token.LSS:
				return &cond{kind: "not", a: &cond{kind: "byteGe", b: b}}
			default:
				return &cond{kind: "not", a: &cond{kind: "byteLe", b: b}}
			}
		case token.EQL, token.NEQ:
			var c *cond
			if t.isC(v.X, e) {
				if b, ok := t.tryByte(v.Y); ok {
					c = &cond{kind: "byteEq", b: b}
				}
			} else if t.isC(v.Y, e) {
				if b, ok := t.tryByte(v.X); ok {
					c = &cond{kind: "byteEq", b: b}
				}
			} else if call, ok := v.X.(*ast.CallExpr); ok && t.selName(call.Fun) == "s.data.Byte" && len(call.Args) == 1 {
				if b, ok := t.tryByte(v.Y); ok {
					c = &cond{kind: "dataBackEq", n: t.curBack(call.Args[0]), b: b}
				}
			}
			if c == nil {
				fail("%s: unsupported comparison", t.pos(x))
			}
			if v.Op == token.NEQ {
				return &cond{kind: "not", a: c}
			}
			return c
		}
	case *ast.CallExpr:
		fn := t.selName(v.Fun)
		switch fn {
		case "IsNewLine":
			if len(v.Args) == 1 && t.isC(v.Args[0], e) {
				return &cond{kind: "isNl"}
			}
		case "isWhitespace":
			if len(v.Args) == 1 && t.isC(v.Args[0], e) {
				return &cond{kind: "isWs"}
			}
		case "s.isDirective":
			return &cond{kind: "isDirective"}
		case "s.isDirectiveParameterHasTypeOrAnyOrEmpty":
			return &cond{kind: "hasTypeOrAnyOrEmpty"}
		case "s.isDirectiveParameterHasAnyOrEmpty":
			return &cond{kind: "hasAnyOrEmpty"}
		case "s.isDirectiveParameterHasRegexNotation":
			return &cond{kind: "hasRegex"}
		}
	}
	fail("%s: unsupported condition", t.pos(x))
	return nil
}

// ---------------------------------------------------------------------------
// lexeme events (lexeme-event.go)

func (t *scanTr) genEvents() string {
	var b strings.Builder
	evs := t.iotaNames("LexemeEventType")
	lts := t.iotaNames("LexemeType")
	b.WriteString("def evOrder : List Ev := [" + joinDot(evs) + "]\n")
	b.WriteString("def lexTypeOrder : List LexType := [" + joinDot(lts) + "]\n")
	for _, m := range []string{"IsBeginning", "IsEnding", "IsSingle"} {
		b.WriteString("def ev" + m + " : List Ev := [" + joinDot(t.trueCases(m)) + "]\n")
	}
	// ToLexemeType
	fd := t.funcs["ToLexemeType"]
	if fd == nil {
		fail("ToLexemeType not found")
	}
	b.WriteString("def evToLexType : List (Ev × LexType) := [")
	first := true
	for _, st := range fd.Body.List {
		sw, ok := st.(*ast.SwitchStmt)
		if !ok {
			continue
		}
		for _, cs := range sw.Body.List {
			cc := cs.(*ast.CaseClause)
			if cc.List == nil {
				continue
			}
			if len(cc.Body) != 1 {
				fail("%s: ToLexemeType shape", t.pos(cc))
			}
			r, ok := cc.Body[0].(*ast.ReturnStmt)
			if !ok || len(r.Results) != 1 {
				fail("%s: ToLexemeType shape", t.pos(cc))
			}
			lt := r.Results[0].(*ast.Ident).Name
			for _, ex := range cc.List {
				if !first {
					b.WriteString(", ")
				}
				first = false
				b.WriteString("(." + ex.(*ast.Ident).Name + ", ." + lt + ")")
			}
		}
	}
	b.WriteString("]\n")
	return b.String()
}

func joinDot(xs []string) string {
	var o []string
	for _, x := range xs {
		o = append(o, "."+x)
	}
	return strings.Join(o, ", ")
}

// iotaNames lists the constants of the const block whose first spec has the given type.
func (t *scanTr) iotaNames(typ string) []string {
	var out []string
	dir := ""
	for _, fd := range t.funcs {
		dir = filepath.Dir(t.fset.Position(fd.Pos()).Filename)
		break
	}
	fset := token.NewFileSet()
	for _, f := range parseDir(fset, dir, nil) {
		for _, d := range f.Decls {
			gd, ok := d.(*ast.GenDecl)
			if !ok || gd.Tok != token.CONST || len(gd.Specs) == 0 {
				continue
			}
			vs := gd.Specs[0].(*ast.ValueSpec)
			if id, ok := vs.Type.(*ast.Ident); !ok || id.Name != typ {
				continue
			}
			if len(vs.Values) != 1 || !isIdent(vs.Values[0], "iota") {
				fail("const block of %s must start with iota", typ)
			}
			for _, sp := range gd.Specs {
				for _, n := range sp.(*ast.ValueSpec).Names {
					out = append(out, n.Name)
				}
			}
		}
	}
	if len(out) == 0 {
		fail("const block of %s not found", typ)
	}
	return out
}

// trueCases: method `func (e T) M() bool { switch e { case A, B: return true; default: return false } }`
func (t *scanTr) trueCases(method string) []string {
	fd := t.funcs[method]
	if fd == nil {
		fail("method %s not found", method)
	}
	var out []string
	if len(fd.Body.List) != 1 {
		fail("%s: unsupported shape", t.pos(fd))
	}
	sw, ok := fd.Body.List[0].(*ast.SwitchStmt)
	if !ok {
		fail("%s: unsupported shape", t.pos(fd))
	}
	for _, cs := range sw.Body.List {
		cc := cs.(*ast.CaseClause)
		if len(cc.Body) != 1 {
			fail("%s: unsupported shape", t.pos(cc))
		}
		r, ok := cc.Body[0].(*ast.ReturnStmt)
		if !ok || len(r.Results) != 1 {
			fail("%s: unsupported shape", t.pos(cc))
		}
		val := r.Results[0].(*ast.Ident).Name
		if cc.List == nil {
			if val != "false" {
				fail("%s: default must return false", t.pos(cc))
			}
			continue
		}
		if val != "true" {
			fail("%s: case must return true", t.pos(cc))
		}
		for _, ex := range cc.List {
			out = append(out, ex.(*ast.Ident).Name)
		}
	}
	return out
}
