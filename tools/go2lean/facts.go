package main

import (
	"fmt"
	"go/ast"
	"go/token"
	"go/types"
	"os"
	"path/filepath"
	"sort"
	"strings"

	"golang.org/x/tools/go/packages"
)

// genFacts extracts static facts (with go/types) about the non-test, guard-off
// sources of the repository: package-level variables and their write sites,
// every range over a map, every use of os / filepath / time / rand / unsafe,
// goroutine starts, explicit panics and recovers, unchecked type assertions,
// and the phase order of the build.
func genFacts(repo string) string {
	cfg := &packages.Config{
		Mode: packages.NeedName | packages.NeedFiles | packages.NeedSyntax | packages.NeedTypes |
			packages.NeedTypesInfo | packages.NeedImports | packages.NeedCompiledGoFiles,
		Dir:   repo,
		Env:   append(os.Environ(), "GOFLAGS=-mod=mod", "GOPROXY=off", "GOSUMDB=off", "GOTOOLCHAIN=local"),
		Tests: false,
	}
	pkgs, err := packages.Load(cfg, "./catalog/...", "./core/...", "./directive/...", "./jerr/...", "./kit/...", "./notation/...", "./scanner/...")
	if err != nil {
		fail("packages.Load: %v", err)
	}
	sort.Slice(pkgs, func(i, j int) bool { return pkgs[i].PkgPath < pkgs[j].PkgPath })
	const modPrefix = "github.com/jsightapi/jsight-api-core/"

	type site struct{ pkg, file, fn, what string }
	var mapRanges, osCalls, panics, recovers, goStmts, asserts, imports, fieldWrites, sortCalls []site
	var pvars []*pvarT
	pvarIdx := map[types.Object]*pvarT{}
	var phasesCompile, phasesProject []string

	for _, p := range pkgs {
		if len(p.Errors) > 0 {
			fail("type errors in %s: %v", p.PkgPath, p.Errors[0])
		}
		short := strings.TrimPrefix(p.PkgPath, modPrefix)
		// package-level variables
		scope := p.Types.Scope()
		for _, n := range scope.Names() {
			if v, ok := scope.Lookup(n).(*types.Var); ok {
				pv := &pvarT{pkg: short, name: n, typ: types.TypeString(v.Type(), func(q *types.Package) string { return q.Name() })}
				pvars = append(pvars, pv)
				pvarIdx[v] = pv
			}
		}
	}
	for _, p := range pkgs {
		short := strings.TrimPrefix(p.PkgPath, modPrefix)
		for _, f := range p.Syntax {
			fname := filepath.Base(p.Fset.Position(f.Pos()).Filename)
			if strings.HasSuffix(fname, "_test.go") {
				continue
			}
			for _, im := range f.Imports {
				path := strings.Trim(im.Path.Value, "\"")
				switch path {
				case "time", "math/rand", "math/rand/v2", "unsafe", "reflect", "os", "io/ioutil", "path/filepath", "sync", "sync/atomic", "runtime", "crypto/rand":
					imports = append(imports, site{short, fname, "", path})
				}
			}
			for _, d := range f.Decls {
				fd, ok := d.(*ast.FuncDecl)
				if !ok || fd.Body == nil {
					continue
				}
				fn := fd.Name.Name
				if fd.Recv != nil && len(fd.Recv.List) == 1 {
					fn = recvName(fd.Recv.List[0].Type) + "." + fn
				}
				inOnce := 0
				rangeOrd := 0
				var walk func(n ast.Node) bool
				walk = func(n ast.Node) bool {
					switch x := n.(type) {
					case *ast.RangeStmt:
						tv := p.TypesInfo.TypeOf(x.X)
						if tv != nil {
							if _, ok := tv.Underlying().(*types.Map); ok {
								mapRanges = append(mapRanges, site{short, fname, fn, fmt.Sprintf("%d", rangeOrd)})
								rangeOrd++
							}
						}
					case *ast.GoStmt:
						goStmts = append(goStmts, site{short, fname, fn, "go"})
					case *ast.TypeAssertExpr:
						// unchecked assertions x.(T) outside `v, ok :=` and type switches
						if x.Type != nil {
							asserts = append(asserts, site{short, fname, fn, types.ExprString(x.Type)})
						}
					case *ast.CallExpr:
						if id, ok := x.Fun.(*ast.Ident); ok {
							if obj, ok := p.TypesInfo.Uses[id].(*types.Builtin); ok {
								switch obj.Name() {
								case "panic":
									panics = append(panics, site{short, fname, fn, "panic"})
								case "recover":
									recovers = append(recovers, site{short, fname, fn, "recover"})
								}
							}
						}
						if sel, ok := x.Fun.(*ast.SelectorExpr); ok {
							if id, ok := sel.X.(*ast.Ident); ok {
								if pn, ok := p.TypesInfo.Uses[id].(*types.PkgName); ok {
									switch pn.Imported().Path() {
									case "os", "io/ioutil", "path/filepath", "time", "math/rand", "runtime":
										osCalls = append(osCalls, site{short, fname, fn, pn.Imported().Path() + "." + sel.Sel.Name})
									case "sort", "slices":
										// in-place reordering: of a catalog slice it would change the catalog
										sortCalls = append(sortCalls, site{short, fname, fn, pn.Imported().Path() + "." + sel.Sel.Name})
									}
								}
							}
							// once.Do(func(){...}) : writes inside are init-once
							if sel.Sel.Name == "Do" {
								if tv := p.TypesInfo.TypeOf(sel.X); tv != nil && strings.HasSuffix(tv.String(), "sync.Once") {
									inOnce++
									for _, a := range x.Args {
										ast.Inspect(a, walk)
									}
									inOnce--
									return false
								}
							}
							// mutating method call on a package-level variable: v.Set / v.Store / append-like
							if id, ok := sel.X.(*ast.Ident); ok {
								if pv, ok := pvarIdx[p.TypesInfo.Uses[id]]; ok && fn != "init" && inOnce == 0 {
									if s, ok := p.TypesInfo.Selections[sel]; ok && s.Kind() == types.MethodVal {
										if sig, ok := s.Obj().Type().(*types.Signature); ok && sig.Recv() != nil {
											if _, ptr := sig.Recv().Type().(*types.Pointer); ptr {
												pv.writes = append(pv.writes, fmt.Sprintf("%s/%s:%s:call %s", short, fname, fn, sel.Sel.Name))
											}
										}
									}
								}
							}
						}
					case *ast.AssignStmt:
						for _, l := range x.Lhs {
							recordWrite(p, l, pvarIdx, short, fname, fn, inOnce, "assign")
							if w := catalogFieldWrite(p, l, modPrefix); w != "" && x.Tok != token.DEFINE && inOnce == 0 {
								fieldWrites = append(fieldWrites, site{short, fname, fn, w})
							}
						}
					case *ast.IncDecStmt:
						recordWrite(p, x.X, pvarIdx, short, fname, fn, inOnce, "incdec")
						if w := catalogFieldWrite(p, x.X, modPrefix); w != "" && inOnce == 0 {
							fieldWrites = append(fieldWrites, site{short, fname, fn, w})
						}
					case *ast.UnaryExpr:
						if x.Op == token.AND {
							recordWrite(p, x.X, pvarIdx, short, fname, fn, inOnce, "addr")
						}
					}
					return true
				}
				ast.Inspect(fd.Body, walk)
				// phases
				if short == "core" && (fn == "JApiCore.compileCore" || fn == "JApiCore.processJApiProject") {
					var seq []string
					ast.Inspect(fd.Body, func(n ast.Node) bool {
						if c, ok := n.(*ast.CallExpr); ok {
							if sel, ok := c.Fun.(*ast.SelectorExpr); ok && isIdent(sel.X, "core") {
								seq = append(seq, sel.Sel.Name)
							}
						}
						return true
					})
					if fn == "JApiCore.compileCore" {
						phasesCompile = seq
					} else {
						phasesProject = seq
					}
				}
			}
		}
	}
	if phasesCompile == nil || phasesProject == nil {
		fail("core: compileCore / processJApiProject not found")
	}

	var b strings.Builder
	b.WriteString("-- GENERATED by tools/go2lean (go/types facts about /repo, guard off, non-test) — do not edit\n")
	b.WriteString("import JsightVerif.Model.FactsSyntax\nnamespace JsightVerif.Gen\nopen JsightVerif.Model\n\n")
	emitSites := func(name string, ss []site) {
		sort.SliceStable(ss, func(i, j int) bool {
			a, c := ss[i], ss[j]
			if a.pkg != c.pkg {
				return a.pkg < c.pkg
			}
			if a.file != c.file {
				return a.file < c.file
			}
			if a.fn != c.fn {
				return a.fn < c.fn
			}
			return a.what < c.what
		})
		b.WriteString("def " + name + " : List Site := [\n")
		for i, s := range ss {
			sep := ","
			if i == len(ss)-1 {
				sep = ""
			}
			b.WriteString(fmt.Sprintf("  ⟨%s, %s, %s, %s⟩%s\n", leanStr(s.pkg), leanStr(s.file), leanStr(s.fn), leanStr(s.what), sep))
		}
		b.WriteString("]\n\n")
	}
	emitSites("mapRanges", mapRanges)
	emitSites("osCalls", osCalls)
	emitSites("panicSites", panics)
	emitSites("recoverSites", recovers)
	emitSites("goStmts", goStmts)
	emitSites("typeAsserts", asserts)
	emitSites("sensitiveImports", imports)
	{
		// writes to fields of catalog types outside sync.Once bodies, in the packages that serialise / export
		var ser []site
		for _, w := range fieldWrites {
			if w.pkg == "kit" || w.pkg == "catalog/ser/openapi" || w.pkg == "catalog" {
				ser = append(ser, w)
			}
		}
		emitSites("catalogFieldWrites", ser)
		var sc []site
		for _, w := range sortCalls {
			if w.pkg == "kit" || w.pkg == "catalog/ser/openapi" || w.pkg == "catalog" {
				sc = append(sc, w)
			}
		}
		emitSites("sortCalls", sc)
	}
	b.WriteString("def pkgVars : List PkgVar := [\n")
	for i, v := range pvars {
		sep := ","
		if i == len(pvars)-1 {
			sep = ""
		}
		var ws []string
		for _, w := range v.writes {
			ws = append(ws, leanStr(w))
		}
		b.WriteString(fmt.Sprintf("  ⟨%s, %s, %s, [%s]⟩%s\n", leanStr(v.pkg), leanStr(v.name), leanStr(v.typ), strings.Join(ws, ", "), sep))
	}
	b.WriteString("]\n\n")
	strList := func(name string, xs []string) {
		var q []string
		for _, x := range xs {
			q = append(q, leanStr(x))
		}
		b.WriteString("def " + name + " : List String := [" + strings.Join(q, ", ") + "]\n")
	}
	strList("phasesCompileCore", phasesCompile)
	strList("phasesProject", phasesProject)
	b.WriteString("\nend JsightVerif.Gen\n")
	return b.String()
}

// catalogFieldWrite: "Type.field" when the expression (under index / deref / parentheses) selects a field of a
// struct type declared in package catalog; "" otherwise
func catalogFieldWrite(p *packages.Package, e ast.Expr, modPrefix string) string {
	for {
		switch x := e.(type) {
		case *ast.ParenExpr:
			e = x.X
			continue
		case *ast.IndexExpr:
			e = x.X
			continue
		case *ast.StarExpr:
			e = x.X
			continue
		}
		break
	}
	sel, ok := e.(*ast.SelectorExpr)
	if !ok {
		return ""
	}
	s, ok := p.TypesInfo.Selections[sel]
	if !ok || s.Kind() != types.FieldVal {
		return ""
	}
	t := s.Recv()
	if pt, ok := t.(*types.Pointer); ok {
		t = pt.Elem()
	}
	nt, ok := t.(*types.Named)
	if !ok || nt.Obj().Pkg() == nil {
		return ""
	}
	if nt.Obj().Pkg().Path() != modPrefix+"catalog" {
		return ""
	}
	return nt.Obj().Name() + "." + sel.Sel.Name
}

func recvName(e ast.Expr) string {
	switch x := e.(type) {
	case *ast.StarExpr:
		return recvName(x.X)
	case *ast.Ident:
		return x.Name
	case *ast.IndexExpr:
		return recvName(x.X)
	case *ast.IndexListExpr:
		return recvName(x.X)
	}
	return "?"
}

// recordWrite notes an assignment / address-taking whose root is a package-level variable.
func recordWrite(p *packages.Package, e ast.Expr, idx map[types.Object]*pvarT, short, fname, fn string, inOnce int, kind string) {
	if fn == "init" || inOnce > 0 {
		return
	}
	root := e
	for {
		switch x := root.(type) {
		case *ast.IndexExpr:
			root = x.X
			continue
		case *ast.SelectorExpr:
			// pkgvar.field = ... ; a qualified identifier otherpkg.Var is also a package-level variable
			if id, ok := x.X.(*ast.Ident); ok {
				if _, ok := p.TypesInfo.Uses[id].(*types.PkgName); ok {
					if pv, ok := idx[p.TypesInfo.Uses[x.Sel]]; ok {
						pv.writes = append(pv.writes, fmt.Sprintf("%s/%s:%s:%s", short, fname, fn, kind))
					}
					return
				}
			}
			root = x.X
			continue
		case *ast.StarExpr:
			root = x.X
			continue
		case *ast.ParenExpr:
			root = x.X
			continue
		}
		break
	}
	if id, ok := root.(*ast.Ident); ok {
		if pv, ok := idx[p.TypesInfo.Uses[id]]; ok {
			pv.writes = append(pv.writes, fmt.Sprintf("%s/%s:%s:%s", short, fname, fn, kind))
		}
	}
}

type pvarT struct {
	pkg, name, typ string
	writes         []string
}
