import JsightVerif.Model.ScannerSyntax
import JsightVerif.Model.FactsSyntax
import JsightVerif.Model.Bytes
import JsightVerif.Model.Scanner
import JsightVerif.Model.ScanGen
import JsightVerif.Gen.ScannerTable
import JsightVerif.Gen.DirectiveTable
import JsightVerif.Gen.Facts
