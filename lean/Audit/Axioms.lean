import Lean
/-
  `lake env lean --run Audit/Axioms.lean JsightVerif.Props.C13` prints, for every
  theorem declared in that module, its name and the axioms it depends on
  (one line each: `THEOREM <name> AXIOMS a,b,c`).  Used by bin/check.
-/
open Lean

def main (args : List String) : IO UInt32 := do
  let modName := args.head!.toName
  initSearchPath (← findSysroot)
  let env ← importModules #[{ module := modName }] {}
  let some idx := env.getModuleIdx? modName | do
    IO.eprintln s!"module {modName} not found"; return 1
  let mut n := 0
  for (name, ci) in env.constants.toList do
    if env.getModuleIdxFor? name == some idx then
      match ci with
      | .thmInfo _ =>
        if name.isInternal then continue
        let (axs, _) ← (Lean.collectAxioms name : CoreM _).toIO { fileName := "", fileMap := default } { env := env }
        let axs := axs.toList.map toString
        IO.println s!"THEOREM {name} AXIOMS {",".intercalate axs}"
        n := n + 1
      | _ => pure ()
  IO.println s!"COUNT {n}"
  return 0
