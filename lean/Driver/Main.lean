import JsightVerif.Model.ScanGen
import JsightVerif.Model.Project
import JsightVerif.Model.Build
import Driver.Reach
/-
  Line-protocol driver (DESIGN Appendix A): one case per line on stdin, one
  canonical result line on stdout. Core-only so it links as a `lean_exe`.
-/
open JsightVerif.Model JsightVerif.Gen

def hexNib (c : Char) : Option Nat :=
  if '0' ≤ c ∧ c ≤ '9' then some (c.toNat - 48)
  else if 'a' ≤ c ∧ c ≤ 'f' then some (c.toNat - 87)
  else none

partial def unhexAux (cs : List Char) (acc : Array UInt8) : Option (Array UInt8) :=
  match cs with
  | [] => some acc
  | a :: b :: rest =>
    match hexNib a, hexNib b with
    | some x, some y => unhexAux rest (acc.push (x * 16 + y).toUInt8)
    | _, _ => none
  | _ => none

def unhex (s : String) : Option (Array UInt8) :=
  if s == "-" then some #[] else unhexAux s.toList #[]

def hexStr (s : String) : String := hexOfBytes (strBytes s)

def LexType.code : LexType → String
  | .Keyword => "K" | .Parameter => "P" | .Annotation => "A" | .Schema => "S" | .Json => "J"
  | .Text => "T" | .ContextExplicitOpening => "O" | .ContextExplicitClosing => "C" | .Enum => "E"

def renderLex (l : Lexeme) : String := s!"{LexType.code l.ty}:{l.b}:{l.e}"

/-- replace every double-quoted segment `"…"` (with backslash escapes) by `"_"` -/
partial def canonQuotesAux (cs : List Char) (acc : List Char) : List Char :=
  match cs with
  | [] => acc.reverse
  | '"' :: rest =>
    -- find the closing quote
    let rec close (r : List Char) : Option (List Char) :=
      match r with
      | [] => none
      | '\\' :: _ :: r' => close r'
      | '"' :: r' => some r'
      | _ :: r' => close r'
    match close rest with
    | some after => canonQuotesAux after ('"' :: '_' :: '"' :: acc)
    | none => canonQuotesAux rest ('"' :: acc)
  | c :: rest => canonQuotesAux rest (c :: acc)

def canonQuotes (s : String) : String := String.ofList (canonQuotesAux s.toList [])

def renderFault : Fault → String
  | .err m i => s!"err:{hexStr (canonQuotes m.render)}:{i}"
  | .panic _ => "panic"
  | .fuel => "fuel"

def renderEnd : End → String
  | .eof => "eof"
  | .fault f => renderFault f

/-- oracle entries: `j@<pos>=<len>` / `j@<pos>=!<idx>:<hexmsg>` (j = jschema, e = enum), comma separated -/
structure OracleTbl where
  entries : List (BodyKind × Nat × LenAnswer)

def parseOracle (s : String) : Option OracleTbl :=
  if s == "-" then some ⟨[]⟩ else
  let parts := s.splitOn ","
  let rec go (ps : List String) (acc : List (BodyKind × Nat × LenAnswer)) : Option OracleTbl :=
    match ps with
    | [] => some ⟨acc⟩
    | p :: rest =>
      match p.splitOn "=" with
      | [k, v] =>
        match k.splitOn "@" with
        | [kind, pos] =>
          let bk : Option BodyKind := if kind == "j" then some .jschema else if kind == "e" then some .enum else none
          match bk, pos.toNat? with
          | some bk, some pos =>
            if v.startsWith "!" then
              match (v.drop 1).toString.splitOn ":" with
              | [idx, msg] =>
                match idx.toNat?, unhex msg with
                | some idx, some m => go rest ((bk, pos, .err (String.fromUTF8! (ByteArray.mk m)) idx) :: acc)
                | _, _ => none
              | _ => none
            else match v.toNat? with
              | some n => go rest ((bk, pos, .len n) :: acc)
              | none => none
          | _, _ => none
        | _ => none
      | _ => none
  go parts []

def OracleTbl.lenAt (t : OracleTbl) (k : BodyKind) (pos : Nat) : LenAnswer :=
  match t.entries.find? (fun e => e.1 == k && e.2.1 == pos) with
  | some e => e.2.2
  | none => .err s!"ORACLE-MISS {if k == .jschema then "j" else "e"}@{pos}" 0

def cmdScan (args : List String) : String :=
  match args with
  | [hx, orc] =>
    match unhex hx, parseOracle orc with
    | some data, some tbl =>
      let (ls, e) := scanFile data tbl.lenAt
      match e with
      | .fault (.err (.oracle m) _) =>
        if m.startsWith "ORACLE-MISS " then "MISS " ++ (m.drop 12).toString
        else "LEX " ++ " ".intercalate (ls.map renderLex) ++ " | END " ++ renderEnd e
      | _ => "LEX " ++ " ".intercalate (ls.map renderLex) ++ " | END " ++ renderEnd e
    | _, _ => "BAD-INPUT"
  | _ => "BAD-INPUT"

/-! ### proj: project scan (L1) -/

def hexB (b : Bytes) : String := if b.isEmpty then "-" else hexOfBytes b

/-- file names are reported cleaned (the harness makes them relative to the project directory) -/
def cleanName (b : Bytes) : Bytes := joinSegs (cleanSegs (splitOn47 b))
def hexN (b : Bytes) : String := hexB (cleanName b)

def canonPrefix (m : String) : String :=
  canonQuotes <|
  if m.startsWith "UC|" || m.startsWith "EOF|" || m.startsWith "M|" then m else "M|" ++ m

partial def renderTree (depth : Nat) : Tree Dir → List String
  | .node d kids =>
    let named := (d.named.toArray.qsort (fun a b => a.1 < b.1)).toList.map (fun kv => kv.1 ++ "=" ++ hexB kv.2)
    let body := match d.body with
      | some (f, b, e) => s!"{hexN f}:{b}:{e}"
      | none => "-"
    let me := s!"{depth};{d.kind.keyword};{hexB d.keyword};{",".intercalate named};{",".intercalate (d.unnamed.map hexB)};{hexB d.ann};{body};{if d.explicit then "E" else "I"};{hexN d.file};{d.kwBegin}:{d.kwEnd}"
    me :: (kids.map (renderTree (depth + 1))).flatten

structure ProjFile where
  name : Bytes
  isDir : Bool
  content : Array UInt8
  oracle : OracleTbl

def mkFileSys (files : List ProjFile) : FileSys := fun p =>
  match files.find? (fun f => f.name == p) with
  | some f => if f.isDir then .found .dir else .found (.file f.content f.oracle.lenAt)
  | none =>
    -- a proper prefix that is a regular file makes the OS answer ENOTDIR
    let segs := splitOn47 p
    let prefixes := (List.range segs.length).filterMap (fun i => if i == 0 then none else some (joinSegs (segs.take i)))
    if prefixes.any (fun q => files.any (fun f => f.name == q && !f.isDir)) then .osErr else .notExist

def parseFiles : List String → Option (List ProjFile)
  | [] => some []
  | n :: k :: c :: o :: rest =>
    match unhex n, unhex c, parseOracle o, parseFiles rest with
    | some n, some c, some o, some fs => some (⟨n.toList, k == "D", c, o⟩ :: fs)
    | _, _, _, _ => none
  | _ => none

def renderAccesses (acc : List (String × Bytes)) : String :=
  "ACC " ++ ",".intercalate (acc.reverse.map (fun a => a.1 ++ ":" ++ hexN a.2)) ++ " | "

def renderPErr (files : List ProjFile) (e : PErr) : String :=
  if e.panic then "PANIC" else
  let content (f : Bytes) : Bytes := match files.find? (fun x => x.name == cleanName f) with
    | some x => x.content.toList
    | none => []
  match newLocation (content e.file) e.idx.toNat with
  | none => "PANIC"
  | some loc =>
    let tr := e.trace.map (fun t => match newLocation (content t.1) t.2.toNat with
      | some l => some s!"{hexN t.1}:{l.line}"
      | none => none)
    if tr.any (·.isNone) then "PANIC" else
    s!"ERR {hexStr (canonPrefix e.msg)} {hexN e.file} {e.idx} {loc.line} {loc.col} {hexB loc.quote} {",".intercalate (tr.filterMap id)}"

def projFuel (files : List ProjFile) : Nat :=
  16 * (files.foldl (fun n f => n + f.content.size + 4) 0) + 64

def kindOfKeyword (k : String) : Option Kind := Kind.all.find? (fun x => x.keyword == k)

def cmdProj (args : List String) : String :=
  match args with
  | rootHex :: rest0 =>
    let (banned, rest) : List Kind × List String := match rest0 with
      | b :: r => if b.startsWith "B:" then (((b.drop 2).toString.splitOn ",").filterMap kindOfKeyword, r) else ([], rest0)
      | [] => ([], [])
    match unhex rootHex, parseFiles rest with
    | some root, some files =>
      let root := root.toList
      match files.find? (fun f => f.name == cleanName root && !f.isDir) with
      | none => "BAD-INPUT no root"
      | some rf =>
        let core : Core := { current := { name := root, env := mkEnv rf.content rf.oracle.lenAt, sc := Sc.init .stateRoot }, banned := banned }
        match Core.run (mkFileSys files) (projFuel files) core with
        | .ok c => renderAccesses c.accesses ++ "TREE " ++ " ".intercalate ((c.ctx.forest.map (renderTree 0)).flatten)
        | .error (.panic _) => "PANIC"
        | .error .fuel => "FUEL"
        | .error (.err e) =>
          if e.msg.startsWith "M|ORACLE-MISS " then "MISS " ++ hexN e.file ++ " " ++ (e.msg.drop 14).toString
          else
            let r := renderPErr files e
            if r == "PANIC" then r else renderAccesses e.acc ++ r
    | _, _ => "BAD-INPUT"
  | _ => "BAD-INPUT"

/-! ### cat: the whole build up to the catalog skeleton (L2/L3) -/

open JsightVerif.Model.Build in
def renderCat (c : Cat) : List Bytes :=
  let bar : Bytes := [124]
  let comma : Bytes := [44]
  let sb := strBytes
  let od (o : Option Bytes) : Bytes := o.getD []
  let bool (b : Bool) : Bytes := sb (if b then "true" else "false")
  let info := match c.info with
    | some i => [sb "info|" ++ i.title ++ bar ++ i.version ++ bar ++ od i.desc]
    | none => []
  let servers := c.servers.map fun (n, a, b) => sb "server|" ++ n ++ bar ++ a ++ bar ++ b
  let tags := c.tags.map fun t => sb "tag|" ++ t.name ++ bar ++ t.title ++ bar ++ od t.desc ++ bar ++ joinWith comma (t.http ++ t.rpc)
  let types := c.types.map fun (n, a, nota) => sb "type|" ++ n ++ bar ++ a ++ bar ++ sb nota
  let enums := c.enums.map fun (n, a) => sb "enum|" ++ n ++ bar ++ a
  let inters := c.inters.map fun i =>
    match i with
    | .http h =>
      let q := match h.query with
        | some (f, e) => sb "|query=" ++ f ++ comma ++ e
        | none => []
      let rq := match h.request with
        | some (_, body, hdr) =>
          let (f, n) := body.getD ("", "")
          sb "|request=" ++ sb f ++ comma ++ sb n ++ sb ",headers=" ++ bool hdr
        | none => []
      let rs := (h.responses.map fun r =>
        let (f, n) := r.body.getD ("", "")
        bar ++ r.code ++ sb "=" ++ r.ann ++ comma ++ sb f ++ comma ++ sb n ++ sb ",headers=" ++ bool r.headers).flatten
      let pv := joinWith comma (sortBytes ((pathParams h.path).map (·.param)))
      sb "http|" ++ h.id ++ bar ++ h.ann ++ bar ++ od h.desc ++ sb "|tags=" ++ joinWith comma h.tags ++ q ++ rq ++ rs ++ sb "|pathVars=" ++ pv
    | .rpc r =>
      sb "rpc|" ++ r.id ++ bar ++ r.ann ++ bar ++ od r.desc ++ sb "|tags=" ++ joinWith comma r.tags ++ sb "|params=" ++ bool r.params ++ sb "|result=" ++ bool r.result
  info ++ servers ++ tags ++ types ++ enums ++ inters

def cmdCat (args : List String) : String :=
  match args with
  | rootHex :: rest0 =>
    let (banned, rest) : List Kind × List String := match rest0 with
      | b :: r => if b.startsWith "B:" then (((b.drop 2).toString.splitOn ",").filterMap kindOfKeyword, r) else ([], rest0)
      | [] => ([], [])
    match unhex rootHex, parseFiles rest with
    | some root, some files =>
      let root := root.toList
      match files.find? (fun f => f.name == cleanName root && !f.isDir) with
      | none => "BAD-INPUT no root"
      | some rf =>
        let core : Core := { current := { name := root, env := mkEnv rf.content rf.oracle.lenAt, sc := Sc.init .stateRoot }, banned := banned }
        match Core.run (mkFileSys files) (projFuel files) core with
        | .ok c =>
          let content (f : Bytes) : Bytes := match files.find? (fun x => x.name == cleanName f) with
            | some x => x.content.toList
            | none => []
          match Build.build c.ctx.forest root banned content with
          | .ok b => "CAT " ++ " ".intercalate ((renderCat b.cat).map hexB)
          | .error e => renderPErr files e
        | .error (.panic _) => "PANIC"
        | .error .fuel => "FUEL"
        | .error (.err e) =>
          if e.msg.startsWith "M|ORACLE-MISS " then "MISS " ++ hexN e.file ++ " " ++ (e.msg.drop 14).toString
          else renderPErr files e
    | _, _ => "BAD-INPUT"
  | _ => "BAD-INPUT"

def handle (line : String) : String :=
  match (line.trimAscii.toString.splitOn " ").filter (· ≠ "") with
  | "scan" :: args => cmdScan args
  | "proj" :: args => cmdProj args
  | "cat" :: args => cmdCat args
  | _ => "BAD-OP"

partial def loop (h : IO.FS.Stream) (out : IO.FS.Stream) : IO Unit := do
  let line ← h.getLine
  if line.isEmpty then return ()
  out.putStrLn (handle line)
  loop h out

def main (args : List String) : IO UInt32 := do
  if args == ["reach"] then return (← Reach.run)
  let out ← IO.getStdout
  loop (← IO.getStdin) out
  out.flush
  return 0
