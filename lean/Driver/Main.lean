import JsightVerif.Model.ScanGen
/-
  Line-protocol driver (DESIGN Appendix A): one case per line on stdin, one
  canonical result line on stdout. Core-only so it links as a `lean_exe`.
-/
open JsightVerif.Model JsightVerif.Gen

def hexNib (c : Char) : Option Nat :=
  if '0' ≤ c ∧ c ≤ '9' then some (c.toNat - 48)
  else if 'a' ≤ c ∧ c ≤ 'f' then some (c.toNat - 87)
  else none

partial def unhexAux (cs : List Char) (acc : Array UInt8) : Option (Array UInt8) :=
  match cs with
  | [] => some acc
  | a :: b :: rest =>
    match hexNib a, hexNib b with
    | some x, some y => unhexAux rest (acc.push (x * 16 + y).toUInt8)
    | _, _ => none
  | _ => none

def unhex (s : String) : Option (Array UInt8) :=
  if s == "-" then some #[] else unhexAux s.toList #[]

def hexStr (s : String) : String := hexOfBytes (strBytes s)

def LexType.code : LexType → String
  | .Keyword => "K" | .Parameter => "P" | .Annotation => "A" | .Schema => "S" | .Json => "J"
  | .Text => "T" | .ContextExplicitOpening => "O" | .ContextExplicitClosing => "C" | .Enum => "E"

def renderLex (l : Lexeme) : String := s!"{LexType.code l.ty}:{l.b}:{l.e}"

def renderFault : Fault → String
  | .err m i => s!"err:{hexStr m.render}:{i}"
  | .panic _ => "panic"
  | .fuel => "fuel"

def renderEnd : End → String
  | .eof => "eof"
  | .fault f => renderFault f

/-- oracle entries: `j@<pos>=<len>` / `j@<pos>=!<idx>:<hexmsg>` (j = jschema, e = enum), comma separated -/
structure OracleTbl where
  entries : List (BodyKind × Nat × LenAnswer)

def parseOracle (s : String) : Option OracleTbl :=
  if s == "-" then some ⟨[]⟩ else
  let parts := s.splitOn ","
  let rec go (ps : List String) (acc : List (BodyKind × Nat × LenAnswer)) : Option OracleTbl :=
    match ps with
    | [] => some ⟨acc⟩
    | p :: rest =>
      match p.splitOn "=" with
      | [k, v] =>
        match k.splitOn "@" with
        | [kind, pos] =>
          let bk : Option BodyKind := if kind == "j" then some .jschema else if kind == "e" then some .enum else none
          match bk, pos.toNat? with
          | some bk, some pos =>
            if v.startsWith "!" then
              match (v.drop 1).toString.splitOn ":" with
              | [idx, msg] =>
                match idx.toNat?, unhex msg with
                | some idx, some m => go rest ((bk, pos, .err (String.fromUTF8! (ByteArray.mk m)) idx) :: acc)
                | _, _ => none
              | _ => none
            else match v.toNat? with
              | some n => go rest ((bk, pos, .len n) :: acc)
              | none => none
          | _, _ => none
        | _ => none
      | _ => none
  go parts []

def OracleTbl.lenAt (t : OracleTbl) (k : BodyKind) (pos : Nat) : LenAnswer :=
  match t.entries.find? (fun e => e.1 == k && e.2.1 == pos) with
  | some e => e.2.2
  | none => .err s!"ORACLE-MISS {if k == .jschema then "j" else "e"}@{pos}" 0

def cmdScan (args : List String) : String :=
  match args with
  | [hx, orc] =>
    match unhex hx, parseOracle orc with
    | some data, some tbl =>
      let (ls, e) := scanFile data tbl.lenAt
      match e with
      | .fault (.err (.oracle m) _) =>
        if m.startsWith "ORACLE-MISS " then "MISS " ++ (m.drop 12).toString
        else "LEX " ++ " ".intercalate (ls.map renderLex) ++ " | END " ++ renderEnd e
      | _ => "LEX " ++ " ".intercalate (ls.map renderLex) ++ " | END " ++ renderEnd e
    | _, _ => "BAD-INPUT"
  | _ => "BAD-INPUT"

def handle (line : String) : String :=
  match (line.trimAscii.toString.splitOn " ").filter (· ≠ "") with
  | "scan" :: args => cmdScan args
  | _ => "BAD-OP"

partial def loop (h : IO.FS.Stream) (out : IO.FS.Stream) : IO Unit := do
  let line ← h.getLine
  if line.isEmpty then return ()
  out.putStrLn (handle line)
  loop h out

def main : IO Unit := do
  let out ← IO.getStdout
  loop (← IO.getStdin) out
  out.flush
