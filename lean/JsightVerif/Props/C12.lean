import JsightVerif.Proofs.Simple
import JsightVerif.Model.ScanGen
import JsightVerif.Props.Common
import JsightVerif.Props.C12K.K0
import JsightVerif.Props.C12K.K1
import JsightVerif.Props.C12K.K2
import JsightVerif.Props.C12K.K3
import JsightVerif.Props.C12K.K4
import JsightVerif.Props.C12K.K5
import JsightVerif.Props.C12K.K6
import JsightVerif.Props.C12K.K7
/-
  C12 — the scanner reports exactly the lexemes that are in the text.
  Proved here for every file and every answer of the schema oracle: the scanner's two stacks are
  used in a balanced way — it never pops an empty step stack, never ends a lexeme when none is
  open, and never ends a lexeme of another kind than the innermost open one (so begin/end events
  always pair up to well-nested lexemes).  The exactness of positions is decided by the
  correspondence and the monitors of op `scan` (DESIGN S2).
-/
namespace JsightVerif.Props.C12
open JsightVerif.Model JsightVerif.Gen JsightVerif.Props

/-- the event tables of the model are the regenerated ones (lexeme-event.go) -/
theorem events_pinned :
    evOrder = [.KeywordBegin, .KeywordEnd, .ParameterBegin, .ParameterEnd, .AnnotationBegin, .AnnotationEnd,
      .SchemaBegin, .SchemaEnd, .TextBegin, .TextEnd, .ContextOpen, .ContextClose, .EnumBegin, .EnumEnd]
    ∧ (evOrder.all fun e => (evIsBeginning.contains e) == e.isBeginning) = true
    ∧ (evOrder.all fun e => (evIsEnding.contains e) == e.isEnding) = true
    ∧ (evOrder.all fun e => (evIsSingle.contains e) == e.isSingle) = true
    ∧ (evOrder.all fun e => evToLexType.lookup e == some e.toLexType) = true := by
  decide

/-! ### stack discipline of the scanner, for every input -/

/-- every step function is in one of the chunks -/
theorem chunks_cover : (St.all.all fun st => (List.range nChunks).any fun i => (chunk i).contains st) = true := by
  decide +kernel

/-- the reach certificate is closed at every step function -/
theorem table_closed (st : St) : closedAt Gen.prog reachInputs reachAt st = true := by
  have hc := chunks_cover
  simp only [List.all_eq_true, List.any_eq_true, List.contains_iff_mem] at hc
  obtain ⟨i, hi, hmem⟩ := hc st (St.mem_all st)
  have hall : chunkClosed i = true := by
    simp only [List.mem_range, nChunks] at hi
    have : i = 0 ∨ i = 1 ∨ i = 2 ∨ i = 3 ∨ i = 4 ∨ i = 5 ∨ i = 6 ∨ i = 7 := by omega
    rcases this with rfl | rfl | rfl | rfl | rfl | rfl | rfl | rfl
    · exact chunk0_closed
    · exact chunk1_closed
    · exact chunk2_closed
    · exact chunk3_closed
    · exact chunk4_closed
    · exact chunk5_closed
    · exact chunk6_closed
    · exact chunk7_closed
  simp only [chunkClosed, List.all_eq_true] at hall
  exact hall st hmem

/-- the input class of a byte: itself if the table ever tests it, else the representative of its run of
    untested bytes (the last one that is not above it) -/
def repOf (c : UInt8) : UInt8 :=
  if reachMentioned.contains c then c else ((reachGapReps.filter (· ≤ c)).getLast?).getD reachOther

/-- table obligation: in every step function each non-zero byte takes the same branches as its
    representative (256 × 173 program walks, kernel-evaluated) -/
theorem rep_check :
    ((List.range 256).all fun n => n == 0 ||
      (reachInputs.contains (repOf n.toUInt8) &&
        St.all.all fun st => progAgn n.toUInt8 (repOf n.toUInt8) (Gen.prog st))) = true := by
  decide +kernel

/-- the input classes are real bytes -/
theorem inputs_nonzero : (reachInputs.all fun r => r != 0) = true := by decide

theorem table_ok : TableOk Gen.prog reachInputs reachAt where
  closed_ := table_closed
  nz := by
    intro r hr
    have := inputs_nonzero
    simp only [List.all_eq_true] at this
    simpa using this r hr
  rep := by
    intro c hc
    have h := rep_check
    simp only [List.all_eq_true, List.mem_range, Bool.or_eq_true, Bool.and_eq_true, beq_iff_eq,
      List.contains_iff_mem] at h
    have hlt : c.toNat < 256 := c.toNat_lt
    have hcc : c.toNat.toUInt8 = c := by simp
    rcases h c.toNat hlt with h0 | ⟨hin, hall⟩
    · exact absurd (UInt8.toNat_inj.mp (by simpa using h0)) hc
    · rw [hcc] at hin hall
      exact ⟨repOf c, hin, fun st => hall st (St.mem_all st)⟩

theorem root_in_reach : (reachAt .stateRoot).contains ([], [], 0, true, [], 0, false, 1) = true := by decide

/-- **C12 (no crash), every file, every oracle, every fuel**: however a scan of a file from `stateRoot`
    ends, it does not end in a crash of the scanner: no panic site of the model is reached (pop of an
    empty step stack or event stack, empty found-queue shift, `curIndex` underflow, index outside the
    file in a look-behind condition or a parameter value, schema reader started outside the file,
    step functions calling each other more than 16 deep) and no "Ending lexeme event does not match
    beginning event" error is raised. -/
theorem C12_no_crash (env : Env) (fuel n : Nat) (f : Fault)
    (h : (scanFrom env Gen.prog fuel n (Sc.init .stateRoot) []).2.1 = .fault f) : ¬ Crash f :=
  (scanFrom_sound env Gen.prog reachInputs reachAt table_ok fuel n (Sc.init .stateRoot) []
    (good_init env reachAt .stateRoot root_in_reach) (by simp)).1 f h

/-- **C12 (extents), every file, every oracle, every fuel**: every lexeme the scanner reports lies
    inside the file — `0 ≤ begin ≤ end + 1 ≤ |file|`, so `Lexeme.Value()` is a valid (possibly empty)
    slice of the file and never the `slice bounds out of range` crash. -/
theorem C12_lexemes_inside_file (env : Env) (fuel n : Nat) (l : Lexeme)
    (h : l ∈ (scanFrom env Gen.prog fuel n (Sc.init .stateRoot) []).1) :
    0 ≤ l.b ∧ l.b ≤ l.e + 1 ∧ l.e < env.size :=
  (scanFrom_sound env Gen.prog reachInputs reachAt table_ok fuel n (Sc.init .stateRoot) []
    (good_init env reachAt .stateRoot root_in_reach) (by simp)).2 l h

/-- **C12 (order), every file, every oracle**: whenever the scanner reports a parameter, an annotation or
    a body (schema, text, enum) lexeme, it has reported a keyword lexeme before, and no closing
    parenthesis since: the ghost phase `ph` of the scanner model (set by a Keyword lexeme, cleared by a
    closing parenthesis) is set.  Stated for one call of `Next` from any covered state. -/
theorem C12_lexeme_order (env : Env) (fuel : Nat) (s s' : Sc St) (l : Lexeme) (hg : Good env reachAt s)
    (h : next env Gen.prog fuel s = .ok (some l, s')) :
    (phNeeds l.ty = true → s.ph = true) ∧ s'.ph = phAfter s.ph l.ty ∧ Good env reachAt s' := by
  have := next_sound env Gen.prog reachInputs reachAt table_ok fuel s hg
  rw [h] at this
  obtain ⟨hg', hwf, _⟩ := this
  exact ⟨(hwf l rfl).2.1.1, (hwf l rfl).2.1.2, hg'⟩

/-- **C12 (text order, no overlap), every file, every oracle, every fuel**: the lexemes of a scan come in
    the order of the text and do not overlap — every lexeme begins after the end of every lexeme reported
    before it (`OrderedFrom (-1)`: the first begins at a position ≥ 0, and for `i < j`, `end_i < begin_j`);
    in particular lexemes never nest. -/
theorem C12_lexemes_in_text_order (env : Env) (fuel n : Nat) :
    OrderedFrom (-1) (scanFrom env Gen.prog fuel n (Sc.init .stateRoot) []).1 :=
  scanFrom_ordered env Gen.prog reachInputs reachAt table_ok fuel n (-1) (Sc.init .stateRoot) []
    (good_init env reachAt .stateRoot root_in_reach) trivial rfl

theorem C12_scanFile_lexemes_in_text_order (data : Array UInt8) (lenAt : BodyKind → Nat → LenAnswer) :
    OrderedFrom (-1) (scanFile data lenAt).1 :=
  C12_lexemes_in_text_order (mkEnv data lenAt) _ _

/-- what `OrderedFrom` says about any two lexemes of the list -/
theorem orderedFrom_pairwise (le : Int) (ls : List Lexeme) (h : OrderedFrom le ls) :
    ls.Pairwise (fun a b => a.e < b.b) ∧ ∀ l ∈ ls, le < l.b := by
  induction ls generalizing le with
  | nil => exact ⟨List.Pairwise.nil, fun l hl => by cases hl⟩
  | cons x rest ih =>
    obtain ⟨hp, hall⟩ := ih (max le x.e) h.2
    refine ⟨List.Pairwise.cons (fun b hb => ?_) hp, fun l hl => ?_⟩
    · have := hall b hb
      omega
    · rcases List.mem_cons.mp hl with rfl | hl
      · exact h.1
      · have := hall l hl
        omega

/-- **C12 (stack discipline), every file, every oracle, every fuel**: in particular the scanner's two
    stacks are used in a balanced way — begin and end events always pair up to well-nested lexemes. -/
theorem C12_stack_discipline (env : Env) (fuel n : Nat) (f : Fault)
    (h : (scanFrom env Gen.prog fuel n (Sc.init .stateRoot) []).2.1 = .fault f) : ¬ StackFault f :=
  fun hs => C12_no_crash env fuel n f h hs.crash

/-- the same for the function the driver runs (`scanFile`) -/
theorem C12_scanFile_stack_discipline (data : Array UInt8) (lenAt : BodyKind → Nat → LenAnswer) (f : Fault)
    (h : (scanFile data lenAt).2 = .fault f) : ¬ StackFault f :=
  C12_stack_discipline (mkEnv data lenAt) _ _ f h

theorem C12_scanFile_lexemes_inside_file (data : Array UInt8) (lenAt : BodyKind → Nat → LenAnswer) (l : Lexeme)
    (h : l ∈ (scanFile data lenAt).1) : 0 ≤ l.b ∧ l.b ≤ l.e + 1 ∧ l.e < data.size :=
  C12_lexemes_inside_file (mkEnv data lenAt) _ _ l h

/-- **C12 (summary), every file, every oracle**: the lexemes the scanner reports for a file are pairwise
    disjoint slices of that file, in the order of the text: every lexeme satisfies `0 ≤ b ≤ e + 1 ≤ |file|`,
    and for any two of them the earlier one ends before the later one begins. -/
theorem C12_scanFile_lexemes_disjoint_slices (data : Array UInt8) (lenAt : BodyKind → Nat → LenAnswer) :
    (scanFile data lenAt).1.Pairwise (fun a b => a.e < b.b) ∧
    ∀ l ∈ (scanFile data lenAt).1, 0 ≤ l.b ∧ l.b ≤ l.e + 1 ∧ l.e < data.size :=
  ⟨(orderedFrom_pairwise (-1) _ (C12_scanFile_lexemes_in_text_order data lenAt)).1,
   fun l hl => C12_scanFile_lexemes_inside_file data lenAt l hl⟩

/-- non-vacuity: the faults excluded are the ones the model can name, and other faults are not excluded -/
example : StackFault (.panic "stepStack.Pop: Reading from empty stack") := Or.inl rfl
example : StackFault (.err (.basic mismatchMsg) 3) := rfl
example : ¬ StackFault (.err (.unexpectedChar "in x" "") 3) := id
example : Crash (.panic "curIndex underflow") := trivial
example : ¬ Crash (.err (.unexpectedChar "in x" "") 3) := id
example : ¬ Crash .fuel := id

end JsightVerif.Props.C12
