import JsightVerif.Proofs.Simple
import JsightVerif.Model.ScanGen
/-
  C12 — the scanner reports exactly the lexemes that are in the text (placeholder: theorems follow).
-/
namespace JsightVerif.Props.C12
open JsightVerif.Model JsightVerif.Gen

/-- the event tables of the model are the regenerated ones (lexeme-event.go) -/
theorem events_pinned :
    evOrder = [.KeywordBegin, .KeywordEnd, .ParameterBegin, .ParameterEnd, .AnnotationBegin, .AnnotationEnd,
      .SchemaBegin, .SchemaEnd, .TextBegin, .TextEnd, .ContextOpen, .ContextClose, .EnumBegin, .EnumEnd]
    ∧ (evOrder.all fun e => (evIsBeginning.contains e) == e.isBeginning) = true
    ∧ (evOrder.all fun e => (evIsEnding.contains e) == e.isEnding) = true
    ∧ (evOrder.all fun e => (evIsSingle.contains e) == e.isSingle) = true
    ∧ (evOrder.all fun e => evToLexType.lookup e == some e.toLexType) = true := by
  decide

end JsightVerif.Props.C12
