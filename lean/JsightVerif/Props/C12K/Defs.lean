import JsightVerif.Proofs.StackSafe
import JsightVerif.Gen.Reach
/-
  The closure check of the reach certificate (Gen/Reach.lean) is split over eight modules so that
  the kernel evaluations run in parallel; `chunk i` = the step functions whose index is ≡ i mod 8.
-/
namespace JsightVerif.Props.C12
open JsightVerif.Model JsightVerif.Gen

def nChunks : Nat := 8

def chunk (i : Nat) : List St := (St.all.zipIdx.filter (fun p => p.2 % nChunks == i)).map (·.1)

def chunkClosed (i : Nat) : Bool := (chunk i).all (closedAt Gen.prog reachInputs reachAt)

end JsightVerif.Props.C12
