import JsightVerif.Props.C12K.Defs
namespace JsightVerif.Props.C12
set_option maxRecDepth 100000
/-- kernel evaluation: every abstract state of the step functions in chunk 6 is safe on every input
    class and at the end of file, and all its successors are in the certificate -/
theorem chunk6_closed : chunkClosed 6 = true := by decide +kernel
end JsightVerif.Props.C12
