import JsightVerif.Gen.Facts
/-
  C16 — serialising is repeatable.
  Model of the lazily filled cells behind the accessors (catalog/exchange_schema_jsight.go,
  exchange_schema_regex.go after fixes 0d10931 / cbbed19 / the copy follow-up):
  every schema has a `sync.Once` cell for its compiled content (value or error) and one for its
  generated example; the example generator is *stateful* and shared (regex user types), so the
  value a cell receives depends on how many draws happened before.  ToJson and ToJsonIndent
  visit the cells in the same (document) order; Title touches nothing; the OpenAPI export uses
  its own converter and no cell.  Hand-written; tied by the accessor-sequence monitor of the
  `build` and `access` ops (every sequence up to length 4/6 on every accepted document).
-/
namespace JsightVerif.Props.C16

inductive Op where
  | toJson | toJsonIndent | toOpenApi | toOpenApiIndent | title
  deriving DecidableEq, Repr

/-- result of compiling a schema -/
inductive Res where
  | ok (content : Nat) | error (msg : String)
  deriving DecidableEq, Repr

/-- one schema: its cached compile result (error or content) and cached example -/
structure Cell where
  compiled : Option (Res)
  example_ : Option Nat
  deriving DecidableEq, Repr

structure St where
  cells : List Cell
  draws : Nat          -- state of the shared example generator
  deriving DecidableEq, Repr

/-- what compiling schema `i` yields and what the generator yields on its `k`-th draw are functions
    of the immutable catalog -/
structure Catalog where
  n : Nat
  compile : Nat → Res
  draw : Nat → Nat
  titleText : Nat
  openApi : Nat

def fillCell (c : Catalog) (i : Nat) (cell : Cell) (draws : Nat) : Cell × Nat :=
  let compiled := match cell.compiled with
    | some r => some r
    | none => some (c.compile i)
  match cell.example_ with
  | some e => ({ compiled := compiled, example_ := some e }, draws)
  | none => ({ compiled := compiled, example_ := some (c.draw draws) }, draws + 1)

/-- visit the cells in document order, filling the unset ones -/
def fillFrom (c : Catalog) : Nat → List Cell → Nat → List Cell × Nat
  | _, [], d => ([], d)
  | i, cell :: rest, d =>
    let r := fillCell c i cell d
    let rs := fillFrom c (i + 1) rest r.2
    (r.1 :: rs.1, rs.2)

def init (c : Catalog) : St := ⟨List.replicate c.n ⟨none, none⟩, 0⟩

/-- the bytes an accessor returns are a function of the (filled) cells -/
def render (tag : Nat) (cells : List Cell) : List (Nat × Option (Res) × Option Nat) :=
  cells.map fun x => (tag, x.compiled, x.example_)

def step (c : Catalog) (s : St) : Op → (List (Nat × Option (Res) × Option Nat)) × St
  | .toJson => let r := fillFrom c 0 s.cells s.draws; (render 0 r.1, ⟨r.1, r.2⟩)
  | .toJsonIndent => let r := fillFrom c 0 s.cells s.draws; (render 1 r.1, ⟨r.1, r.2⟩)
  | .toOpenApi => ([(c.openApi, none, none)], s)
  | .toOpenApiIndent => ([(c.openApi + 1, none, none)], s)
  | .title => ([(c.titleText, none, none)], s)

def Filled (cells : List Cell) : Prop := ∀ x ∈ cells, x.compiled.isSome ∧ x.example_.isSome

theorem fillFrom_filled (c : Catalog) (i : Nat) (cells : List Cell) (d : Nat) (h : Filled cells) :
    fillFrom c i cells d = (cells, d) := by
  induction cells generalizing i d with
  | nil => rfl
  | cons x rest ih =>
    have hx := h x (by simp)
    have hrest : Filled rest := fun y hy => h y (by simp [hy])
    obtain ⟨r, hr⟩ := Option.isSome_iff_exists.mp hx.1
    obtain ⟨e, he⟩ := Option.isSome_iff_exists.mp hx.2
    simp only [fillFrom, fillCell, hr, he, ih _ _ hrest]
    cases x; simp_all

theorem fillFrom_makes_filled (c : Catalog) (i : Nat) (cells : List Cell) (d : Nat) :
    Filled (fillFrom c i cells d).1 := by
  induction cells generalizing i d with
  | nil => intro x hx; simp [fillFrom] at hx
  | cons x rest ih =>
    intro y hy
    simp only [fillFrom, List.mem_cons] at hy
    rcases hy with rfl | hy
    · simp only [fillCell]; split <;> (cases x.compiled <;> simp)
    · exact ih _ _ y hy

/-- the cells are either untouched or hold the values of the very first fill -/
def Inv (c : Catalog) (s : St) : Prop :=
  s = init c ∨ (s.cells = (fillFrom c 0 (init c).cells 0).1 ∧ s.draws = (fillFrom c 0 (init c).cells 0).2)

theorem step_inv (c : Catalog) (s : St) (op : Op) (h : Inv c s) : Inv c (step c s op).2 := by
  cases op <;> simp only [step] <;> try exact h
  all_goals
    rcases h with rfl | ⟨h1, h2⟩
    · right; exact ⟨rfl, rfl⟩
    · right
      have hf := fillFrom_makes_filled c 0 (init c).cells 0
      rw [← h1] at hf
      rw [fillFrom_filled c 0 s.cells s.draws hf]
      exact ⟨h1, h2⟩

/-- the output of an accessor on any reachable state is a function of the catalog alone -/
def canonical (c : Catalog) : Op → List (Nat × Option (Res) × Option Nat)
  | op => (step c (init c) op).1

theorem step_out (c : Catalog) (s : St) (op : Op) (h : Inv c s) : (step c s op).1 = canonical c op := by
  rcases h with rfl | ⟨h1, h2⟩
  · rfl
  · have hf := fillFrom_makes_filled c 0 (init c).cells 0
    cases op <;> simp only [step, canonical, init] <;> try rfl
    all_goals
      rw [← h1] at hf
      rw [fillFrom_filled c 0 s.cells s.draws hf, h1]
      rfl

def run (c : Catalog) : St → List Op → List (List (Nat × Option (Res) × Option Nat))
  | _, [] => []
  | s, op :: ops => (step c s op).1 :: run c (step c s op).2 ops

theorem run_canonical (c : Catalog) (s : St) (h : Inv c s) (ops : List Op) :
    run c s ops = ops.map (canonical c) := by
  induction ops generalizing s with
  | nil => rfl
  | cons op ops ih => simp [run, step_out c s op h, ih _ (step_inv c s op h)]

/-- **C16**: for every history of accessor calls, of any length, two calls of the same accessor
    return the same bytes, whatever was called in between. -/
theorem C16 (c : Catalog) (h : List Op) (i j : Nat) (hi : i < h.length) (hj : j < h.length) (heq : h[i] = h[j]) :
    (run c (init c) h)[i]? = (run c (init c) h)[j]? := by
  rw [run_canonical c (init c) (Or.inl rfl) h]
  simp [List.getElem?_map, List.getElem?_eq_getElem hi, List.getElem?_eq_getElem hj, heq]

/-- non-vacuity: a catalog with two schemas, the second of which fails to compile; the failure is
    reported by *every* ToJson (before fix cbbed19 only by the first) -/
def demo : Catalog := ⟨2, fun i => if i = 0 then .ok 7 else .error "type not found", fun k => 100 + k, 1, 2⟩
example : run demo (init demo) [.toJson, .title, .toJson] =
    [[(0, some (.ok 7), some 100), (0, some (.error "type not found"), some 101)], [(1, none, none)],
     [(0, some (.ok 7), some 100), (0, some (.error "type not found"), some 101)]] := by decide

/-! ### tie of the cell model to the code: where fields of catalog types are written (regenerated facts) -/

section Tie
open JsightVerif.Gen JsightVerif.Model

/-- functions of package `catalog` that assign to fields of catalog types and are called only while
    the catalog is *built* (constructors, the setters of catalog/setters.go, the ordered maps and sets
    the builder fills, the tag back-references): after `NewJapi` has returned none of them runs -/
def buildTimeWriters : List String := [
    "NewExchangeJSightSchema", "HTTPInteraction.SetPathVariables", "HTTPInteraction.appendTagName",
    "newHTTPInteraction", "newHTTPInteractionID", "NewHTTPResponseBody", "Interactions.Map",
    "Interactions.Set", "Interactions.SetToTop", "Interactions.Update",
    "JsonRpcInteraction.appendTagName", "newJsonRpcInteraction", "newJsonRpcInteractionId",
    "PathVariablesBuilder.Build", "NewRules", "RulesBuilder.Append", "RulesBuilder.Set",
    "Servers.Map", "Servers.Set", "Servers.SetToTop", "Servers.Update", "Catalog.AddBaseURL",
    "Catalog.AddDescriptionToHTTPMethod", "Catalog.AddDescriptionToInfo",
    "Catalog.AddDescriptionToJsonRpcMethod", "Catalog.AddDescriptionToTag", "Catalog.AddInfo",
    "Catalog.AddJSight", "Catalog.AddJsonRpcParams", "Catalog.AddJsonRpcResult",
    "Catalog.AddOperationID", "Catalog.AddQueryToCurrentMethod", "Catalog.AddRequest",
    "Catalog.AddRequestBody", "Catalog.AddRequestHeaders", "Catalog.AddResponse",
    "Catalog.AddResponseBody", "Catalog.AddResponseHeaders", "Catalog.AddServer", "Catalog.AddTitle",
    "Catalog.AddType", "Catalog.AddVersion", "Catalog.enumDirectiveToUserRule", "StringSet.Add",
    "Tag.appendInteractionID", "TagHTTPInteractionGroup.append", "TagJsonRpcInteractionGroup.append",
    "Tags.Map", "Tags.Set", "Tags.SetToTop", "Tags.Update", "UserRules.Map", "UserRules.Set",
    "UserRules.SetToTop", "UserRules.Update", "UserSchemas.Map", "UserSchemas.Set",
    "UserSchemas.Update", "UserTypes.Map", "UserTypes.Set", "UserTypes.SetToTop", "UserTypes.Update"]

/-- functions that fill the lazily compiled exchange content of a schema — the cells of the model above;
    they run inside `ExchangeJSightSchema.Compile`'s `sync.Once` (reached from MarshalJSON) -/
def lazyCellWriters : List String := [
    "ExchangeContent.Unshift", "ExchangeContent.collectJSightContentArrayItems",
    "ExchangeContent.collectJSightContentObjectProperties",
    "ExchangeContent.inheritPropertiesFromUserType", "ExchangeJSightSchema.buildContent"]

/-- **C16 (write sites pinned)**: outside `sync.Once` bodies, the functions that assign to a field of a
    catalog type are exactly the build-time writers and the cell fillers listed here.  A new write site —
    an accessor that stores a default into the catalog, an export that normalises the catalog in place —
    breaks this obligation on the regenerated facts. -/
theorem C16_writers_pinned :
    (catalogFieldWrites.all fun s => (buildTimeWriters ++ lazyCellWriters).contains s.fn) = true ∧
    ((buildTimeWriters ++ lazyCellWriters).all fun f => catalogFieldWrites.any fun s => s.fn == f) = true := by
  decide +kernel

/-- **C16 (exporters write nothing)**: `kit` (the accessors ToJson / ToJsonIndent / ToOpenAPIJson / Title)
    and `catalog/ser/openapi` (the OpenAPI converter) contain no assignment to a field of a catalog type -/
theorem C16_exporters_write_nothing : (catalogFieldWrites.all fun s => s.pkg == "catalog") = true := by
  decide +kernel

/-- **C16 (no in-place reordering)**: no call of `sort.*` / `slices.*` in catalog, kit or the OpenAPI
    converter (sorting a slice of the catalog in place would change what later calls return) -/
theorem C16_no_inplace_sort : sortCalls = [] := by decide

end Tie

end JsightVerif.Props.C16
