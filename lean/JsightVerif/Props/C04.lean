import JsightVerif.Model.Catalog
/-
  C04 — an accepted catalog serialises to well-formed JDoc Exchange JSON (skeleton level).
  Model of the hand-written MarshalJSON of catalog/catalog.go, tag.go and the interaction structs,
  as a JSON *tree* (byte-level escaping and UTF-8 are encoding/json's): whatever the catalog, the
  emitted document has the fixed top-level keys, the version constants, and every interaction and
  tag carries its required fields.  That ToJson/ToJsonIndent succeed on every accepted build,
  agree up to whitespace and give schema nodes typed consistently is evaluated on the real
  serialiser by the `build` op (the once-only compilation keeping its error: fix cbbed19; Path
  schemas compiled at build time: fix 022c194).
-/
namespace JsightVerif.Props.C04
open JsightVerif.Model.Cat

inductive Json where
  | str (s : String)
  | arr (xs : List Json)
  | obj (fields : List (String × Json))
  deriving Repr

def Json.keys : Json → List String
  | .obj fs => fs.map (·.1)
  | _ => []

def Json.get? : Json → String → Option Json
  | .obj fs, k => (fs.find? (·.1 == k)).map (·.2)
  | _, _ => none

def emitInteraction (id : String) (i : Interaction) : Json :=
  .obj [("id", .str id), ("protocol", .str "http"), ("httpMethod", .str i.method), ("path", .str i.path),
        ("tags", .arr (i.tags.map .str))]

def emitTag (name : String) (t : Tag) : Json :=
  .obj [("name", .str name), ("title", .str t.title),
        ("interactionGroups", .arr [.obj [("protocol", .str "http"), ("interactions", .arr (t.members.map .str))]])]

/-- Catalog.MarshalJSON: `tags`, `interactions`, `jsight`, `jdocExchangeVersion` are always present -/
def emit (c : Catalog) (jsight : String) : Json :=
  .obj [("tags", .obj (c.tags.entries.map fun e => (e.1, emitTag e.1 e.2))),
        ("interactions", .obj (c.interactions.entries.map fun e => (e.1, emitInteraction e.1 e.2))),
        ("jsight", .str jsight), ("jdocExchangeVersion", .str "2.0.0")]

theorem top_level_keys (c : Catalog) (v : String) :
    (emit c v).keys = ["tags", "interactions", "jsight", "jdocExchangeVersion"] := rfl

/-- every interaction of every catalog carries id, protocol, method, path and tags; its key is its id -/
theorem interactions_shaped (c : Catalog) (v : String) :
    ∃ fs, (emit c v).get? "interactions" = some (.obj fs) ∧
      ∀ kv ∈ fs, kv.2.keys = ["id", "protocol", "httpMethod", "path", "tags"] ∧ kv.2.get? "id" = some (.str kv.1) := by
  refine ⟨_, rfl, ?_⟩
  intro kv hkv
  simp only [List.mem_map] at hkv
  obtain ⟨e, _, rfl⟩ := hkv
  exact ⟨rfl, rfl⟩

theorem tags_shaped (c : Catalog) (v : String) :
    ∃ fs, (emit c v).get? "tags" = some (.obj fs) ∧ ∀ kv ∈ fs, kv.2.keys = ["name", "title", "interactionGroups"] := by
  refine ⟨_, rfl, ?_⟩
  intro kv hkv
  simp only [List.mem_map] at hkv
  obtain ⟨e, _, rfl⟩ := hkv
  rfl

example : ((emit {} "0.3").get? "jdocExchangeVersion").isSome = true := by decide

end JsightVerif.Props.C04
