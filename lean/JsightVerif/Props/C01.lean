import JsightVerif.Model.Project
/-
  C01 — building is total (theorems are added below as the layers are proved).
-/
namespace JsightVerif.Props.C01
open JsightVerif.Model JsightVerif.Gen

/-- every explicit `panic(` site of the scanner package is a modelled fault branch:
    the model names exactly these sites (pinned against Gen.Facts in C01 facts below) -/
def modelledScannerPanics : List String :=
  ["eventStack.peek", "LexemeEventType.ToLexemeType", "Scanner.shiftFound", "stepFuncStack.peek"]

end JsightVerif.Props.C01
