import JsightVerif.Model.Project
import JsightVerif.Gen.Facts
import JsightVerif.Props.C12
import JsightVerif.Proofs.ScanNest
import JsightVerif.Proofs.Progress
import JsightVerif.Proofs.ScanSafe
/-
  C01 — building is total.  What is *proved* here is the scanner layer: for every file and every
  answer of the schema oracle the scanner never reaches one of its own crash sites that concern
  its two stacks (the `panic(...)` calls of scanner/step-stack.go, lexeme-event-stack.go,
  scanner.go shiftFound), and the chains of step functions calling each other for one byte have
  bounded depth (in Go these are real calls: an unbounded chain is a stack overflow).
  The remaining crash sites (cursor underflow, slice bounds, everything in core/ and catalog/) and
  the absence of hangs are decided by the correspondence of ops `scan`, `proj`, `build` with
  crash-isolated workers; see DESIGN S2.
-/
namespace JsightVerif.Props.C01
open JsightVerif.Model JsightVerif.Gen

/-- every explicit `panic(` site of the scanner package is a modelled fault branch:
    the model names exactly these sites (pinned against the regenerated facts) -/
def modelledScannerPanics : List String :=
  ["eventStack.peek", "LexemeEventType.ToLexemeType", "Scanner.shiftFound", "stepFuncStack.peek"]

theorem scanner_panic_sites_pinned :
    (panicSites.filter (·.pkg == "scanner")).map (·.fn) = modelledScannerPanics := by decide

/-- **C01 (scanner stacks), every file, every oracle**: a scan never crashes on an empty step
    stack, an empty event stack or an empty found queue, and never recurses through step functions
    more than `chainFuel` deep for one byte. -/
theorem C01_scanner_no_stack_crash (data : Array UInt8) (lenAt : BodyKind → Nat → LenAnswer) (site : String)
    (h : (scanFile data lenAt).2 = .fault (.panic site)) :
    site ≠ "stepStack.Pop: Reading from empty stack" ∧ site ≠ "eventStack.Pop: Reading from empty stack"
      ∧ site ≠ "shiftFound: Empty set of found lexemes" ∧ site ≠ "step function recursion deeper than chainFuel" := by
  have := C12.C12_scanFile_stack_discipline data lenAt _ h
  simp only [StackFault, not_or] at this
  exact this

/-- the same at every intermediate call of `Next`: whatever prefix of the scan has been done -/
theorem C01_scanner_no_stack_crash_any_fuel (env : Env) (fuel n : Nat) (site : String)
    (h : (scanFrom env Gen.prog fuel n (Sc.init .stateRoot) []).2.1 = .fault (.panic site)) :
    site ≠ "stepStack.Pop: Reading from empty stack" ∧ site ≠ "eventStack.Pop: Reading from empty stack"
      ∧ site ≠ "shiftFound: Empty set of found lexemes" ∧ site ≠ "step function recursion deeper than chainFuel" := by
  have := C12.C12_stack_discipline env fuel n _ h
  simp only [StackFault, not_or] at this
  exact this

/-! ### the scanner never hangs (Proofs/Progress.lean) -/

/-- **C01 (scanner termination), every file, every oracle**: scanning a file never runs out of fuel.
    The byte loop of `Scanner.Next` gets `4·|file| + 16` iterations per call in the model and a scan
    gets `5·(4·|file| + 16)` calls; the Go code has no such bound, so running out of either in the
    model is a hang of the real scanner.  The two places where the scanner moves its cursor backwards
    (`curIndex -= 2` in stateAnnotationSign2, `curIndex--` in stateDescriptionTextNewline) are
    accepted by the abstract interpreter only at the furthest position reached so far and only after
    that position has advanced since the last rewind; the regenerated table passes this check in
    every reachable abstract state (the reach certificate, re-checked by the kernel). -/
theorem C01_scanner_terminates (data : Array UInt8) (lenAt : BodyKind → Nat → LenAnswer) :
    (scanFile data lenAt).2 ≠ .fault .fuel := by
  have hinit := goodP_init (mkEnv data lenAt) reachAt .stateRoot C12.root_in_reach
  have := scanFrom_prog (mkEnv data lenAt) Gen.prog reachInputs reachAt C12.table_ok (scanFuel (mkEnv data lenAt))
    (4 * (mkEnv data lenAt).size + 11) (by simp only [scanFuel]; omega) (scanCalls (mkEnv data lenAt))
    _ (Sc.init .stateRoot) [] hinit (by simp only [scanCalls, scanFuel, findCap]; omega)
  exact this

/-- **C01 (scanner totality), every file, every oracle**: scanning a file ends at the end of the file
    or with a located error value — the model of the scanner never reaches a panic site and never
    runs out of fuel.  (Assumption A_len, built into the model: `Len()` of jsight-schema-core measures
    a prefix of the rest of the file.) -/
theorem C01_scanner_total (data : Array UInt8) (lenAt : BodyKind → Nat → LenAnswer) :
    (scanFile data lenAt).2 = .eof ∨ ∃ m i, (scanFile data lenAt).2 = .fault (.err m i) ∧ m ≠ .basic mismatchMsg := by
  have key : ∀ e : End, e ≠ .fault .fuel → (∀ f, e = .fault f → ¬ Crash f) →
      e = .eof ∨ ∃ m i, e = .fault (.err m i) ∧ m ≠ .basic mismatchMsg := by
    intro e hterm hcrash
    cases e with
    | eof => exact Or.inl rfl
    | fault f =>
      cases f with
      | fuel => exact absurd rfl hterm
      | panic site => exact absurd trivial (hcrash _ rfl)
      | err m i =>
        refine Or.inr ⟨m, i, rfl, ?_⟩
        intro hm
        subst hm
        exact hcrash _ rfl rfl
  exact key _ (C01_scanner_terminates data lenAt)
    (fun f h => C12.C12_no_crash (mkEnv data lenAt) (scanFuel (mkEnv data lenAt)) (scanCalls (mkEnv data lenAt)) f h)

/-- the same call by call, as the core uses the scanner: from every scanner state that a scan of the
    file can be in (covered by the certificate with byte-loop potential `≤ 4·|file| + 11`), one call
    of `Next` with the model's fuel does not run out of it, and leaves such a state behind -/
theorem C01_next_never_hangs (env : Env) (B : Nat) (s : Sc St)
    (hg : GoodP env reachAt (4 * env.size + 11) B s) :
    ProgOk env reachAt (4 * env.size + 11) B (next env Gen.prog (scanFuel env) s) :=
  next_prog env Gen.prog reachInputs reachAt C12.table_ok (scanFuel env) _ B s hg (by simp only [scanFuel]; omega)

/-- non-vacuity: the initial scanner state of every file is such a state -/
example (env : Env) : GoodP env reachAt (4 * env.size + 11) (5 * (4 * env.size + 11)) (Sc.init .stateRoot) :=
  goodP_init env reachAt .stateRoot C12.root_in_reach

/-! ### the scanning stage of a whole project (Proofs/ScanSafe.lean) -/

/-- **C01 (scanning stage), every project**: whatever the root file, the files reachable through
    INCLUDE, the include graph (cyclic, missing and directory targets included), the ban set and the
    fuel, the core's scanning loop never reaches a crash site of the scanner, never hangs inside a call of
    `Scanner.Next` (the model turns an exhausted byte-loop fuel into a crash site), never takes the value of
    a lexeme that is not a slice of its file, and never dereferences a nil `currentDirective` in
    processParameter or processAnnotation: the scanner of the file being read and of every suspended
    file stays in a state covered by the reach certificate, and whenever it may report a parameter or an
    annotation the core has a current directive or has just resumed the scanner after an INCLUDE (then
    the lexeme is refused with an error).  The one crash site of the scanning-stage model left is the
    dereference in processBody (a body lexeme as the first lexeme after an INCLUDE line cannot be
    excluded by the abstract domain, which does not know that a keyword is INCLUDE; correspondence-level). -/
theorem C01_scanning_stage_crash_sites (fsys : FileSys) (n : Nat) (rootName : Bytes) (content : Array UInt8)
    (lenAt : BodyKind → Nat → LenAnswer) (banned : List Kind) (site : String)
    (h : Core.run fsys n { current := { name := rootName, env := mkEnv content lenAt, sc := Sc.init .stateRoot }, banned := banned }
          = .error (.panic site)) :
    site = "processBody: currentDirective is nil" := by
  have := run_safe reachInputs reachAt C12.table_ok C12.root_in_reach fsys n _
    ⟨⟨_, goodP_init (mkEnv content lenAt) reachAt .stateRoot C12.root_in_reach⟩, fun p hp => by cases hp⟩
    (fun hp => by simp [Sc.init] at hp) site h
  simpa [ScanStagePanic] using this

/-- **C01 (single-file projects): the scanning stage is total.**  For a project in which no INCLUDE can
    succeed (no regular file at any path the INCLUDE parameters resolve to — in particular a document
    without INCLUDE), whatever the root file's bytes and the oracle's answers: with fuel above
    `5·(4·|file| + 11)` the core's scanning loop ends with the directive forest or with a located error
    value — it reaches no crash site at all (the residual processBody site needs a resume after an
    INCLUDE) and does not run out of fuel: no crash and no hang of the whole scanning stage. -/
theorem C01_single_file_scanning_total (fsys : FileSys) (hfs : NoFiles fsys) (rootName : Bytes) (content : Array UInt8)
    (lenAt : BodyKind → Nat → LenAnswer) (banned : List Kind) (n : Nat) (hn : 5 * (4 * content.size + 11) < n) :
    Total (Core.run fsys n { current := { name := rootName, env := mkEnv content lenAt, sc := Sc.init .stateRoot }, banned := banned }) := by
  have hinit := goodP_init (mkEnv content lenAt) reachAt .stateRoot C12.root_in_reach
  refine run_total_single reachInputs reachAt C12.table_ok C12.root_in_reach fsys hfs n _ _ hinit rfl rfl
    (fun hp => by simp [Sc.init] at hp) ?_
  simp only [findCap]
  show (4 + 1) * (4 * content.size + 11) < n
  omega

/-- non-vacuity: the file system without any file -/
example : NoFiles (fun _ => .notExist) := fun _ _ _ h => by cases h

/-! ### the build stage never dereferences nil (Model/Build.lean, tied by op `cat`) -/

section Build
open JsightVerif.Model.Build

/-- **C01 (build stage), every project**: if the scanning stage accepts a project, then whatever the
    macros, ban set and file contents, a failure of the build stage is an *error value*: the model
    never takes one of the branches where the Go code would dereference a nil pointer
    (`c.Info.Title` without an INFO, `d.Parent.Type()` at root level).  The reason is the regenerated
    context table: every directive entered the tree through `attach`, so Title/Version sit under INFO
    (which has been added before them), Headers/Body/Description are never at root level, and MACRO
    occurs at root level only (`title_version_only_in_info`, `not_at_root`, `macro_only_at_root`:
    re-checked by the kernel whenever directive/enumeration.go changes). -/
theorem C01_build_no_nil_deref (fsys : FileSys) (n : Nat) (c c' : Core) (hc : c.ctx = Ctx.empty)
    (hrun : Core.run fsys n c = .ok c') (rootFile : Bytes) (banned : List Kind) (content : Bytes → Bytes) (e : PErr)
    (h : build c'.ctx.forest rootFile banned content = .error e) : e.panic = false :=
  build_noPanic _ _ _ _ _ (wn_macrosAtRoot _ (scan_forest_wn fsys n c c' hc hrun)) h

/-- non-vacuity: the nil-dereference branches exist in the model and are what the theorem excludes -/
example : (nilDeref default "Info is nil").panic = true := rfl
example : (kwErr default "x").panic = false := rfl

end Build

end JsightVerif.Props.C01
