import JsightVerif.Model.Project
import JsightVerif.Gen.Facts
import JsightVerif.Props.C12
import JsightVerif.Proofs.ScanNest
/-
  C01 — building is total.  What is *proved* here is the scanner layer: for every file and every
  answer of the schema oracle the scanner never reaches one of its own crash sites that concern
  its two stacks (the `panic(...)` calls of scanner/step-stack.go, lexeme-event-stack.go,
  scanner.go shiftFound), and the chains of step functions calling each other for one byte have
  bounded depth (in Go these are real calls: an unbounded chain is a stack overflow).
  The remaining crash sites (cursor underflow, slice bounds, everything in core/ and catalog/) and
  the absence of hangs are decided by the correspondence of ops `scan`, `proj`, `build` with
  crash-isolated workers; see DESIGN S2.
-/
namespace JsightVerif.Props.C01
open JsightVerif.Model JsightVerif.Gen

/-- every explicit `panic(` site of the scanner package is a modelled fault branch:
    the model names exactly these sites (pinned against the regenerated facts) -/
def modelledScannerPanics : List String :=
  ["eventStack.peek", "LexemeEventType.ToLexemeType", "Scanner.shiftFound", "stepFuncStack.peek"]

theorem scanner_panic_sites_pinned :
    (panicSites.filter (·.pkg == "scanner")).map (·.fn) = modelledScannerPanics := by decide

/-- **C01 (scanner stacks), every file, every oracle**: a scan never crashes on an empty step
    stack, an empty event stack or an empty found queue, and never recurses through step functions
    more than `chainFuel` deep for one byte. -/
theorem C01_scanner_no_stack_crash (data : Array UInt8) (lenAt : BodyKind → Nat → LenAnswer) (site : String)
    (h : (scanFile data lenAt).2 = .fault (.panic site)) :
    site ≠ "stepStack.Pop: Reading from empty stack" ∧ site ≠ "eventStack.Pop: Reading from empty stack"
      ∧ site ≠ "shiftFound: Empty set of found lexemes" ∧ site ≠ "step function recursion deeper than chainFuel" := by
  have := C12.C12_scanFile_stack_discipline data lenAt _ h
  simp only [StackFault, not_or] at this
  exact this

/-- the same at every intermediate call of `Next`: whatever prefix of the scan has been done -/
theorem C01_scanner_no_stack_crash_any_fuel (env : Env) (fuel n : Nat) (site : String)
    (h : (scanFrom env Gen.prog fuel n (Sc.init .stateRoot) []).2.1 = .fault (.panic site)) :
    site ≠ "stepStack.Pop: Reading from empty stack" ∧ site ≠ "eventStack.Pop: Reading from empty stack"
      ∧ site ≠ "shiftFound: Empty set of found lexemes" ∧ site ≠ "step function recursion deeper than chainFuel" := by
  have := C12.C12_stack_discipline env fuel n _ h
  simp only [StackFault, not_or] at this
  exact this

/-! ### the build stage never dereferences nil (Model/Build.lean, tied by op `cat`) -/

section Build
open JsightVerif.Model.Build

/-- **C01 (build stage), every project**: if the scanning stage accepts a project, then whatever the
    macros, ban set and file contents, a failure of the build stage is an *error value*: the model
    never takes one of the branches where the Go code would dereference a nil pointer
    (`c.Info.Title` without an INFO, `d.Parent.Type()` at root level).  The reason is the regenerated
    context table: every directive entered the tree through `attach`, so Title/Version sit under INFO
    (which has been added before them), Headers/Body/Description are never at root level, and MACRO
    occurs at root level only (`title_version_only_in_info`, `not_at_root`, `macro_only_at_root`:
    re-checked by the kernel whenever directive/enumeration.go changes). -/
theorem C01_build_no_nil_deref (fsys : FileSys) (n : Nat) (c c' : Core) (hc : c.ctx = Ctx.empty)
    (hrun : Core.run fsys n c = .ok c') (rootFile : Bytes) (banned : List Kind) (content : Bytes → Bytes) (e : PErr)
    (h : build c'.ctx.forest rootFile banned content = .error e) : e.panic = false :=
  build_noPanic _ _ _ _ _ (wn_macrosAtRoot _ (scan_forest_wn fsys n c c' hc hrun)) h

/-- non-vacuity: the nil-dereference branches exist in the model and are what the theorem excludes -/
example : (nilDeref default "Info is nil").panic = true := rfl
example : (kwErr default "x").panic = false := rfl

end Build

end JsightVerif.Props.C01
