import JsightVerif.Model.Catalog
import JsightVerif.Proofs.BuildClosure
/-
  C05 — names are unique, cross references are closed (registry level).
  Theorems about the insertion-ordered registries of the catalog and the tag bookkeeping
  (`Model/Catalog.lean`, a hand model of catalog/*_gen.go + setters.go).  The closure of the real
  catalog JSON (ids, tag <-> interaction, usedUserTypes, pathVariables, response codes, version)
  is evaluated on every accepted build by the monitor of the `build`/`model` ops.
-/
namespace JsightVerif.Props.C05
open JsightVerif.Model.Cat

theorem has_iff_mem_keys {α} (m : OMap α) (k : Name) : m.has k = true ↔ k ∈ m.keys := by
  simp only [OMap.has, OMap.keys, List.any_eq_true, List.mem_map, beq_iff_eq]

/-- **uniqueness**: `Add*` keeps the keys of a section pairwise distinct, for every sequence of adds -/
theorem add_keys {α} (m m' : OMap α) (k : Name) (v : α) (h : m.add k v = .ok m') :
    m'.keys = m.keys ++ [k] ∧ k ∉ m.keys := by
  unfold OMap.add at h
  by_cases hk : m.has k = true
  · simp [hk] at h
  · simp only [hk, Bool.false_eq_true, if_false, Except.ok.injEq] at h
    subst h
    refine ⟨by simp [OMap.keys], ?_⟩
    intro hm; exact hk ((has_iff_mem_keys m k).mpr hm)

theorem add_nodup {α} (m m' : OMap α) (k : Name) (v : α) (hn : m.keys.Nodup) (h : m.add k v = .ok m') :
    m'.keys.Nodup := by
  obtain ⟨hk, hnot⟩ := add_keys m m' k v h
  rw [hk]
  exact List.nodup_append.mpr ⟨hn, by simp, by intro a ha b hb; simp at hb; subst hb; intro e; subst e; exact hnot ha⟩

/-- adds only: the section keeps every earlier entry, in order (nothing is lost or reordered) -/
theorem add_prefix {α} (m m' : OMap α) (k : Name) (v : α) (h : m.add k v = .ok m') :
    m'.entries = m.entries ++ [(k, v)] := by
  unfold OMap.add at h
  by_cases hk : m.has k = true
  · simp [hk] at h
  · simp only [hk, Bool.false_eq_true, if_false, Except.ok.injEq] at h
    subst h; rfl

/-- a whole fold of adds: on success the keys are exactly the given names, in the given order -/
def addAll {α} (m : OMap α) : List (Name × α) → Except Err (OMap α)
  | [] => .ok m
  | (k, v) :: rest =>
    match m.add k v with
    | .ok m' => addAll m' rest
    | .error e => .error e

theorem addAll_entries {α} (m m' : OMap α) (l : List (Name × α)) (h : addAll m l = .ok m') :
    m'.entries = m.entries ++ l := by
  induction l generalizing m with
  | nil => simp only [addAll, Except.ok.injEq] at h; subst h; simp
  | cons kv rest ih =>
    obtain ⟨k, v⟩ := kv
    simp only [addAll] at h
    cases ha : m.add k v with
    | error e => simp [ha] at h
    | ok m1 =>
      simp only [ha] at h
      rw [ih m1 h, add_prefix m m1 k v ha]
      simp

theorem addAll_nodup {α} (m m' : OMap α) (l : List (Name × α)) (hn : m.keys.Nodup) (h : addAll m l = .ok m') :
    m'.keys.Nodup := by
  induction l generalizing m with
  | nil => simp only [addAll, Except.ok.injEq] at h; subst h; exact hn
  | cons kv rest ih =>
    obtain ⟨k, v⟩ := kv
    simp only [addAll] at h
    cases ha : m.add k v with
    | error e => simp [ha] at h
    | ok m1 => simp only [ha] at h; exact ih m1 (add_nodup m m1 k v hn ha) h

theorem addAll_entries_exists {α} (l : List (Name × α)) (hd : (l.map (·.1)).Nodup) :
    ∃ m, addAll (OMap.empty : OMap α) l = .ok m ∧ m.entries = l := by
  have gen : ∀ (m : OMap α) (l : List (Name × α)), (m.keys ++ l.map (·.1)).Nodup → ∃ m', addAll m l = .ok m' := by
    intro m l
    induction l generalizing m with
    | nil => intro _; exact ⟨m, rfl⟩
    | cons kv rest ih =>
      intro hd
      obtain ⟨k, v⟩ := kv
      have hk : m.has k = false := by
        cases hh : m.has k with
        | false => rfl
        | true =>
          exfalso
          have hm := (has_iff_mem_keys m k).mp hh
          exact (List.nodup_append.mp hd).2.2 k hm k (by simp) rfl
      simp only [addAll, OMap.add, hk, Bool.false_eq_true, if_false]
      apply ih
      simpa [OMap.keys] using hd
  obtain ⟨m, hm⟩ := gen OMap.empty l (by simpa [OMap.keys, OMap.empty] using hd)
  exact ⟨m, hm, by simpa [OMap.empty] using addAll_entries _ _ _ hm⟩

/-- **closure (tags)**: the tags an interaction names all exist, each named once -/
theorem checkTags_ok (tags : OMap Tag) (used ts : List Name) (h : checkTags tags used ts = .ok ()) :
    (∀ t ∈ ts, tags.has t = true ∧ t ∉ used) ∧ ts.Nodup := by
  induction ts generalizing used with
  | nil => simp
  | cons t rest ih =>
    simp only [checkTags] at h
    by_cases h1 : tags.has t = true
    · simp only [h1, Bool.not_true, Bool.false_eq_true, if_false] at h
      by_cases h2 : used.contains t = true
      · have : t ∈ used := by simpa using h2
        simp [this] at h
      · simp only [h2, Bool.false_eq_true, if_false] at h
        obtain ⟨ih1, ih2⟩ := ih (t :: used) h
        refine ⟨?_, ?_⟩
        · intro x hx
          rcases List.mem_cons.mp hx with rfl | hx
          · exact ⟨h1, by simpa using h2⟩
          · have := ih1 x hx
            exact ⟨this.1, fun hu => this.2 (List.mem_cons_of_mem _ hu)⟩
        · refine List.nodup_cons.mpr ⟨?_, ih2⟩
          intro hm; exact (ih1 t hm).2 (by simp)
    · simp [h1] at h

theorem appendMember_keys (tags : OMap Tag) (t id : Name) : (appendMember tags t id).keys = tags.keys := by
  simp only [appendMember, OMap.keys, List.map_map]
  apply List.map_congr_left
  intro e _; simp only [Function.comp]; split <;> rfl

/-- using tags never creates or removes a tag -/
theorem useTags_keys (tags tags' : OMap Tag) (id : Name) (ts : List Name) (h : useTags tags id ts = .ok tags') :
    tags'.keys = tags.keys := by
  unfold useTags at h
  cases hc : checkTags tags [] ts with
  | error e => simp [hc] at h
  | ok u =>
    simp only [hc, Except.ok.injEq] at h
    subst h
    clear hc
    induction ts generalizing tags with
    | nil => rfl
    | cons t rest ih => simp only [List.foldl_cons]; rw [ih, appendMember_keys]

/-- non-vacuity -/
example : (do let c ← addTag {} "@a" "A"; addInteraction c "http GET /x" "/x" "GET" ["@a"] ("@x", "/x")).toOption.isSome = true := by decide
example : (do let c ← addTag {} "@a" "A"; addInteraction c "http GET /x" "/x" "GET" ["@a", "@a"] ("@x", "/x")).toOption.isSome = false := by decide
example : (do let c ← addTag {} "@a" "A"; addTag c "@a" "again").toOption.isSome = false := by decide

/-! ### the model that is compared with the real builder (Model/Build.lean, op `cat`) -/

section Tied
open JsightVerif.Model JsightVerif.Model.Build JsightVerif.Gen

/-- **C05 (unique interaction ids, tied model)**: in every accepted project no two interactions of
    the catalog have the same id (a method declared twice for one path is refused instead). -/
theorem C05_interaction_ids_unique (roots : List DT) (rootFile : Bytes) (banned : List Kind)
    (content : Bytes → Bytes) (b : Built) (h : build roots rootFile banned content = .ok b) :
    (ids b.cat).Nodup := by
  obtain ⟨_, _, _, _, tags, enums, s, _, _, _, _, hadd, hc⟩ := build_stages roots rootFile banned content b h
  rw [hc]
  exact addList_nodup content b.expanded [] b.expanded [] _ s (by simp) hadd

/-- **C05 (reference closure, tied model)**: in every accepted project every tag named by an
    interaction exists in the catalog and lists that interaction, and — vice versa — every interaction
    listed by a tag exists in the catalog and names that tag. -/
theorem C05_tags_closed (roots : List DT) (rootFile : Bytes) (banned : List Kind)
    (content : Bytes → Bytes) (b : Built) (h : build roots rootFile banned content = .ok b) :
    (∀ i ∈ b.cat.inters, ∀ t ∈ i.tags, ∃ te ∈ b.cat.tags, te.name = t ∧ i.id ∈ te.members) ∧
    (∀ te ∈ b.cat.tags, ∀ x ∈ te.members, ∃ i ∈ b.cat.inters, i.id = x ∧ te.name ∈ i.tags) := by
  obtain ⟨_, _, _, _, tags, enums, s, _, _, _, htags, hadd, hc⟩ := build_stages roots rootFile banned content b h
  rw [hc]
  constructor
  · exact addList_closed content b.expanded [] b.expanded [] _ s (by intro i hi; cases hi) hadd
  · refine addList_back content b.expanded [] b.expanded [] _ s ?_ hadd
    intro te hte x hx
    have := collectTags_empty b.expanded [] tags (by intro te h; cases h) htags te hte
    rw [this] at hx; cases hx

end Tied

end JsightVerif.Props.C05
