import JsightVerif.Model.Paste
/-
  C10 — PASTE is transparent (shape level).  `expandList` is a hand model of the recursion of
  core/compile_core_paste.go over plain trees (context re-resolution is the C11 model).  What is
  proved: whatever the macro map and the call graph, a *successful* expansion contains no PASTE
  and no MACRO any more (the macro definitions contribute nothing, every call is replaced by
  directives), and an undefined macro makes the expansion fail.  That the catalogue of a
  document equals the catalogue of its macro-abstracted variants, and that every macro that
  reaches itself through a chain of PASTEs is rejected (fix 555f8c9), is evaluated on the real
  builder by the `paste` op (random abstractions, call graphs with cycles of any length).
-/
namespace JsightVerif.Props.C10
open JsightVerif.Model.Paste

theorem pasteFreeList_append (a b : List Node) : pasteFreeList (a ++ b) = (pasteFreeList a && pasteFreeList b) := by
  induction a with
  | nil => simp [pasteFreeList]
  | cons x rest ih => simp [pasteFreeList, ih, Bool.and_assoc]

/-- **C10 (no call left)**: for every macro map, every fuel and every forest -/
theorem expand_paste_free (ms : List (String × List Node)) (n : Nat) :
    (∀ l r, expandList ms n l = some r → pasteFreeList r = true) ∧
    (∀ x r, expandNode ms n x = some r → pasteFreeList r = true) := by
  induction n with
  | zero => constructor <;> intro _ r h <;> simp [expandList, expandNode] at h
  | succ n ih =>
    constructor
    · intro l r h
      cases l with
      | nil => simp only [expandList, Option.some.injEq] at h; subst h; rfl
      | cons x rest =>
        simp only [expandList] at h
        cases hx : expandNode ms n x with
        | none => simp [hx] at h
        | some a =>
          cases hr : expandList ms n rest with
          | none => simp [hx, hr] at h
          | some b =>
            simp only [hx, hr, Option.some.injEq] at h
            subst h
            rw [pasteFreeList_append, ih.2 x a hx, ih.1 rest b hr]; rfl
    · intro x r h
      cases x with
      | dir name kids =>
        simp only [expandNode, Option.map_eq_some_iff] at h
        obtain ⟨k, hk, rfl⟩ := h
        simp [pasteFreeList, pasteFree, ih.1 kids k hk]
      | paste m =>
        simp only [expandNode] at h
        split at h
        · rename_i body _; exact ih.1 _ r h
        · simp at h
      | mac nm kids => simp only [expandNode, Option.some.injEq] at h; subst h; rfl

/-- an undefined macro is never expanded silently -/
theorem undefined_macro_fails (ms : List (String × List Node)) (n : Nat) (m : String)
    (h : ms.find? (·.1 == m) = none) : expandNode ms n (.paste m) = none := by
  cases n <;> simp [expandNode, h]

/-- a cycle cannot be expanded: the recursion runs out of any fuel (this is the stack overflow the
    recursion check has to prevent) -/
example : expandList [("a", [.paste "b"]), ("b", [.paste "a"])] 50 [.paste "a"] = none := by decide
/-- non-vacuity: a macro used twice, defined after its use -/
example : (expandList [("m", [.dir "200" []])] 10 [.dir "GET" [.paste "m"], .dir "POST" [.paste "m"]]).map pasteFreeList = some true := by decide

end JsightVerif.Props.C10
