import JsightVerif.Model.Paste
import JsightVerif.Proofs.BuildProps
/-
  C10 — PASTE is transparent (shape level).  `expandList` is a hand model of the recursion of
  core/compile_core_paste.go over plain trees (context re-resolution is the C11 model).  What is
  proved: whatever the macro map and the call graph, a *successful* expansion contains no PASTE
  and no MACRO any more (the macro definitions contribute nothing, every call is replaced by
  directives), and an undefined macro makes the expansion fail.  That the catalogue of a
  document equals the catalogue of its macro-abstracted variants, and that every macro that
  reaches itself through a chain of PASTEs is rejected (fix 555f8c9), is evaluated on the real
  builder by the `paste` op (random abstractions, call graphs with cycles of any length).
-/
namespace JsightVerif.Props.C10
open JsightVerif.Model.Paste

theorem pasteFreeList_append (a b : List Node) : pasteFreeList (a ++ b) = (pasteFreeList a && pasteFreeList b) := by
  induction a with
  | nil => simp [pasteFreeList]
  | cons x rest ih => simp [pasteFreeList, ih, Bool.and_assoc]

/-- **C10 (no call left)**: for every macro map, every fuel and every forest -/
theorem expand_paste_free (ms : List (String × List Node)) (n : Nat) :
    (∀ l r, expandList ms n l = some r → pasteFreeList r = true) ∧
    (∀ x r, expandNode ms n x = some r → pasteFreeList r = true) := by
  induction n with
  | zero => constructor <;> intro _ r h <;> simp [expandList, expandNode] at h
  | succ n ih =>
    constructor
    · intro l r h
      cases l with
      | nil => simp only [expandList, Option.some.injEq] at h; subst h; rfl
      | cons x rest =>
        simp only [expandList] at h
        cases hx : expandNode ms n x with
        | none => simp [hx] at h
        | some a =>
          cases hr : expandList ms n rest with
          | none => simp [hx, hr] at h
          | some b =>
            simp only [hx, hr, Option.some.injEq] at h
            subst h
            rw [pasteFreeList_append, ih.2 x a hx, ih.1 rest b hr]; rfl
    · intro x r h
      cases x with
      | dir name kids =>
        simp only [expandNode, Option.map_eq_some_iff] at h
        obtain ⟨k, hk, rfl⟩ := h
        simp [pasteFreeList, pasteFree, ih.1 kids k hk]
      | paste m =>
        simp only [expandNode] at h
        split at h
        · rename_i body _; exact ih.1 _ r h
        · simp at h
      | mac nm kids => simp only [expandNode, Option.some.injEq] at h; subst h; rfl

/-- an undefined macro is never expanded silently -/
theorem undefined_macro_fails (ms : List (String × List Node)) (n : Nat) (m : String)
    (h : ms.find? (·.1 == m) = none) : expandNode ms n (.paste m) = none := by
  cases n <;> simp [expandNode, h]

/-- a cycle cannot be expanded: the recursion runs out of any fuel (this is the stack overflow the
    recursion check has to prevent) -/
example : expandList [("a", [.paste "b"]), ("b", [.paste "a"])] 50 [.paste "a"] = none := by decide
/-- non-vacuity: a macro used twice, defined after its use -/
example : (expandList [("m", [.dir "200" []])] 10 [.dir "GET" [.paste "m"], .dir "POST" [.paste "m"]]).map pasteFreeList = some true := by decide

/-! ### the same for the model that is compared with the real builder (Model/Build.lean, op `cat`) -/

section Tied
open JsightVerif.Model JsightVerif.Model.Build JsightVerif.Gen

/-- not a PASTE -/
def notPaste (d : Dir) : Bool := d.kind != .Paste

/-- processPaste (with context re-resolution on the zipper) only ever puts directives that are not
    PASTE into the new forest: whatever the macros, the call graph and the fuel -/
theorem paste_keeps_notPaste (ms : List (Bytes × DT)) (n : Nat) :
    (∀ ts s s', s.ctx.allC notPaste = true → pasteList ms n ts s = .ok s' → s'.ctx.allC notPaste = true) ∧
    (∀ t s s', s.ctx.allC notPaste = true → pasteNode ms n t s = .ok s' → s'.ctx.allC notPaste = true) := by
  induction n with
  | zero =>
    constructor
    · intro ts s s' hs h; simp only [pasteList] at h; cases h; exact hs
    · intro t s s' hs h; simp only [pasteNode] at h; cases h; exact hs
  | succ n ih =>
    constructor
    · intro ts s s' hs h
      cases ts with
      | nil => simp only [pasteList] at h; cases h; exact hs
      | cons t rest =>
        simp only [pasteList] at h
        cases ht : pasteNode ms n t s with
        | error e => simp [ht] at h
        | ok s1 =>
          simp only [ht] at h
          exact ih.1 rest s1 s' (ih.2 t s s1 hs ht) h
    · intro t s s' hs h
      obtain ⟨d, kids⟩ := t
      simp only [pasteNode] at h
      by_cases hk : (d.kind == Kind.Paste) = true
      · simp only [hk, if_true] at h
        -- a call: the result is the state after pasting the macro body
        split at h
        · cases h
        · rename_i s'' hin
          cases h
          split at hin
          · cases hin
          · split at hin
            · cases hin
            · split at hin
              · cases hin
              · split at hin
                · cases hin
                · rename_i enums _
                  exact ih.1 _ { ctx := s.ctx, enums := enums } _ hs hin
      · simp only [hk, Bool.false_eq_true, if_false] at h
        cases ha : attach s.ctx d d.head with
        | error e => simp [ha] at h
        | ok ctx' =>
          simp only [ha] at h
          have hd : notPaste d = true := by simpa [notPaste] using hk
          have hc' : ctx'.allC notPaste = true := attach_all notPaste s.ctx d d.head ctx' hd hs ha
          cases hp : pasteList ms n kids { s with ctx := ctx' } with
          | error e => simp [hp] at h
          | ok s1 =>
            simp only [hp] at h
            have h1 := ih.1 kids { s with ctx := ctx' } s1 hc' hp
            split at h
            · cases h; exact closeTo_all notPaste _ _ _ h1
            · cases h; exact h1

/-- **C10 (tied model)**: whenever the build model accepts a project, the forest the catalog is built
    from contains no PASTE directive: every call has been replaced by directives. -/
theorem C10_expanded_paste_free (roots : List DT) (rootFile : Bytes) (banned : List Kind)
    (content : Bytes → Bytes) (b : Built) (h : build roots rootFile banned content = .ok b) :
    Tree.allList notPaste b.expanded = true := by
  obtain ⟨ms, dirs, fuel, ps, _, _, _, _, hp, he, _, _, _⟩ := build_stages roots rootFile banned content b h
  rw [he]
  exact forest_all notPaste ps.ctx ((paste_keeps_notPaste ms fuel).1 dirs {} ps rfl hp)
end Tied

end JsightVerif.Props.C10
