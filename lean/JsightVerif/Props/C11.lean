import JsightVerif.Spec.Context
import JsightVerif.Proofs.ScanNest
/-
  C11 — directive nesting follows the context table, implicit or explicit.
  `attach` / `closeExplicit` are the hand model of core/context_processing.go and
  closeLastExplicitContext (tied by the `proj` correspondence op); the tables are regenerated.
  All statements hold for open-context stacks of every depth.
-/
namespace JsightVerif.Props.C11
open JsightVerif.Model JsightVerif.Gen JsightVerif.Spec

/-! ### 1. the walk-up loop equals the declarative specification -/

/-- processContext's loop, on heads only -/
def walk (h : Head) : List Head → Res
  | [] => if allowedRoot h.kind then .root else .errCtx
  | f :: fs =>
    match admitIn f h with
    | some (.methodRoot _) => if f.explicit || fs.any (·.explicit) then .errCtxPath else .methodRoot 0
    | some r => r
    | none => if f.explicit then .errCtx else (walk h fs).shift

theorem admit_cases (f h : Head) : admitIn f h = none ∨ admitIn f h = some (.child 0) ∨ admitIn f h = some (.methodRoot 0) := by
  simp only [admitIn]
  by_cases h1 : allowedIn f.kind h.kind = true
  · by_cases h2 : (isHTTPMethod h.kind && h.hasPath && f.kind == Kind.URL) = true <;> simp [h1, h2]
  · simp [h1]

theorem firstAdmitting_ne_root (h : Head) (fs : List Head) (r : Res) (hf : firstAdmitting h fs = some r) :
    (∃ i, r = .child i) ∨ (∃ i, r = .methodRoot i) := by
  induction fs generalizing r with
  | nil => simp [firstAdmitting] at hf
  | cons g gs ih =>
    simp only [firstAdmitting] at hf
    rcases admit_cases g h with ha | ha | ha
    · simp only [ha, Option.map_eq_some_iff] at hf
      obtain ⟨r', hr', rfl⟩ := hf
      rcases ih r' hr' with ⟨i, rfl⟩ | ⟨i, rfl⟩
      · exact Or.inl ⟨i + 1, rfl⟩
      · exact Or.inr ⟨i + 1, rfl⟩
    · simp only [ha, Option.some.injEq] at hf; exact Or.inl ⟨0, hf.symm⟩
    · simp only [ha, Option.some.injEq] at hf; exact Or.inr ⟨0, hf.symm⟩

theorem walk_eq_resolve (h : Head) (fs : List Head) : walk h fs = resolve h fs := by
  induction fs with
  | nil => simp [walk, resolve, candidates, firstAdmitting, reachesRoot]
  | cons f fs ih =>
    simp only [walk, resolve, candidates]
    rcases admit_cases f h with ha | ha | ha
    · -- not admitted here
      by_cases hx : f.explicit
      · simp [hx, firstAdmitting, ha, reachesRoot]
      · simp only [ha, hx, Bool.false_eq_true, if_false, firstAdmitting, ih, resolve, List.any_cons, Bool.false_or]
        cases hf : firstAdmitting h (candidates fs) with
        | some r =>
          rcases firstAdmitting_ne_root h _ r hf with ⟨i, rfl⟩ | ⟨i, rfl⟩
          · simp [Res.shift]
          · by_cases hany : (fs.any fun x => x.explicit) = true <;> simp [Res.shift, hany]
        | none =>
          simp only [Option.map_none, reachesRoot, List.all_cons, hx, Bool.not_false, Bool.true_and]
          by_cases hr : (fs.all fun f => !f.explicit) && allowedRoot h.kind <;> simp [hr, Res.shift]
    · by_cases hx : f.explicit <;> simp [hx, firstAdmitting, ha]
    · by_cases hx : f.explicit <;> simp [hx, firstAdmitting, ha]

/-! ### 2. the zipper implements the walk: which frames close, where the directive lands -/

variable {α : Type}

/-- close the `n` innermost frames; returns the remaining stack with the pending closed tree -/
def popN : Nat → List (Frame α) → Option (Tree α) → List (Frame α) × Option (Tree α)
  | 0, st, carry => (st, carry)
  | _ + 1, [], carry => ([], carry)
  | n + 1, f :: rest, carry => popN n rest (some (f.absorb carry).close)

/-- hand the pending closed tree to the new innermost frame -/
def settle : List (Frame α) × Option (Tree α) → List (Frame α)
  | ([], _) => []
  | (f :: rest, carry) => f.absorb carry :: rest

def heads (st : List (Frame α)) : List Head := st.map (·.h)

theorem absorb_h (f : Frame α) (c : Option (Tree α)) : (f.absorb c).h = f.h := by
  cases c <;> rfl

/-- **refinement**: `attach` does exactly what the specification says -/
theorem attachStack_spec (d : α) (h : Head) (st : List (Frame α)) (carry : Option (Tree α)) (roots : List (Tree α)) :
    attachStack d h st carry roots =
      match walk h (heads st) with
      | .child i => .ok ⟨⟨d, h, []⟩ :: settle (popN i st carry), roots⟩
      | .methodRoot i => .ok ⟨[⟨d, h, []⟩], closeAll (settle (popN i st carry)) none roots⟩
      | .root => .ok ⟨[⟨d, h, []⟩], closeAll st carry roots⟩
      | .errCtx => .error .incorrectContext
      | .errCtxPath => .error .incorrectContextPath := by
  induction st generalizing carry with
  | nil =>
    simp only [attachStack, heads, List.map_nil, walk]
    by_cases hr : allowedRoot h.kind <;> simp [hr, closeAll]
  | cons f rest ih =>
    simp only [attachStack, heads, List.map_cons, walk, admitIn, absorb_h]
    by_cases ha : allowedIn f.h.kind h.kind
    · simp only [ha, if_true]
      by_cases hm : (isHTTPMethod h.kind && h.hasPath && f.h.kind == Kind.URL) = true
      · simp only [hm, if_true, List.any_map]
        by_cases hx : (f.h.explicit || rest.any fun x => x.h.explicit) = true
        · simp only [hx, if_true]
          have : (f.h.explicit || List.any rest ((fun x => x.explicit) ∘ fun x => x.h)) = true := by simpa [Function.comp] using hx
          simp [this]
        · simp only [hx, Bool.false_eq_true, if_false]
          have : (f.h.explicit || List.any rest ((fun x => x.explicit) ∘ fun x => x.h)) = false := by simpa [Function.comp] using hx
          simp [this, popN, settle]
      · simp only [hm, Bool.false_eq_true, if_false]
        simp [popN, settle]
    · simp only [ha, Bool.false_eq_true, if_false]
      by_cases hx : f.h.explicit
      · simp [hx]
      · simp only [hx, Bool.false_eq_true, if_false]
        rw [ih]
        simp only [heads]
        cases walk h (List.map (fun x => x.h) rest) <;> simp [Res.shift, popN, closeAll]

/-- C11 (accepted iff the table allows it there) -/
theorem accepted_iff (c : Ctx α) (d : α) (h : Head) :
    (∃ c', attach c d h = .ok c') ↔ resolve h (heads c.stack) ≠ .errCtx ∧ resolve h (heads c.stack) ≠ .errCtxPath := by
  simp only [attach, attachStack_spec, walk_eq_resolve]
  cases resolve h (heads c.stack) <;> simp

/-- error class on rejection -/
theorem rejected_class (c : Ctx α) (d : α) (h : Head) (e : CtxErr) (he : attach c d h = .error e) :
    (e = .incorrectContext ∧ resolve h (heads c.stack) = .errCtx) ∨
    (e = .incorrectContextPath ∧ resolve h (heads c.stack) = .errCtxPath) := by
  simp only [attach, attachStack_spec, walk_eq_resolve] at he
  cases hr : resolve h (heads c.stack) <;> simp [hr] at he <;> simp [← he]

/-! ### 3. implicit contexts close silently, explicit ones never do -/

/-- when the walk passes a frame, that frame is implicit -/
theorem walk_passes_implicit (h : Head) (fs : List Head) (i : Nat) (hw : walk h fs = .child i ∨ walk h fs = .methodRoot i) :
    ∀ j, j < i → ∀ f, fs[j]? = some f → f.explicit = false := by
  induction fs generalizing i with
  | nil => intro j _ f hf; simp at hf
  | cons g gs ih =>
    intro j hj f hf
    rcases admit_cases g h with ha | ha | ha
    · simp only [walk, ha] at hw
      by_cases hx : g.explicit
      · simp [hx] at hw
      · simp only [hx, Bool.false_eq_true, if_false] at hw
        cases j with
        | zero => simp at hf; subst hf; simpa using hx
        | succ j' =>
          simp at hf
          cases hwr : walk h gs with
          | child k =>
            simp only [hwr, Res.shift] at hw
            have hk : i = k + 1 := by rcases hw with hw | hw <;> simp_all
            exact ih k (Or.inl hwr) j' (by omega) f hf
          | methodRoot k =>
            simp only [hwr, Res.shift] at hw
            have hk : i = k + 1 := by rcases hw with hw | hw <;> simp_all
            exact ih k (Or.inr hwr) j' (by omega) f hf
          | root => simp [hwr, Res.shift] at hw
          | errCtx => simp [hwr, Res.shift] at hw
          | errCtxPath => simp [hwr, Res.shift] at hw
    · simp only [walk, ha] at hw
      have : i = 0 := by rcases hw with hw | hw <;> simp_all
      omega
    · simp only [walk, ha] at hw
      have : i = 0 := by
        rcases hw with hw | hw
        · split at hw <;> simp at hw
        · split at hw <;> simp_all
      omega

/-- a method-with-path becomes a new root only when no open context at all is explicit -/
theorem walk_methodRoot_all_implicit (h : Head) (fs : List Head) (i : Nat) (hw : walk h fs = .methodRoot i) :
    ∀ f ∈ fs, f.explicit = false := by
  rw [walk_eq_resolve] at hw
  simp only [resolve] at hw
  cases hf : firstAdmitting h (candidates fs) with
  | none => simp only [hf] at hw; split at hw <;> simp at hw
  | some r =>
    rcases firstAdmitting_ne_root h _ r hf with ⟨k, rfl⟩ | ⟨k, rfl⟩
    · simp [hf] at hw
    · simp only [hf] at hw
      by_cases hany : (fs.any fun x => x.explicit) = true
      · simp [hany] at hw
      · intro f hfm
        simp only [List.any_eq_true, not_exists, not_and, Bool.not_eq_true] at hany
        exact hany f hfm

/-- going to the root is possible only when no open context is explicit -/
theorem walk_root_all_implicit (h : Head) (fs : List Head) (hw : walk h fs = .root) :
    ∀ f ∈ fs, f.explicit = false := by
  rw [walk_eq_resolve] at hw
  simp only [resolve] at hw
  cases hf : firstAdmitting h (candidates fs) with
  | some r =>
    rcases firstAdmitting_ne_root h _ r hf with ⟨k, rfl⟩ | ⟨k, rfl⟩
    · simp [hf] at hw
    · simp only [hf] at hw; split at hw <;> simp at hw
  | none =>
    simp only [hf] at hw
    by_cases hr : (reachesRoot fs && allowedRoot h.kind) = true
    · simp only [Bool.and_eq_true, reachesRoot, List.all_eq_true] at hr
      intro f hfm; simpa using hr.1 f hfm
    · simp [hr] at hw

/-- **C11: an explicit context never closes silently** — every open context that the new
    directive closes on its way (the ones passed by the walk, or all of them when it becomes a
    root) is implicit. Full strength since fix 6007ce7 (`HasUnclosedExplicitContext` in the
    method-with-path case); the pre-fix counterexample is `explicit_closed_silently_prefix_witness`. -/
theorem explicit_never_closed_silently (h : Head) (fs : List Head) :
    match walk h fs with
    | .child i => ∀ j, j < i → ∀ f, fs[j]? = some f → f.explicit = false
    | .methodRoot _ => ∀ f ∈ fs, f.explicit = false
    | .root => ∀ f ∈ fs, f.explicit = false
    | _ => True := by
  cases hw : walk h fs with
  | child i => exact walk_passes_implicit h fs i (Or.inl hw)
  | methodRoot i => exact walk_methodRoot_all_implicit h fs i hw
  | root => exact walk_root_all_implicit h fs hw
  | errCtx => trivial
  | errCtxPath => trivial

/-! ### 4. ')' closes the innermost explicit context -/

def firstExplicit : List Head → Option Nat
  | [] => none
  | f :: fs => if f.explicit then some 0 else (firstExplicit fs).map (· + 1)

theorem closeExplicitStack_spec (st : List (Frame α)) (carry : Option (Tree α)) (roots : List (Tree α)) :
    closeExplicitStack st carry roots =
      match firstExplicit (heads st) with
      | none => .error .nothingToClose
      | some i =>
        let r := popN (i + 1) st carry
        match r.1 with
        | [] => .ok ⟨[], absorbRoots roots r.2⟩
        | _ :: _ => .ok ⟨settle r, roots⟩ := by
  induction st generalizing carry with
  | nil => simp [closeExplicitStack, heads, firstExplicit]
  | cons f rest ih =>
    simp only [closeExplicitStack, heads, List.map_cons, firstExplicit, absorb_h]
    by_cases hx : f.h.explicit
    · simp only [hx, if_true]
      cases rest with
      | nil => simp [popN, absorbRoots]
      | cons g rest' => simp [popN, settle]
    · simp only [hx, Bool.false_eq_true, if_false]
      rw [ih]
      simp only [heads]
      cases firstExplicit (List.map (fun x => x.h) rest) <;> simp [popN]

/-- end of file with an explicit context still open is an error (HasUnclosedExplicitContext) -/
theorem eof_unclosed_is_error (c : Ctx α) :
    hasUnclosedExplicit c = true ↔ ∃ f ∈ heads c.stack, f.explicit = true := by
  simp only [hasUnclosedExplicit, heads, List.any_eq_true, List.mem_map]
  constructor
  · rintro ⟨x, hx, he⟩; exact ⟨x.h, ⟨x, hx, rfl⟩, he⟩
  · rintro ⟨f, ⟨a, ha, rfl⟩, he⟩; exact ⟨a, ha, he⟩

/-! ### 5. the regenerated tables are the pinned JSight API 0.3 context table -/

/-- reference transcription of the context table (as implemented at the baseline commit) -/
def refRoot : List Kind :=
  [.Jsight, .Info, .Server, .URL, .Get, .Post, .Put, .Patch, .Delete, .Type, .Enum, .Macro, .Paste, .TAG]

def methodKids : List Kind := [.Description, .Request, .HTTPResponseCode, .Path, .Query, .Paste, .Tags, .OperationID]

def refTable : List (Kind × List Kind) := [
  (.URL, [.Get, .Post, .Put, .Patch, .Delete, .Path, .Paste, .Protocol, .Method, .Tags]),
  (.Get, methodKids), (.Post, methodKids), (.Put, methodKids), (.Patch, methodKids), (.Delete, methodKids),
  (.HTTPResponseCode, [.Body, .Headers, .Paste]),
  (.Request, [.Body, .Headers, .Paste]),
  (.Info, [.Title, .Version, .Description, .Paste]),
  (.Server, [.BaseURL, .Paste]),
  (.Method, [.Description, .Params, .Result, .Tags]),
  (.TAG, [.Description]),
  (.Macro, [.Info, .Title, .Version, .Description, .Server, .BaseURL, .URL, .Get, .Post, .Put, .Patch, .Delete, .Body,
            .Request, .HTTPResponseCode, .Path, .Headers, .Query, .Type, .Enum, .Paste])]

def refAllowed (p c : Kind) : Bool :=
  match refTable.lookup p with
  | some l => l.contains c
  | none => false

theorem table_pinned :
    (Kind.all.all fun p => Kind.all.all fun c => allowedIn p c == refAllowed p c) = true
    ∧ (Kind.all.all fun k => allowedRoot k == refRoot.contains k) = true
    ∧ (Kind.all.all fun k => isHTTPMethod k == [Kind.Get, .Post, .Put, .Patch, .Delete].contains k) = true
    ∧ Kind.all.length = 31 := by
  decide

/-! ### non-vacuity and the negation witness -/

def hd (k : Kind) (p e : Bool) : Head := ⟨k, p, e⟩

-- a response inside GET inside URL, three levels deep: `Body` attaches to the response
example : resolve (hd .Body false false) [hd .HTTPResponseCode false false, hd .Get false false, hd .URL true false] = .child 0 := by decide
-- `GET` (no path) after a response: closes the response and the previous method silently
example : resolve (hd .Post false false) [hd .HTTPResponseCode false false, hd .Get false false, hd .URL true false] = .child 2 := by decide
-- an explicit context does not close silently
example : resolve (hd .Post false false) [hd .HTTPResponseCode false false, hd .Get false true, hd .URL true false] = .errCtx := by decide
-- method with its own path inside an implicit / explicit URL
example : resolve (hd .Get true false) [hd .URL true false] = .methodRoot 0 := by decide
example : resolve (hd .Get true false) [hd .URL true true] = .errCtxPath := by decide
example : resolve (hd .Get true false) [hd .URL true false, hd .URL true false] = .methodRoot 0 := by decide

/-- the pre-fix counterexample (`MACRO @m (`, `URL /a`, `GET /b`) is now rejected -/
theorem explicit_closed_silently_prefix_witness :
    resolve (hd .Get true false) [hd .URL true false, hd .Macro false true] = .errCtxPath := by decide

/-! ### whole documents: every directive of a scanned project sits where the table allows it -/

section Whole
open JsightVerif.Model.Build

/-- **C11 (whole project, scanning stage)**: in the forest of every project the scanning stage
    accepts — any number of files, INCLUDE graph, explicit and implicit contexts, any depth — every
    directive's kind is admitted by its parent's kind in the regenerated context table, and every
    root directive is allowed at root level. -/
theorem C11_scanned_forest_nested (fsys : FileSys) (n : Nat) (c c' : Core) (hc : c.ctx = Ctx.empty)
    (hrun : Core.run fsys n c = .ok c') : Tree.wnList Dir.kind none c'.ctx.forest = true :=
  scan_forest_wn fsys n c c' hc hrun

/-- **C11 (after MACRO/PASTE)**: the same for the forest the catalog is built from, whatever forest
    and macros went into the expansion: pasted directives are re-resolved against the table. -/
theorem C11_expanded_forest_nested (roots : List DT) (rootFile : Bytes) (banned : List Kind)
    (content : Bytes → Bytes) (b : Built) (h : build roots rootFile banned content = .ok b) :
    Tree.wnList Dir.kind none b.expanded = true := by
  obtain ⟨ms, dirs, fuel, ps, _, _, _, _, hp, he, _, _, _⟩ := build_stages roots rootFile banned content b h
  rw [he]
  exact forest_wn Dir.kind ps.ctx ((paste_keeps_wn ms fuel).1 dirs {} ps rfl hp)

end Whole

end JsightVerif.Props.C11
