import JsightVerif.Gen.Facts
/-
  C06 — determinism.  Nothing observable may depend on hash-map iteration order, addresses,
  time or prior builds.  The sources of nondeterminism are *facts* regenerated from /repo with
  go/types on every run; this file pins them and proves the order-independence argument for the
  loop shapes that occur.  A new `range` over a map, a `go` statement, or an import of
  time / math/rand / unsafe in the build path breaks an obligation here.
-/
namespace JsightVerif.Props.C06
open JsightVerif.Model JsightVerif.Gen

/-- how each loop over a map is accounted for -/
inductive Why where
  | insertIntoMap      -- body only inserts (key ↦ value) into another map / set, keys pairwise distinct
  | jsonObject         -- builds a Go map that encoding/json serialises with sorted keys
  | sortedFirst        -- keys are collected and sorted before anything observable happens
  deriving DecidableEq, Repr

/-- every `range` over a map in the repository, with the reason it is harmless -/
def accounted : List (Site × Why) := [
  (⟨"catalog", "exchange_schema_jsight.go", "NewExchangeJSightSchema", "0"⟩, .insertIntoMap),        -- AddRule: s.Rules[n] = r
  (⟨"catalog", "object_builder.go", "ObjectBuilder.AddProperty", "0"⟩, .insertIntoMap),               -- Inner.AddType
  (⟨"catalog/ser/openapi", "content.go", "contentForVariousMediaTypes", "0"⟩, .jsonObject),
  (⟨"catalog/ser/openapi", "response_headers.go", "makeResponseHeaders", "0"⟩, .jsonObject),
  (⟨"catalog/ser/openapi", "responses.go", "newResponses", "0"⟩, .jsonObject),
  (⟨"core", "compile_catalog.go", "JApiCore.getPropertiesNames", "0"⟩, .sortedFirst),                -- since fix 1ecec57
  (⟨"core", "compile_core_macro.go", "JApiCore.checkMacroForRecursion", "0"⟩, .sortedFirst),         -- since fix fe70683
  (⟨"core", "compile_core_user_types.go", "JApiCore.buildUserTypes", "0"⟩, .insertIntoMap),          -- AddRule
  (⟨"core", "path_variables_schema.go", "newPathVariablesSchema", "0"⟩, .insertIntoMap)]             -- AddType

/-- **obligation**: the regenerated list of map ranges is exactly the accounted one -/
theorem C06_sites : Gen.mapRanges = accounted.map (·.1) := by decide

/-- no goroutine is started by the library -/
theorem C06_no_goroutines : Gen.goStmts = [] := by decide

/-- neither wall-clock time, random numbers, the runtime nor unsafe addresses are imported -/
theorem C06_no_time_rand_unsafe :
    (Gen.sensitiveImports.all fun s =>
      !(["time", "math/rand", "math/rand/v2", "crypto/rand", "unsafe", "runtime", "reflect"].contains s.what)) = true := by
  decide

/-! ### the order-independence argument for `insertIntoMap` loops -/

/-- a Go map as a function; assignment `m[k] = v` -/
def upd {κ ν} [DecidableEq κ] (m : κ → Option ν) (kv : κ × ν) : κ → Option ν :=
  fun k => if k = kv.1 then some kv.2 else m k

theorem upd_comm {κ ν} [DecidableEq κ] (m : κ → Option ν) (a b : κ × ν) (h : a.1 ≠ b.1) :
    upd (upd m a) b = upd (upd m b) a := by
  funext k
  simp only [upd]
  by_cases h1 : k = b.1
  · by_cases h2 : k = a.1
    · exact absurd (h2.symm.trans h1) h
    · simp [h1, h2, Ne.symm h]
  · by_cases h2 : k = a.1
    · simp [h1, h2, h]
    · simp [h1, h2]

/-- **C06 (map-insert loops)**: ranging over a map (its entries in *any* order — two orders are
    permutations of each other, keys pairwise distinct) and inserting every entry into another map
    gives the same map. -/
theorem insert_loop_order_independent {κ ν} [DecidableEq κ] (m : κ → Option ν) (l₁ l₂ : List (κ × ν))
    (hp : l₁.Perm l₂) (hd : l₁.Pairwise (fun a b => a.1 ≠ b.1)) :
    l₁.foldl upd m = l₂.foldl upd m := by
  apply List.Perm.foldl_eq' hp
  intro x hx y hy z
  by_cases hxy : x.1 = y.1
  · -- same key: by distinctness the two entries are the same entry
    have hxe : x = y := by
      rcases List.mem_iff_getElem.mp hx with ⟨i, hi, rfl⟩
      rcases List.mem_iff_getElem.mp hy with ⟨j, hj, rfl⟩
      have hpw := List.pairwise_iff_getElem.mp hd
      rcases Nat.lt_trichotomy i j with h | h | h
      · exact absurd hxy (hpw i j hi hj h)
      · subst h; rfl
      · exact absurd hxy.symm (hpw j i hj hi h)
    subst hxe; rfl
  · exact upd_comm z x y hxy

/-- the first-error-wins shape: when no entry can fail the loop, the order cannot show either -/
theorem no_failure_no_order {α ε} (check : α → Except ε Unit) (l₁ l₂ : List α) (hp : l₁.Perm l₂)
    (hok : ∀ a ∈ l₁, check a = .ok ()) : (l₁.all fun a => (check a).isOk) = (l₂.all fun a => (check a).isOk) := by
  have h1 : (l₁.all fun a => (check a).isOk) = true := by
    simp only [List.all_eq_true]; intro a ha; simp [hok a ha, Except.isOk, Except.toBool]
  have h2 : (l₂.all fun a => (check a).isOk) = true := by
    simp only [List.all_eq_true]; intro a ha; simp [hok a (hp.mem_iff.mpr ha), Except.isOk, Except.toBool]
  rw [h1, h2]

/-- non-vacuity -/
example : (([(1, "a"), (2, "b")] : List (Nat × String)).foldl upd (fun _ => none)) 2 = some "b" := by decide

end JsightVerif.Props.C06
