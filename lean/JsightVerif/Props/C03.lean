import JsightVerif.Props.C05
import JsightVerif.Proofs.BuildRegs
/-
  C03 — single known faults are rejected, at the fault (registry level).
  A second declaration of a name is refused by the Has-before-Set discipline at exactly that
  declaration: everything before it was accepted, the registry is left as it was.  The 22 fault
  classes x injection site x layout (file and line of the offending directive, message class) are
  evaluated on the real builder by the `fault` op.
-/
namespace JsightVerif.Props.C03
open JsightVerif.Model.Cat JsightVerif.Props.C05

/-- a duplicate name is refused with the duplicate error carrying that name -/
theorem duplicate_refused {α} (m : OMap α) (k : Name) (v : α) (h : k ∈ m.keys) :
    m.add k v = .error (.duplicate k) := by
  simp [OMap.add, (has_iff_mem_keys m k).mpr h]

/-- in a fold of declarations the first repeated name is where the error arises: the prefix
    before it is accepted and the error names it -/
theorem first_duplicate_is_reported {α} (pre : List (Name × α)) (k : Name) (v : α) (post : List (Name × α))
    (hpre : (pre.map (·.1)).Nodup) (hk : k ∈ pre.map (·.1)) :
    addAll OMap.empty (pre ++ (k, v) :: post) = .error (.duplicate k) := by
  obtain ⟨m, hm, he⟩ := JsightVerif.Props.C05.addAll_entries_exists pre hpre
  have : ∀ (m0 : OMap α) (l1 l2 : List (Name × α)) m1, addAll m0 l1 = .ok m1 → addAll m0 (l1 ++ l2) = addAll m1 l2 := by
    intro m0 l1
    induction l1 generalizing m0 with
    | nil => intro l2 m1 h; simp only [addAll, Except.ok.injEq] at h; subst h; rfl
    | cons kv rest ih =>
      intro l2 m1 h
      obtain ⟨k', v'⟩ := kv
      simp only [addAll, List.cons_append] at h ⊢
      cases ha : m0.add k' v' with
      | error e => simp [ha] at h
      | ok m2 => simp only [ha] at h ⊢; exact ih m2 l2 m1 h
  rw [this _ pre _ m hm]
  simp only [addAll]
  have hin : k ∈ m.keys := by simpa [OMap.keys, he] using hk
  rw [duplicate_refused m k v hin]

example : (match addAll (OMap.empty : OMap Nat) [("@a", 1), ("@b", 2), ("@a", 3), ("@b", 4)] with
    | .error e => e == .duplicate "@a" | .ok _ => false) = true := by decide

/-! ### the model that is compared with the real builder (Model/Build.lean, op `cat`) -/

section Tied
open JsightVerif.Model JsightVerif.Model.Build JsightVerif.Gen

/-- **C03 (duplicates, tied model)**: a project in which two SERVER directives, two TYPE directives or
    two interactions carry the same name is never accepted: in every accepted project these names are
    pairwise distinct (contrapositive: the second declaration makes the build fail). -/
theorem C03_accepted_names_distinct (roots : List DT) (rootFile : Bytes) (banned : List Kind)
    (content : Bytes → Bytes) (b : Built) (h : build roots rootFile banned content = .ok b) :
    (serverNames b.cat).Nodup ∧ (typeNames b.cat).Nodup ∧ (ids b.cat).Nodup := by
  obtain ⟨_, _, _, _, tags, enums, s, _, _, _, _, hadd, hc⟩ := build_stages roots rootFile banned content b h
  rw [hc]
  exact ⟨(addList_servers content b.expanded _ s hadd).2 (by simp [serverNames]),
         (addList_types content b.expanded _ s hadd).2 (by simp [typeNames]),
         addList_nodup content b.expanded [] b.expanded [] _ s (by simp) hadd⟩

/-- and the declared names are what the catalog holds, so two SERVER (TYPE) directives with one name
    in the expanded document are enough to make the model refuse it -/
theorem C03_duplicate_server_refused (roots : List DT) (rootFile : Bytes) (banned : List Kind)
    (content : Bytes → Bytes) (b : Built) (h : build roots rootFile banned content = .ok b) :
    (collectList (fun d _ => newServers d) b.expanded []).Nodup ∧
    (collectList (fun d _ => newTypes d) b.expanded []).Nodup := by
  obtain ⟨_, _, _, _, tags, enums, s, _, _, _, _, hadd, hc⟩ := build_stages roots rootFile banned content b h
  have hs := addList_servers content b.expanded _ s hadd
  have ht := addList_types content b.expanded _ s hadd
  constructor
  · have := hs.2 (by simp [serverNames]); rw [hs.1] at this; simpa [serverNames] using this
  · have := ht.2 (by simp [typeNames]); rw [ht.1] at this; simpa [typeNames] using this

end Tied

end JsightVerif.Props.C03
