import JsightVerif.Props.C05
import JsightVerif.Gen.Facts
/-
  C15 — the order of independent top-level blocks does not matter (registry level + phase order).
  (1) Collection happens in whole-document passes before the interactions are built: the phase
      order is regenerated from core/compile_core.go on every run and pinned here.
  (2) Permuting the declarations of a section (pairwise distinct names) yields an accepted section
      with the same entries as a set, in the new text order.
  The content of the entries (schemas, examples) under permutation is compared on real builds by
  the `order` op; it rests on the dependency's two-phase type compilation (assumption A_envset).
-/
namespace JsightVerif.Props.C15
open JsightVerif.Model.Cat JsightVerif.Props.C05 JsightVerif.Gen

/-- macros, rules (enums), tags and user types are collected before paths and interactions -/
theorem phases_pinned :
    Gen.phasesCompileCore = ["collectMacro", "checkMacroForRecursion", "processPaste", "collectRules", "collectTags",
      "collectUserTypes", "collectPaths", "addMissedUndefindedPathVariables"]
    ∧ Gen.phasesProject = ["scanProject", "compileCore", "buildCatalog", "compileCatalog", "validateCatalog"] := by
  decide

/-- **C15 (sections)**: a permutation of pairwise distinct declarations is accepted as well and
    holds the same entries; their order is the new text order. -/
theorem perm_same_entries {α} (l l' : List (Name × α)) (hp : l.Perm l') (hd : (l.map (·.1)).Nodup) :
    ∃ m m', addAll OMap.empty l = .ok m ∧ addAll OMap.empty l' = .ok m' ∧
      m.entries.Perm m'.entries ∧ m'.entries = l' := by
  have hd' : (l'.map (·.1)).Nodup := (hp.map _).nodup_iff.mp hd
  obtain ⟨m, hm, he⟩ := addAll_entries_exists l hd
  obtain ⟨m', hm', he'⟩ := addAll_entries_exists l' hd'
  exact ⟨m, m', hm, hm', by rw [he, he']; exact hp, he'⟩

example : ∃ m m', addAll (OMap.empty : OMap Nat) [("@a", 1), ("@b", 2)] = .ok m ∧ addAll OMap.empty [("@b", 2), ("@a", 1)] = .ok m' ∧
    m.entries.Perm m'.entries ∧ m'.entries = [("@b", 2), ("@a", 1)] :=
  perm_same_entries _ _ (List.Perm.swap _ _ _) (by decide)

end JsightVerif.Props.C15
