import JsightVerif.Model.Project
/-
  C07 — every error carries a truthful location.
  `lineAndColumn`, `lineAndColumnEof`, `newLineSymbol` are transliterations of the
  dependency's bytes.Bytes methods and of jerr.lineAndColumn (tied by the `proj`
  correspondence op, which compares index, line, column, quote and trace of every error).
-/
namespace JsightVerif.Props.C07
open JsightVerif.Model

/-- the specification: 1 + number of new-line symbols before the index -/
def specLine (nl : UInt8) (b : Bytes) (i : Nat) : Nat := 1 + (b.take i).count nl

/-- the specification: 1 + distance back to the previous new-line symbol (or the file start) -/
def specCol (nl : UInt8) (b : Bytes) (i : Nat) : Nat := 1 + ((b.take i).reverse.takeWhile (· != nl)).length

def lcStep (nl : UInt8) (lc : Nat × Nat) (c : UInt8) : Nat × Nat :=
  if c == nl then (lc.1 + 1, 0) else (lc.1, lc.2 + 1)

theorem snoc_induction {α} {P : List α → Prop} (hnil : P []) (hsnoc : ∀ xs x, P xs → P (xs ++ [x])) : ∀ l, P l := by
  intro l
  induction h : l.length generalizing l with
  | zero =>
    have : l = [] := List.length_eq_zero_iff.mp h
    subst this; exact hnil
  | succ n ih =>
    have hne : l ≠ [] := by intro e; subst e; simp at h
    rw [← List.dropLast_concat_getLast hne]
    apply hsnoc
    apply ih
    simp [List.length_dropLast, h]

theorem foldl_lc (nl : UInt8) (pre : Bytes) :
    pre.foldl (lcStep nl) (0, 0) = (pre.count nl, (pre.reverse.takeWhile (· != nl)).length) := by
  induction pre using snoc_induction with
  | hnil => simp
  | hsnoc xs c ih =>
    simp only [List.foldl_append, List.foldl_cons, List.foldl_nil, ih, lcStep]
    by_cases h : c = nl
    · subst h
      simp [List.count_append]
    · have h' : (c == nl) = false := by simpa using h
      have h'' : (c != nl) = true := by simpa using h
      simp [h', h'', List.count_append, List.count_singleton, h, List.takeWhile_cons]

/-- **C07 (line / column)**: for every content and every index inside it, the reported line and
    column are the ones that index really has. -/
theorem lineAndColumn_spec (b : Bytes) (i : Nat) (hi : i < b.length) :
    lineAndColumn b i = (specLine (newLineSymbol b) b i, specCol (newLineSymbol b) b i) := by
  have hlen : (b.length == 0 || decide (b.length ≤ i)) = false := by
    simp only [Bool.or_eq_false_iff, beq_eq_false_iff_ne, decide_eq_false_iff_not]
    constructor <;> omega
  unfold lineAndColumn
  simp only [hlen, Bool.false_eq_true, if_false]
  have hf : (fun (lc : Nat × Nat) (c : UInt8) => if c == newLineSymbol b then (lc.1 + 1, 0) else (lc.1, lc.2 + 1))
      = lcStep (newLineSymbol b) := rfl
  rw [hf, foldl_lc]
  simp only [specLine, specCol]
  congr 1 <;> omega

/-- inside the file nothing changes with fix 8e2742a -/
theorem lineAndColumnEof_inside (b : Bytes) (i : Nat) (hi : i < b.length) :
    lineAndColumnEof b i = (specLine (newLineSymbol b) b i, specCol (newLineSymbol b) b i) := by
  unfold lineAndColumnEof
  have h1 : (b.length == 0 || i != b.length) = true := by
    simp only [Bool.or_eq_true, beq_iff_eq, bne_iff_ne]; right; omega
  simp only [h1, if_true]
  exact lineAndColumn_spec b i hi

theorem take_len_snoc (xs : Bytes) (c : UInt8) : (xs ++ [c]).take xs.length = xs := by simp
theorem take_all_snoc (xs : Bytes) (c : UInt8) : (xs ++ [c]).take (xs.length + 1) = xs ++ [c] :=
  List.take_of_length_le (by simp)

theorem specs_snoc_nl (nl : UInt8) (xs : Bytes) :
    specLine nl (xs ++ [nl]) (xs.length + 1) = specLine nl (xs ++ [nl]) xs.length + 1 ∧
    specCol nl (xs ++ [nl]) (xs.length + 1) = 1 := by
  simp only [specLine, specCol, take_len_snoc, take_all_snoc]
  simp [List.count_append]
  omega

theorem specs_snoc_other (nl c : UInt8) (xs : Bytes) (h : c ≠ nl) :
    specLine nl (xs ++ [c]) (xs.length + 1) = specLine nl (xs ++ [c]) xs.length ∧
    specCol nl (xs ++ [c]) (xs.length + 1) = specCol nl (xs ++ [c]) xs.length + 1 := by
  have h' : (c != nl) = true := by simpa using h
  simp only [specLine, specCol, take_len_snoc, take_all_snoc]
  simp [List.count_append, List.count_singleton, h, List.takeWhile_cons, h']
  omega

/-- **C07 (end of file)**: the end position (index = length, where unterminated comments, quotes
    and parentheses are reported) gets the line and column it really has — since fix 8e2742a;
    before it the answer was (0, 0). -/
theorem lineAndColumnEof_end (b : Bytes) (hb : b ≠ []) :
    lineAndColumnEof b b.length = (specLine (newLineSymbol b) b b.length, specCol (newLineSymbol b) b b.length) := by
  obtain ⟨xs, c, rfl⟩ : ∃ xs c, b = xs ++ [c] := ⟨b.dropLast, b.getLast hb, (List.dropLast_concat_getLast hb).symm⟩
  unfold lineAndColumnEof
  have h1 : ((xs ++ [c]).length == 0 || (xs ++ [c]).length != (xs ++ [c]).length) = false := by simp
  simp only [h1, Bool.false_eq_true, if_false]
  have hlast : (xs ++ [c]).length - 1 = xs.length := by simp
  rw [hlast, lineAndColumn_spec (xs ++ [c]) xs.length (by simp)]
  have hlen : (xs ++ [c]).length = xs.length + 1 := by simp
  rw [hlen]
  generalize newLineSymbol (xs ++ [c]) = nl
  by_cases hc : c = nl
  · subst hc
    have := specs_snoc_nl c xs
    simp [this.1, this.2]
  · have := specs_snoc_other nl c xs hc
    simp [this.1, this.2, hc]

/-- non-vacuity -/
example : lineAndColumnEof (strBytes "JSIGHT 0.3\n### x") 16 = (2, 6) := by decide +kernel
example : lineAndColumnEof (strBytes "abc\n") 4 = (2, 1) := by decide +kernel
example : lineAndColumn (strBytes "a\r\nbc") 3 = (2, 1) := by decide +kernel

/-! ### The quote of a location is cut out of the file around the position (jerr.quote) -/

theorem takeWhile_len_le {α} (p : α → Bool) (l : List α) : (l.takeWhile p).length ≤ l.length := by
  induction l with
  | nil => simp
  | cons a l ih => simp only [List.takeWhile_cons]; split <;> simp <;> omega

theorem endOfLine_le_length (b : Bytes) (index : Nat) (h : index ≤ b.length) :
    endOfLine b index ≤ b.length := by
  have h1 : ((b.drop index).takeWhile (· != newLineSymbol b)).length ≤ b.length - index := by
    have := takeWhile_len_le (· != newLineSymbol b) (b.drop index)
    simpa using this
  unfold endOfLine
  simp only
  repeat' split
  all_goals omega

theorem endOfLine_ge (b : Bytes) (index : Nat) : index ≤ endOfLine b index + 1 := by
  unfold endOfLine
  simp only
  repeat' split
  all_goals omega

theorem beginningOfLineAux_le (b : Array UInt8) (nl : UInt8) (index fuel i : Nat) (h : i ≤ index) :
    beginningOfLineAux b nl index fuel i ≤ index := by
  induction fuel generalizing i with
  | zero => simpa [beginningOfLineAux] using h
  | succ f ih =>
    simp only [beginningOfLineAux]
    split
    · rename_i hc
      simp only [Bool.and_eq_true, bne_iff_ne, ne_eq] at hc
      omega
    · split
      · omega
      · exact ih _ (by omega)

theorem beginningOfLine_le (b : Bytes) (p bg : Nat) (hp : p < b.length)
    (h : beginningOfLine b p = some bg) : bg ≤ p := by
  unfold beginningOfLine at h
  split at h
  · cases h
  · simp only [Option.some.injEq] at h
    subst h
    apply beginningOfLineAux_le
    split <;> omega

/-- the quote of a position inside the file is cut out of the file, from a begin at or before the position
    to an end inside the file that is not before the position's line (at most the one '\r' of a CRLF pair back) -/
theorem quote_is_slice (b : Bytes) (p : Nat) (hp : p < b.length) (q : Bytes) (h : quote b p = some q) :
    ∃ bg en, bg ≤ p ∧ p ≤ en + 1 ∧ en ≤ b.length ∧ bg ≤ en ∧
      (q = trimSpacesFromLeft ((b.drop bg).take (en - bg)) ∨
       (200 < en - bg ∧ q = trimSpacesFromLeft ((b.drop bg).take 197) ++ [46, 46, 46])) := by
  unfold quote at h
  split at h
  · rename_i he; simp at he; subst he; simp at hp
  · split at h
    · cases h
    · rename_i bg hbg
      have h1 := beginningOfLine_le b p bg hp hbg
      have h2 := endOfLine_le_length b p (by omega)
      have h3 := endOfLine_ge b p
      refine ⟨bg, endOfLine b p, h1, h3, h2, ?_⟩
      simp only at h
      repeat' split at h
      all_goals cases h
      all_goals refine ⟨by omega, ?_⟩
      · right; exact ⟨by omega, rfl⟩
      · left; rfl

/-- non-vacuity: a CRLF file, position in the second line -/
example : quote (strBytes "ab\r\n  cd\r\nef") 7 = some (strBytes "cd") := by decide +kernel

/-! ### Locating never panics -/

theorem bolAux_spec (b : Array UInt8) (nl : UInt8) (index fuel i : Nat) (hf : i < fuel) :
    let r := beginningOfLineAux b nl index fuel i
    r ≤ i + 1 ∧ (r = 0 ∨ b.getD (r - 1) 0 = nl) := by
  induction fuel generalizing i with
  | zero => omega
  | succ f ih =>
    simp only [beginningOfLineAux]
    split
    · rename_i hc
      simp only [Bool.and_eq_true, beq_iff_eq] at hc
      exact ⟨by omega, Or.inr (by simpa using hc.1)⟩
    · split
      · exact ⟨by omega, Or.inl rfl⟩
      · rename_i h0
        simp only [beq_iff_eq] at h0
        have := ih (i - 1) (by omega)
        exact ⟨by omega, this.2⟩

theorem endOfLine_cases (b : Bytes) (p : Nat) :
    ∃ ie, p ≤ ie ∧ (endOfLine b p = ie ∨
      (0 < ie ∧ endOfLine b p = ie - 1 ∧ ∃ c, b[ie - 1]? = some c ∧ c ≠ newLineSymbol b)) := by
  unfold endOfLine
  simp only
  generalize hie : (if p ≥ b.length then p else p + ((b.drop p).takeWhile (· != newLineSymbol b)).length) = ie
  have hp : p ≤ ie := by subst hie; split <;> omega
  refine ⟨ie, hp, ?_⟩
  split
  · split
    · rename_i c hc
      split
      · rename_i hcond
        right
        refine ⟨by omega, rfl, c, hc, ?_⟩
        intro heq
        subst heq
        rcases (by simpa using hcond : _ ∨ _) with ⟨h1, h2⟩ | ⟨h1, h2⟩
        · rw [h1] at h2; cases h2
        · rw [h1] at h2; cases h2
      · left; rfl
    · left; rfl
  · left; rfl

/-- **C07/C01 (locating never panics)**: for a non-empty or empty file and every position up to and
    including the end-of-file position, `jerr.quote` reaches none of its panic sites (index out of range in
    BeginningOfLine, slice bounds in Sub: begin ≤ end ≤ length holds, also after the CR of a CRLF pair is cut) -/
theorem quote_total (b : Bytes) (p : Nat) (hp : p ≤ b.length) : (quote b p).isSome = true := by
  unfold quote
  split
  · rfl
  · rename_i hne
    have hlen : 0 < b.length := by
      cases b with
      | nil => simp at hne
      | cons _ _ => simp
    unfold beginningOfLine
    have hl0 : (b.length == 0) = false := by cases b <;> simp_all
    simp only [hl0, Bool.false_eq_true, if_false]
    generalize hi : (if p > b.length - 1 then b.length - 1 else p) = i
    have hile : i ≤ b.length - 1 ∧ i ≤ p := by subst hi; split <;> omega
    have hs := bolAux_spec b.toArray (newLineSymbol b) p (b.length + 1) i (by omega)
    have hbp := beginningOfLineAux_le b.toArray (newLineSymbol b) p (b.length + 1) i hile.2
    generalize beginningOfLineAux b.toArray (newLineSymbol b) p (b.length + 1) i = bg at hs hbp
    simp only at hs
    have hen := endOfLine_le_length b p hp
    obtain ⟨ie, hpie, hcase⟩ := endOfLine_cases b p
    have hbe : bg ≤ endOfLine b p := by
      rcases hcase with h | ⟨h0, h, c, hc, hcn⟩
      · omega
      · by_cases hlt : bg ≤ ie - 1
        · omega
        · have hbg : bg = ie := by omega
          rcases hs.2 with hz | hz
          · omega
          · exfalso
            subst hbg
            apply hcn
            have : b.toArray.getD (bg - 1) 0 = c := by
              simp [Array.getD_eq_getD_getElem?, hc]
            rw [← this, hz]
    generalize endOfLine b p = en at hen hbe
    repeat' split
    all_goals first | rfl | omega

/-- `jerr.NewLocation` is total for every position up to the end of the file -/
theorem newLocation_total (b : Bytes) (p : Nat) (hp : p ≤ b.length) : (newLocation b p).isSome = true := by
  have h := quote_total b p hp
  unfold newLocation
  cases hq : quote b p with
  | none => rw [hq] at h; cases h
  | some q => rfl

/-- non-vacuity: end-of-file position right after a CRLF, where end-1 meets begin -/
example : newLocation (strBytes "a\r\n\r\n") 5 = some ⟨5, 3, 1, []⟩ := by decide +kernel

/-! ### Small facts: the new-line symbol is LF or CR; lines and columns start at 1 -/

theorem newLineSymbolAux_mem (b : Bytes) (nl : UInt8) (f : Bool) (h : nl = 10 ∨ nl = 13) :
    newLineSymbolAux b nl f = 10 ∨ newLineSymbolAux b nl f = 13 := by
  induction b generalizing nl f with
  | nil => simpa [newLineSymbolAux] using h
  | cons c rest ih =>
    simp only [newLineSymbolAux]
    split
    · rename_i hc
      exact ih c true (by simpa using hc)
    · split
      · exact h
      · exact ih nl f h

/-- the new-line symbol of a file is LF or CR -/
theorem newLineSymbol_mem (b : Bytes) : newLineSymbol b = 10 ∨ newLineSymbol b = 13 :=
  newLineSymbolAux_mem b 10 false (Or.inl rfl)

/-- line and column of every position of a non-empty file, end of file included, are at least 1 -/
theorem lineAndColumnEof_pos (b : Bytes) (hb : b ≠ []) (p : Nat) (hp : p ≤ b.length) :
    1 ≤ (lineAndColumnEof b p).1 ∧ 1 ≤ (lineAndColumnEof b p).2 := by
  by_cases h : p < b.length
  · rw [lineAndColumnEof_inside b p h]
    simp [specLine, specCol]
  · have : p = b.length := by omega
    subst this
    rw [lineAndColumnEof_end b hb]
    simp [specLine, specCol]

end JsightVerif.Props.C07
