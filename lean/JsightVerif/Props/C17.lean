/-
  C17 — OpenAPI export: every HTTP interaction appears as paths[path][method].
  Model of catalog/ser/openapi/paths.go + path_item.go (`assignOperation`): interactions are
  folded into the two-level map path ↦ method ↦ operation, seen as a function on (path, method).
  With interaction ids unique (C05) no operation is overwritten, hence none is lost.  Panic
  freedom and the structural checks ($ref closure, required path parameters, response keys,
  components) are evaluated on the real export of every accepted build (`build` op); panics of
  the converter of jsight-schema-core are turned into error values since fix 609c125.
-/
namespace JsightVerif.Props.C17

abbrev Paths := String × String → Option Nat   -- (path, method) ↦ operation (payload: its index)

/-- PathItem.assignOperation: sets (overwrites) the operation of that method in that path item -/
def assign (ps : Paths) (key : String × String) (op : Nat) : Paths :=
  fun k => if k = key then some op else ps k

def build : List (String × String) → Nat → Paths → Paths
  | [], _, ps => ps
  | key :: rest, i, ps => build rest (i + 1) (assign ps key i)

theorem build_keeps (l : List (String × String)) (key : String × String) (v : Option Nat) (j : Nat) (qs : Paths)
    (hnot : key ∉ l) (h : qs key = v) : build l j qs key = v := by
  induction l generalizing j qs with
  | nil => simpa [build] using h
  | cons e rest ih =>
    simp only [build]
    apply ih
    · intro hm; exact hnot (List.mem_cons_of_mem _ hm)
    · have : key ≠ e := fun he => hnot (by simp [he])
      simp [assign, this, h]

/-- **C17 (presence)**: when the (path, method) pairs of the interactions are pairwise distinct
    (interaction ids are unique), after the fold every interaction is found at paths[path][method]
    with its own operation. -/
theorem every_interaction_present (l : List (String × String)) (hd : l.Nodup) (i0 : Nat) (ps : Paths) :
    ∀ k (hk : k < l.length), build l i0 ps l[k] = some (i0 + k) := by
  induction l generalizing i0 ps with
  | nil => intro k hk; simp at hk
  | cons e rest ih =>
    have hnd := List.nodup_cons.mp hd
    intro k hk
    simp only [build]
    cases k with
    | zero => simpa using build_keeps rest e (some i0) (i0 + 1) _ hnd.1 (by simp [assign])
    | succ k' =>
      simp only [List.getElem_cons_succ]
      have := ih hnd.2 (i0 + 1) (assign ps e i0) k' (by simpa using hk)
      rw [this]; congr 1; omega

/-- conversely, with a repeated (path, method) the earlier operation is lost: uniqueness of
    interaction ids is what the presence theorem rests on -/
example : build [("/a", "get"), ("/a", "get")] 0 (fun _ => none) ("/a", "get") = some 1 := by decide
example : build [("/a", "get"), ("/a", "post"), ("/b", "get")] 0 (fun _ => none) ("/a", "post") = some 1 := by decide

end JsightVerif.Props.C17
