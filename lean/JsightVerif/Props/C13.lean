import JsightVerif.Proofs.Keyword
import JsightVerif.Spec.Keywords
import JsightVerif.Proofs.ScanBan
/-
  C13 — exactly the language's keywords are recognised as directives.
  All statements are about the *regenerated* scanner table `Gen.prog` and the
  *regenerated* directive table; they are re-checked by the kernel on every run.
-/
namespace JsightVerif.Props.C13
open JsightVerif.Model JsightVerif.Gen JsightVerif.Spec

/-- acceptance of a word as a directive keyword by the scanner's letter states:
    `some r` = accepted, `r` is the state pushed for what follows the parameters -/
def accepts (w : Bytes) : Option St :=
  kwAccepts Gen.prog .stateExpectKeyword .stateParameterOrAnnotation w

/-- the exhaustive exploration (all 256 bytes at every letter state) terminates with a finite language -/
def lang : Option (List (Bytes × St)) :=
  kwExplore Gen.prog .stateExpectKeyword .stateParameterOrAnnotation 14

def subsetB (a b : List Bytes) : Bool := a.all (fun x => b.contains x)

/-- the explored language and the directive table's keyword list are the same set -/
theorem lang_is_keywords :
    ∃ L, lang = some L ∧ subsetB (L.map (·.1)) keywordWords = true ∧ subsetB keywordWords (L.map (·.1)) = true := by
  decide +kernel

/-- **C13 (language)**: for words of every length, the scanner accepts `w` as a keyword
    iff `w` is one of the directive table's keywords or a response code 100–599. -/
theorem C13_language (w : Bytes) : (accepts w).isSome ↔ w ∈ keywordWords := by
  obtain ⟨L, hL, h1, h2⟩ := lang_is_keywords
  have spec := kwExplore_spec Gen.prog .stateExpectKeyword .stateParameterOrAnnotation 14 L hL w
  constructor
  · intro h
    obtain ⟨r, hr⟩ := Option.isSome_iff_exists.mp h
    have hm : (w, r) ∈ L := (spec r).mp hr
    have : w ∈ L.map (·.1) := List.mem_map.mpr ⟨(w, r), hm, rfl⟩
    simp only [subsetB, List.all_eq_true] at h1
    simpa using h1 w this
  · intro h
    simp only [subsetB, List.all_eq_true] at h2
    have : w ∈ L.map (·.1) := by simpa using h2 w h
    obtain ⟨⟨w', r⟩, hm, rfl⟩ := List.mem_map.mp this
    exact Option.isSome_iff_exists.mpr ⟨r, (spec r).mpr hm⟩

/-- every accepted keyword is known to the directive table … -/
theorem C13_accepted_known :
    ∃ L, lang = some L ∧ (L.all fun wr => (newDirectiveType wr.1).isSome) = true := by
  decide +kernel

theorem C13_tables_agree (w : Bytes) (h : (accepts w).isSome) : (newDirectiveType w).isSome := by
  obtain ⟨L, hL, hall⟩ := C13_accepted_known
  obtain ⟨r, hr⟩ := Option.isSome_iff_exists.mp h
  have hm := (kwExplore_spec Gen.prog .stateExpectKeyword .stateParameterOrAnnotation 14 L hL w r).mp hr
  simp only [List.all_eq_true] at hall
  exact hall (w, r) hm

/-- … and every kind of the table is reachable through some accepted word -/
theorem C13_all_kinds_reachable :
    (Kind.all.all fun k => keywordWords.any fun w => newDirectiveType w == some k) = true := by
  decide +kernel

/-- terminator set: after a keyword the next byte is accepted iff it is blank, a line end,
    end of file, `#` or `/` (decided over all 256 bytes) -/
def terminatorOk (c : UInt8) : Bool :=
  match simpleEval c (Gen.prog .stateParameterOrAnnotation) with
  | .failChar _ _ _ => false
  | .failBasic _ _ => false
  | _ => true

theorem C13_terminator :
    (allBytes.all fun c => terminatorOk c == (c == 32 || c == 9 || c == 10 || c == 13 || c == 0 || c == 35 || c == 47)) = true := by
  decide +kernel

/-- non-vacuity: concrete accepted and rejected words -/
example : accepts (strBytes "OperationId") = some .stateExpectKeyword := by decide +kernel
example : accepts (strBytes "404") = some .stateResponseBodyOrKeyword := by decide +kernel
example : accepts (strBytes "Operationid") = none := by decide +kernel
example : accepts (strBytes "600") = none := by decide +kernel
example : accepts (strBytes "GETX") = none := by decide +kernel

/-! ### the whole scanning stage (Proofs/ScanBan.lean) -/

/-- **C13 (every project)**: whatever the files, the include graph and the fuel — every directive of the
    forest the scanning stage produces was created from a keyword text of the directive table, and its
    kind is the one the table gives to that text (`directive.NewDirectiveType`): nothing else ever
    becomes a directive, in the root file, in INCLUDEd files or in MACRO bodies. -/
theorem C13_scanned_forest_keywords (fsys : FileSys) (n : Nat) (rootName : Bytes) (content : Array UInt8)
    (lenAt : BodyKind → Nat → LenAnswer) (banned : List Kind) (c' : Core)
    (h : Core.run fsys n { current := { name := rootName, env := mkEnv content lenAt, sc := Sc.init .stateRoot }, banned := banned } = .ok c') :
    Tree.allList kindOfKeyword c'.ctx.forest = true :=
  scan_forest_keywords fsys n rootName (mkEnv content lenAt) banned c' h

end JsightVerif.Props.C13
