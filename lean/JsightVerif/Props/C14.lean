import JsightVerif.Model.Project
/-
  C14 — INCLUDE only reads inside the project.
  `validateIncludeFileName`, `joinDir` and `Core.processInclude` are the hand model of
  core/include.go (tied by the `proj` and `name` correspondence ops and the file-access observer).
-/
namespace JsightVerif.Props.C14
open JsightVerif.Model JsightVerif.Gen

def dot : Bytes := [46]
def dotdot : Bytes := [46, 46]

/-- the specification of a safe INCLUDE parameter -/
def safe (n : Bytes) : Prop :=
  n ≠ [] ∧ n.head? ≠ some 47 ∧ 92 ∉ n ∧ ∀ seg ∈ splitOn47 n, seg ≠ dot ∧ seg ≠ dotdot

/-- **C14 (names)**: whatever the parameter says, a name that passes validation is safe:
    not empty, not absolute, no backslash, no `.` or `..` path segment — for all byte strings. -/
theorem C14_name (n : Bytes) (h : validateIncludeFileName n = .ok ()) : safe n := by
  unfold validateIncludeFileName at h
  cases n with
  | nil => simp at h
  | cons c rest =>
    simp only at h
    by_cases h1 : c == 47
    · simp [h1] at h
    · simp only [h1, Bool.false_eq_true, if_false] at h
      by_cases h2 : ((splitOn47 (c :: rest)).any fun seg => seg == [46] || seg == [46, 46]) = true
      · simp [h2] at h
      · simp only [h2, Bool.false_eq_true, if_false] at h
        split at h
        · simp at h
        · by_cases h4 : (c :: rest).contains 92 = true
          · simp_all
          · refine ⟨by simp, ?_, ?_, ?_⟩
            · simpa using h1
            · simpa using h4
            · intro seg hseg
              simp only [List.any_eq_true, not_exists, not_and, Bool.or_eq_true, beq_iff_eq] at h2
              have := h2 seg hseg
              simp only [dot, dotdot]
              constructor
              · intro he; exact this (Or.inl he)
              · intro he; exact this (Or.inr he)

/-! ### the resolved path stays below the including file's directory -/

/-- a cleaned relative directory: no empty, `.` or `..` segments -/
def CleanDir (d : List Bytes) : Prop := ∀ s ∈ d, s ≠ [] ∧ s ≠ dot ∧ s ≠ dotdot

theorem cleanStep_empty (acc : List Bytes) : cleanStep acc [] = acc := by simp [cleanStep]

theorem cleanStep_plain (acc : List Bytes) (s : Bytes) (h0 : s ≠ []) (h1 : s ≠ dot) (h2 : s ≠ dotdot) :
    cleanStep acc s = s :: acc := by
  have a : (s == [] || s == [46]) = false := by
    simp only [Bool.or_eq_false_iff, beq_eq_false_iff_ne]; exact ⟨h0, h1⟩
  have b : (s == [46, 46]) = false := by simp only [beq_eq_false_iff_ne]; exact h2
  simp only [cleanStep, a, b, Bool.false_eq_true, if_false]

/-- folding clean-step over segments without `.`/`..` only pushes the non-empty ones -/
theorem cleanFold_noDots (acc : List Bytes) (p : List Bytes) (hp : ∀ s ∈ p, s ≠ dot ∧ s ≠ dotdot) :
    p.foldl cleanStep acc = (p.filter (· ≠ [])).reverse ++ acc := by
  induction p generalizing acc with
  | nil => simp
  | cons s rest ih =>
    have hs := hp s (by simp)
    have hrest : ∀ t ∈ rest, t ≠ dot ∧ t ≠ dotdot := fun t ht => hp t (by simp [ht])
    simp only [List.foldl_cons]
    by_cases he : s = []
    · subst he
      rw [cleanStep_empty, ih _ hrest]
      simp
    · rw [cleanStep_plain acc s he hs.1 hs.2, ih _ hrest]
      simp [List.filter_cons, he]

/-- **C14 (inside)**: for a safe name, the path handed to the file system is the including
    file's (cleaned) directory followed by the name's non-empty segments: never above or beside it. -/
theorem C14_inside (dir : List Bytes) (name : Bytes) (hd : CleanDir dir) (hs : safe name) :
    cleanSegs (dir ++ splitOn47 name) = dir ++ (splitOn47 name).filter (· ≠ []) := by
  unfold cleanSegs
  rw [List.foldl_append]
  have hdir : ∀ s ∈ dir, s ≠ dot ∧ s ≠ dotdot := fun s h => ⟨(hd s h).2.1, (hd s h).2.2⟩
  rw [cleanFold_noDots [] dir hdir]
  rw [cleanFold_noDots _ (splitOn47 name) hs.2.2.2]
  have : dir.filter (· ≠ []) = dir := List.filter_eq_self.mpr (fun s h => by simpa using (hd s h).1)
  rw [this]
  simp

/-- refused names never reach the file system: the only place `processInclude` records an access
    is after `validateIncludeFileName` has answered ok (by inspection of the model this is the
    `.ok ()` branch); stated on the validation function: an unsafe name is refused. -/
theorem C14_unsafe_refused (n : Bytes) (h : ¬ safe n) : ∃ e, validateIncludeFileName n = .error e := by
  cases hv : validateIncludeFileName n with
  | error e => exact ⟨e, rfl⟩
  | ok u => cases u; exact absurd (C14_name n hv) h

/-! ### the whole scanning stage: every file access is `joinDir includer validated-name` -/

/-- the file names a project can reach: the root, and `joinDir N name` for a reachable includer `N`
    and a parameter `name` that passes validation -/
inductive Reach (root : Bytes) : Bytes → Prop
  | root : Reach root root
  | step (N name : Bytes) : Reach root N → validateIncludeFileName name = .ok () → Reach root (joinDir N name)

/-- an access the model records: to a reachable name other than by being the root, i.e. resolved from a
    reachable includer and a validated parameter -/
def AccessOk (root : Bytes) (a : String × Bytes) : Prop :=
  ∃ N name, Reach root N ∧ validateIncludeFileName name = .ok () ∧ a.2 = joinDir N name

/-- invariant of the scanning loop -/
def IncInv (root : Bytes) (c : Core) : Prop :=
  Reach root c.current.name ∧ (∀ p ∈ c.suspended, Reach root p.1.name) ∧ ∀ a ∈ c.accesses, AccessOk root a

/-- outcome of a step: the invariant again, or an error whose recorded accesses are all of that form -/
def ResInv (root : Bytes) (r : Except PFault Core) : Prop :=
  (∀ c', r = .ok c' → IncInv root c') ∧ (∀ e, r = .error (.err e) → ∀ a ∈ e.acc, AccessOk root a)

theorem processCurrent_inc (root : Bytes) (c : Core) (hc : IncInv root c) : ResInv root c.processCurrent := by
  constructor
  · intro c' h
    unfold Core.processCurrent at h
    repeat' split at h
    all_goals first | (cases h; done) | (cases h; exact hc)
  · intro e h
    unfold Core.processCurrent at h
    repeat' split at h
    all_goals first | (cases h; done) | (cases h; exact hc.2.2)

theorem tracerFor_inc (root : Bytes) (c : Core) (h : IncInv root c) : IncInv root c.tracerFor.2 := by
  unfold Core.tracerFor
  repeat' split
  all_goals exact h

theorem onLexeme_inc (root : Bytes) (c : Core) (l : Lexeme) (hc : IncInv root c) : ResInv root (c.onLexeme l) := by
  have hp := processCurrent_inc root c hc
  constructor
  · intro c' h
    unfold Core.onLexeme at h
    split at h
    · split at h
      · cases h
      · rename_i c1 hp1
        have h1 := hp.1 c1 hp1
        repeat' split at h
        all_goals first
          | (cases h; done)
          | (rename_i htf; cases h
             have ht := tracerFor_inc root c1 h1
             rw [htf] at ht
             exact ht)
    all_goals (repeat' split at h)
    all_goals first
      | (cases h; done)
      | (cases h; exact hc)
      | skip
    all_goals (cases h; have h1 := hp.1 _ ‹c.processCurrent = Except.ok _›; exact h1)
  · intro e h
    unfold Core.onLexeme at h
    split at h
    · split at h
      · rename_i f hp1
        cases h
        exact hp.2 e hp1
      · rename_i c1 hp1
        have h1 := hp.1 c1 hp1
        repeat' split at h
        all_goals first
          | (cases h; done)
          | (cases h; exact h1.2.2)
    all_goals (repeat' split at h)
    all_goals first
      | (cases h; done)
      | (cases h; exact hc.2.2)
      | skip
    all_goals first
      | (cases h; exact hp.2 e ‹c.processCurrent = Except.error _›)
      | (cases h; have h1 := hp.1 _ ‹c.processCurrent = Except.ok _›; exact h1.2.2)

theorem onEOF_inc (root : Bytes) (c : Core) (hc : IncInv root c) : ResInv root c.onEOF := by
  have hp := processCurrent_inc root c hc
  constructor
  · intro c' h
    unfold Core.onEOF at h
    split at h
    · cases h
    · rename_i c1 hp1
      split at h
      · cases h
      · cases h; have h1 := hp.1 _ ‹c.processCurrent = Except.ok _›; exact h1
  · intro e h
    unfold Core.onEOF at h
    split at h
    · rename_i f hp1
      cases h; exact hp.2 e hp1
    · split at h
      · cases h; have h1 := hp.1 _ ‹c.processCurrent = Except.ok _›; exact h1.2.2
      · cases h

/-- **C14 (accesses of one INCLUDE)**: `processInclude` consults the file system only after the parameter
    has passed validation, and only with `joinDir includer parameter` -/
theorem processInclude_inc (root : Bytes) (c : Core) (fsys : FileSys) (kw : Lexeme) (hc : IncInv root c) :
    ResInv root (c.processInclude fsys kw) := by
  have key : ∀ raw : Bytes, validateIncludeFileName (unquote raw) = .ok () →
      (∀ a ∈ ("stat", joinDir c.current.name (unquote raw)) :: c.accesses, AccessOk root a) ∧
      (∀ a ∈ ("read", joinDir c.current.name (unquote raw)) :: ("stat", joinDir c.current.name (unquote raw)) :: c.accesses, AccessOk root a) ∧
      Reach root (joinDir c.current.name (unquote raw)) := by
    intro raw hval
    have hacc : ∀ op : String, AccessOk root (op, joinDir c.current.name (unquote raw)) :=
      fun _ => ⟨c.current.name, unquote raw, hc.1, hval, rfl⟩
    refine ⟨?_, ?_, Reach.step _ _ hc.1 hval⟩
    · intro a ha
      rcases List.mem_cons.mp ha with rfl | ha
      · exact hacc _
      · exact hc.2.2 a ha
    · intro a ha
      rcases List.mem_cons.mp ha with rfl | ha
      · exact hacc _
      · rcases List.mem_cons.mp ha with rfl | ha
        · exact hacc _
        · exact hc.2.2 a ha
  constructor
  · intro c' h
    simp only [Core.processInclude] at h
    repeat' split at h
    all_goals first
      | (cases h; done)
      | (cases h
         obtain ⟨_, h2, h3⟩ := key _ ‹validateIncludeFileName (unquote _) = Except.ok PUnit.unit›
         refine ⟨h3, ?_, h2⟩
         intro p hp
         rcases List.mem_cons.mp hp with rfl | hp
         · exact hc.1
         · exact hc.2.1 p hp)
  · intro e h
    simp only [Core.processInclude] at h
    repeat' split at h
    all_goals first
      | (cases h; done)
      | (cases h; exact hc.2.2)
      | (cases h; exact (key _ ‹validateIncludeFileName (unquote _) = Except.ok PUnit.unit›).1)
      | (cases h; exact (key _ ‹validateIncludeFileName (unquote _) = Except.ok PUnit.unit›).2.1)
      | (rename_i f _; cases f <;> simp only [scanFault] at h <;> cases h <;> exact hc.2.2)

/-- **C14 (every access of the scanning stage)**: whatever the files, the include graph and the fuel,
    every `os.Stat` / `os.ReadFile` the scanning loop makes — those before a successful end as well as
    those before an error — is made with `joinDir N name`, where `N` is the root file or a file reached
    the same way and `name` is an INCLUDE parameter that passed `validateIncludeFileName` (so, by
    `C14_name`, not empty, not absolute, without backslash and without `.`/`..` segments; `C14_inside`
    says what `joinDir` makes of such a name below a clean directory). -/
theorem C14_all_accesses (fsys : FileSys) (n : Nat) (root : Bytes) : ∀ (c : Core), IncInv root c →
    ResInv root (Core.run fsys n c) := by
  induction n with
  | zero => intro c _; exact ⟨fun c' h => by simp [Core.run] at h, fun e h => by simp [Core.run] at h⟩
  | succ n ih =>
    intro c hc
    have hcur : ∀ (sc' : Sc St) (res : Bool),
        IncInv root ({ ({ c with current := { c.current with sc := sc' } } : Core) with resumed := res }) := fun _ _ => hc
    constructor
    · intro c' h
      simp only [Core.run] at h
      split at h
      · cases h
      · rename_i l sc' _
        split at h
        · cases h
        · split at h
          · split at h
            · cases h
            · rename_i c1 hinc
              exact (ih c1 ((processInclude_inc root _ fsys l (hcur sc' false)).1 c1 hinc)).1 c' h
          · split at h
            · cases h
            · rename_i c1 hon
              exact (ih c1 ((onLexeme_inc root _ l (hcur sc' false)).1 c1 hon)).1 c' h
      · rename_i sc' _
        split at h
        · cases h
        · rename_i c2 he
          have h2 := (onEOF_inc root _ (hcur sc' c.resumed)).1 c2 he
          split at h
          · cases h; exact h2
          · rename_i sfs at_ rest hsus
            refine (ih { c2 with current := sfs, suspended := rest, resumed := true } ⟨?_, ?_, h2.2.2⟩).1 c' h
            · exact h2.2.1 (sfs, at_) (by rw [hsus]; simp)
            · intro p hpm
              exact h2.2.1 p (by rw [hsus]; exact List.mem_cons_of_mem _ hpm)
    · intro e h
      simp only [Core.run] at h
      split at h
      · rename_i f _
        cases f <;> simp only [scanFault] at h <;> cases h
        exact hc.2.2
      · rename_i l sc' _
        split at h
        · rename_i tf heq
          split at heq
          · split at heq
            all_goals first | (cases heq; cases h; exact hc.2.2) | (cases heq; done)
          · cases heq
        · split at h
          · split at h
            · rename_i f hinc
              cases h
              exact (processInclude_inc root _ fsys l (hcur sc' false)).2 e hinc
            · rename_i c1 hinc
              exact (ih c1 ((processInclude_inc root _ fsys l (hcur sc' false)).1 c1 hinc)).2 e h
          · split at h
            · rename_i f hon
              cases h
              exact (onLexeme_inc root _ l (hcur sc' false)).2 e hon
            · rename_i c1 hon
              exact (ih c1 ((onLexeme_inc root _ l (hcur sc' false)).1 c1 hon)).2 e h
      · rename_i sc' _
        split at h
        · rename_i f he
          cases h
          exact (onEOF_inc root _ (hcur sc' c.resumed)).2 e he
        · rename_i c2 he
          have h2 := (onEOF_inc root _ (hcur sc' c.resumed)).1 c2 he
          split at h
          · cases h
          · rename_i sfs at_ rest hsus
            refine (ih { c2 with current := sfs, suspended := rest, resumed := true } ⟨?_, ?_, h2.2.2⟩).2 e h
            · exact h2.2.1 (sfs, at_) (by rw [hsus]; simp)
            · intro p hpm
              exact h2.2.1 p (by rw [hsus]; exact List.mem_cons_of_mem _ hpm)

/-- the initial core of a project satisfies the invariant -/
theorem incInv_init (root : Bytes) (env : Env) (banned : List Kind) :
    IncInv root { current := { name := root, env := env, sc := Sc.init .stateRoot }, banned := banned } :=
  ⟨Reach.root, (fun p hp => by cases hp), (fun a ha => by cases ha)⟩

/-- **C14 (project)**: the same for the core as `kit.NewJapi` starts it on a root file -/
theorem C14_project_accesses (fsys : FileSys) (n : Nat) (rootName : Bytes) (content : Array UInt8)
    (lenAt : BodyKind → Nat → LenAnswer) (banned : List Kind) :
    (∀ c', Core.run fsys n { current := { name := rootName, env := mkEnv content lenAt, sc := Sc.init .stateRoot }, banned := banned } = .ok c' →
        ∀ a ∈ c'.accesses, AccessOk rootName a) ∧
    (∀ e, Core.run fsys n { current := { name := rootName, env := mkEnv content lenAt, sc := Sc.init .stateRoot }, banned := banned } = .error (.err e) →
        ∀ a ∈ e.acc, AccessOk rootName a) := by
  have := C14_all_accesses fsys n rootName _ (incInv_init rootName (mkEnv content lenAt) banned)
  exact ⟨fun c' h => (this.1 c' h).2.2, this.2⟩

/-- **C14 (cycle)**: an INCLUDE reached while the including file's own name is already on the stack of
    suspended files is refused with the recursion error, at that INCLUDE, whatever the file is — the
    include graph can therefore never be entered twice along one chain (a cycle of any length is an error) -/
theorem C14_cycle_refused (c : Core) (fsys : FileSys) (kw : Lexeme) (c' : Core)
    (hcyc : c.suspended.any (fun s => s.1.name == c.current.name) = true) :
    c.processInclude fsys kw ≠ .ok c' := by
  intro h
  simp only [Core.processInclude] at h
  repeat' split at h
  all_goals first
    | (cases h; done)
    | (rename_i hno; exact hno hcyc)

/-! ### what `joinDir` hands to the file system: a path below the root file's directory -/

theorem sp_nil : splitOn47 [] = [[]] := rfl

theorem sp_cons (c : UInt8) (t : Bytes) :
    splitOn47 (c :: t) = if c == 47 then [] :: splitOn47 t
      else ((c :: (splitOn47 t).headD []) :: (splitOn47 t).tail) := by
  simp only [splitOn47, List.foldr_cons]
  split <;> simp

theorem sp_ne_nil (b : Bytes) : splitOn47 b ≠ [] := by
  cases b with
  | nil => simp [sp_nil]
  | cons c t => rw [sp_cons]; split <;> simp

theorem sp_head_tail (b : Bytes) : splitOn47 b = (splitOn47 b).headD [] :: (splitOn47 b).tail := by
  have := sp_ne_nil b
  cases h : splitOn47 b with
  | nil => exact absurd h this
  | cons x xs => rfl

/-- splitting at a separator splits the segment lists -/
theorem sp_append_sep (a b : Bytes) : splitOn47 (a ++ 47 :: b) = splitOn47 a ++ splitOn47 b := by
  induction a with
  | nil => simp [sp_cons, sp_nil]
  | cons c a' ih =>
    simp only [List.cons_append]
    rw [sp_cons, sp_cons c a', ih]
    split
    · simp
    · rw [sp_head_tail a']
      simp

theorem sp_no47 (s : Bytes) (h : 47 ∉ s) : splitOn47 s = [s] := by
  induction s with
  | nil => rfl
  | cons c t ih =>
    have hc : c ≠ 47 := fun e => h (by simp [e])
    have ht : 47 ∉ t := fun e => h (by simp [e])
    rw [sp_cons, ih ht]
    simp [hc]

theorem sp_segs_no47 (b : Bytes) : ∀ s ∈ splitOn47 b, 47 ∉ s := by
  induction b with
  | nil => intro s hs; simp [sp_nil] at hs; subst hs; simp
  | cons c t ih =>
    intro s hs
    rw [sp_cons] at hs
    split at hs
    · rcases List.mem_cons.mp hs with rfl | hs
      · simp
      · exact ih s hs
    · rename_i hc
      rcases List.mem_cons.mp hs with rfl | hs
      · have hh : 47 ∉ (splitOn47 t).headD [] := by
          have := sp_head_tail t
          exact ih _ (by rw [this]; simp)
        intro hm
        rcases List.mem_cons.mp hm with e | e
        · exact hc (by simp [← e])
        · exact hh e
      · exact ih s (List.mem_of_mem_tail hs)

theorem sp_foldl_join (acc : Bytes) (rest : List Bytes) (h : ∀ s ∈ rest, 47 ∉ s) :
    splitOn47 (rest.foldl (fun acc x => acc ++ [47] ++ x) acc) = splitOn47 acc ++ rest := by
  induction rest generalizing acc with
  | nil => simp
  | cons x xs ih =>
    simp only [List.foldl_cons]
    rw [ih _ (fun s hs => h s (by simp [hs]))]
    have : acc ++ [47] ++ x = acc ++ 47 :: x := by simp
    rw [this, sp_append_sep, sp_no47 x (h x (by simp))]
    simp

/-- joining segments without separators and splitting again gives the segments back -/
theorem sp_joinSegs (L : List Bytes) (hne : L ≠ []) (h : ∀ s ∈ L, 47 ∉ s) : splitOn47 (joinSegs L) = L := by
  cases L with
  | nil => exact absurd rfl hne
  | cons s rest =>
    simp only [joinSegs]
    rw [sp_foldl_join s rest (fun x hx => h x (by simp [hx])), sp_no47 s (h s (by simp))]
    simp

theorem cleanSegs_clean (L : List Bytes) (h : CleanDir L) : cleanSegs L = L := by
  unfold cleanSegs
  rw [cleanFold_noDots [] L (fun s hs => ⟨(h s hs).2.1, (h s hs).2.2⟩)]
  have : L.filter (· ≠ []) = L := List.filter_eq_self.mpr (fun s hs => by simpa using (h s hs).1)
  rw [this]; simp

/-- a path below the directory of the root file: its segments are those of the root's directory followed
    by at least one more, none of them empty, `.` or `..` -/
def PathInside (root N : Bytes) : Prop :=
  ∃ tail, tail ≠ [] ∧ splitOn47 N = (splitOn47 root).dropLast ++ tail ∧ CleanDir ((splitOn47 root).dropLast ++ tail)

theorem safe_first_segment (name : Bytes) (hs : safe name) : (splitOn47 name).filter (· ≠ []) ≠ [] := by
  obtain ⟨hne, hhead, _, _⟩ := hs
  cases name with
  | nil => exact absurd rfl hne
  | cons c t =>
    have hc : c ≠ 47 := by simpa using hhead
    rw [sp_cons]
    simp [hc]

/-- **C14 (inside, every project)**: if the root file's path is clean, every file name the project can
    reach — and so every path handed to `os.Stat` / `os.ReadFile` by `C14_project_accesses` — lies below
    the directory of the root file: no INCLUDE chain, however long, leaves it. -/
theorem C14_reach_inside (root : Bytes) (hroot : CleanDir (splitOn47 root)) (N : Bytes) (h : Reach root N) :
    PathInside root N := by
  induction h with
  | root =>
    refine ⟨[(splitOn47 root).getLast (sp_ne_nil root)], by simp, ?_, ?_⟩
    · exact (List.dropLast_concat_getLast (sp_ne_nil root)).symm
    · rw [List.dropLast_concat_getLast (sp_ne_nil root)]; exact hroot
  | step N name _ hval ih =>
    obtain ⟨tail, htne, hsp, hclean⟩ := ih
    have hsafe := C14_name name hval
    have hN : cleanSegs (splitOn47 N) = splitOn47 N := cleanSegs_clean _ (by rw [hsp]; exact hclean)
    have hdrop : (splitOn47 N).dropLast = (splitOn47 root).dropLast ++ tail.dropLast := by
      rw [hsp, List.dropLast_append_of_ne_nil htne]
    have hdir : CleanDir ((splitOn47 root).dropLast ++ tail.dropLast) := by
      intro s hs
      apply hclean s
      rcases List.mem_append.mp hs with h1 | h1
      · exact List.mem_append_left _ h1
      · exact List.mem_append_right _ (List.dropLast_subset _ h1)
    have hF := safe_first_segment name hsafe
    have hjoin : joinDir N name = joinSegs ((splitOn47 root).dropLast ++ tail.dropLast ++ (splitOn47 name).filter (· ≠ [])) := by
      simp only [joinDir, hN, hdrop]
      rw [C14_inside _ name hdir hsafe]
    have hall47 : ∀ s ∈ (splitOn47 root).dropLast ++ tail.dropLast ++ (splitOn47 name).filter (· ≠ []), 47 ∉ s := by
      intro s hs
      rcases List.mem_append.mp hs with h1 | h1
      · rcases List.mem_append.mp h1 with h2 | h2
        · exact sp_segs_no47 root s (List.dropLast_subset _ h2)
        · have : s ∈ splitOn47 N := by rw [hsp]; exact List.mem_append_right _ (List.dropLast_subset _ h2)
          exact sp_segs_no47 N s this
      · exact sp_segs_no47 name s (List.mem_filter.mp h1).1
    refine ⟨tail.dropLast ++ (splitOn47 name).filter (· ≠ []), ?_, ?_, ?_⟩
    · intro he
      exact hF (List.append_eq_nil_iff.mp he).2
    · rw [hjoin, sp_joinSegs _ (by intro he; exact hF (List.append_eq_nil_iff.mp he).2) hall47, List.append_assoc]
    · rw [← List.append_assoc]
      intro s hs
      rcases List.mem_append.mp hs with h1 | h1
      · exact hdir s h1
      · have hm := List.mem_filter.mp h1
        exact ⟨by simpa using hm.2, (hsafe.2.2.2 s hm.1).1, (hsafe.2.2.2 s hm.1).2⟩

/-- **C14 (every project, every access)**: for a root file with a clean relative path, whatever the files,
    the include graph and the fuel, every path the scanning stage hands to `os.Stat` / `os.ReadFile` —
    before a successful end or before an error — lies below the directory of the root file. -/
theorem C14_project_accesses_inside (fsys : FileSys) (n : Nat) (rootName : Bytes) (content : Array UInt8)
    (lenAt : BodyKind → Nat → LenAnswer) (banned : List Kind) (hroot : CleanDir (splitOn47 rootName)) :
    (∀ c', Core.run fsys n { current := { name := rootName, env := mkEnv content lenAt, sc := Sc.init .stateRoot }, banned := banned } = .ok c' →
        ∀ a ∈ c'.accesses, PathInside rootName a.2) ∧
    (∀ e, Core.run fsys n { current := { name := rootName, env := mkEnv content lenAt, sc := Sc.init .stateRoot }, banned := banned } = .error (.err e) →
        ∀ a ∈ e.acc, PathInside rootName a.2) := by
  have key : ∀ a : String × Bytes, AccessOk rootName a → PathInside rootName a.2 := by
    rintro a ⟨N, name, hN, hval, ha⟩
    rw [ha]
    exact C14_reach_inside rootName hroot _ (Reach.step N name hN hval)
  have h := C14_project_accesses fsys n rootName content lenAt banned
  exact ⟨fun c' hc a ha => key a (h.1 c' hc a ha), fun e he a ha => key a (h.2 e he a ha)⟩

/-- non-vacuity: the root `proj/root.jst` including `sub/a.jst`, which includes `b.jst` -/
example : joinDir (strBytes "proj/root.jst") (strBytes "sub/a.jst") = strBytes "proj/sub/a.jst" := by decide +kernel
example : joinDir (strBytes "proj/sub/a.jst") (strBytes "b.jst") = strBytes "proj/sub/b.jst" := by decide +kernel
example : splitOn47 (strBytes "proj/sub/b.jst") = (splitOn47 (strBytes "proj/root.jst")).dropLast ++ [strBytes "sub", strBytes "b.jst"] := by
  decide +kernel

/-- non-vacuity and the repaired witnesses -/
def verdict (n : Bytes) : Option NameErr :=
  match validateIncludeFileName n with
  | .ok () => none
  | .error e => some e

example : verdict (strBytes "sub/d.jst") = none := by decide +kernel
example : verdict (strBytes "..") = some .up := by decide +kernel
example : verdict (strBytes ".") = some .up := by decide +kernel
example : verdict [] = some .empty := by decide +kernel
example : verdict (strBytes "/etc/passwd") = some .root := by decide +kernel
example : verdict (strBytes "a\\b") = some .sep := by decide +kernel
example : cleanSegs ([strBytes "sub"] ++ splitOn47 (strBytes "x//y.jst")) = [strBytes "sub", strBytes "x", strBytes "y.jst"] := by decide +kernel

end JsightVerif.Props.C14
