import JsightVerif.Model.Project
/-
  C14 — INCLUDE only reads inside the project.
  `validateIncludeFileName`, `joinDir` and `Core.processInclude` are the hand model of
  core/include.go (tied by the `proj` and `name` correspondence ops and the file-access observer).
-/
namespace JsightVerif.Props.C14
open JsightVerif.Model JsightVerif.Gen

def dot : Bytes := [46]
def dotdot : Bytes := [46, 46]

/-- the specification of a safe INCLUDE parameter -/
def safe (n : Bytes) : Prop :=
  n ≠ [] ∧ n.head? ≠ some 47 ∧ 92 ∉ n ∧ ∀ seg ∈ splitOn47 n, seg ≠ dot ∧ seg ≠ dotdot

/-- **C14 (names)**: whatever the parameter says, a name that passes validation is safe:
    not empty, not absolute, no backslash, no `.` or `..` path segment — for all byte strings. -/
theorem C14_name (n : Bytes) (h : validateIncludeFileName n = .ok ()) : safe n := by
  unfold validateIncludeFileName at h
  cases n with
  | nil => simp at h
  | cons c rest =>
    simp only at h
    by_cases h1 : c == 47
    · simp [h1] at h
    · simp only [h1, Bool.false_eq_true, if_false] at h
      by_cases h2 : ((splitOn47 (c :: rest)).any fun seg => seg == [46] || seg == [46, 46]) = true
      · simp [h2] at h
      · simp only [h2, Bool.false_eq_true, if_false] at h
        split at h
        · simp at h
        · by_cases h4 : (c :: rest).contains 92 = true
          · simp_all
          · refine ⟨by simp, ?_, ?_, ?_⟩
            · simpa using h1
            · simpa using h4
            · intro seg hseg
              simp only [List.any_eq_true, not_exists, not_and, Bool.or_eq_true, beq_iff_eq] at h2
              have := h2 seg hseg
              simp only [dot, dotdot]
              constructor
              · intro he; exact this (Or.inl he)
              · intro he; exact this (Or.inr he)

/-! ### the resolved path stays below the including file's directory -/

/-- a cleaned relative directory: no empty, `.` or `..` segments -/
def CleanDir (d : List Bytes) : Prop := ∀ s ∈ d, s ≠ [] ∧ s ≠ dot ∧ s ≠ dotdot

theorem cleanStep_empty (acc : List Bytes) : cleanStep acc [] = acc := by simp [cleanStep]

theorem cleanStep_plain (acc : List Bytes) (s : Bytes) (h0 : s ≠ []) (h1 : s ≠ dot) (h2 : s ≠ dotdot) :
    cleanStep acc s = s :: acc := by
  have a : (s == [] || s == [46]) = false := by
    simp only [Bool.or_eq_false_iff, beq_eq_false_iff_ne]; exact ⟨h0, h1⟩
  have b : (s == [46, 46]) = false := by simp only [beq_eq_false_iff_ne]; exact h2
  simp only [cleanStep, a, b, Bool.false_eq_true, if_false]

/-- folding clean-step over segments without `.`/`..` only pushes the non-empty ones -/
theorem cleanFold_noDots (acc : List Bytes) (p : List Bytes) (hp : ∀ s ∈ p, s ≠ dot ∧ s ≠ dotdot) :
    p.foldl cleanStep acc = (p.filter (· ≠ [])).reverse ++ acc := by
  induction p generalizing acc with
  | nil => simp
  | cons s rest ih =>
    have hs := hp s (by simp)
    have hrest : ∀ t ∈ rest, t ≠ dot ∧ t ≠ dotdot := fun t ht => hp t (by simp [ht])
    simp only [List.foldl_cons]
    by_cases he : s = []
    · subst he
      rw [cleanStep_empty, ih _ hrest]
      simp
    · rw [cleanStep_plain acc s he hs.1 hs.2, ih _ hrest]
      simp [List.filter_cons, he]

/-- **C14 (inside)**: for a safe name, the path handed to the file system is the including
    file's (cleaned) directory followed by the name's non-empty segments: never above or beside it. -/
theorem C14_inside (dir : List Bytes) (name : Bytes) (hd : CleanDir dir) (hs : safe name) :
    cleanSegs (dir ++ splitOn47 name) = dir ++ (splitOn47 name).filter (· ≠ []) := by
  unfold cleanSegs
  rw [List.foldl_append]
  have hdir : ∀ s ∈ dir, s ≠ dot ∧ s ≠ dotdot := fun s h => ⟨(hd s h).2.1, (hd s h).2.2⟩
  rw [cleanFold_noDots [] dir hdir]
  rw [cleanFold_noDots _ (splitOn47 name) hs.2.2.2]
  have : dir.filter (· ≠ []) = dir := List.filter_eq_self.mpr (fun s h => by simpa using (hd s h).1)
  rw [this]
  simp

/-- refused names never reach the file system: the only place `processInclude` records an access
    is after `validateIncludeFileName` has answered ok (by inspection of the model this is the
    `.ok ()` branch); stated on the validation function: an unsafe name is refused. -/
theorem C14_unsafe_refused (n : Bytes) (h : ¬ safe n) : ∃ e, validateIncludeFileName n = .error e := by
  cases hv : validateIncludeFileName n with
  | error e => exact ⟨e, rfl⟩
  | ok u => cases u; exact absurd (C14_name n hv) h

/-- non-vacuity and the repaired witnesses -/
def verdict (n : Bytes) : Option NameErr :=
  match validateIncludeFileName n with
  | .ok () => none
  | .error e => some e

example : verdict (strBytes "sub/d.jst") = none := by decide +kernel
example : verdict (strBytes "..") = some .up := by decide +kernel
example : verdict (strBytes ".") = some .up := by decide +kernel
example : verdict [] = some .empty := by decide +kernel
example : verdict (strBytes "/etc/passwd") = some .root := by decide +kernel
example : verdict (strBytes "a\\b") = some .sep := by decide +kernel
example : cleanSegs ([strBytes "sub"] ++ splitOn47 (strBytes "x//y.jst")) = [strBytes "sub", strBytes "x", strBytes "y.jst"] := by decide +kernel

end JsightVerif.Props.C14
