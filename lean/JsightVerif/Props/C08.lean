import JsightVerif.Proofs.Simple
import JsightVerif.Model.ScanGen
/-
  C08 — layout does not change meaning (scanner level).
  A condition is *agnostic* to a pair of bytes when each of its byte tests gives the same answer
  on both; a step program is agnostic when all its conditions are. For agnostic programs the
  real interpreter does exactly the same on both bytes — all environments, all states
  (`runProg_agnostic`). On the regenerated table every one of the step functions is agnostic to
  LF/CR and to blank/tab: the state x trivia product that fixtures cannot sample.
-/
namespace JsightVerif.Props.C08
open JsightVerif.Model JsightVerif.Gen

/-- every byte test inside the condition answers the same on `a` and `b` -/
def condAgn (a b : UInt8) : Cond → Bool
  | .byteEq x => (a.toNat == x) == (b.toNat == x)
  | .eqCaseWs => (a == caseWhitespace a) == (b == caseWhitespace b)
  | .eqCaseNl => (a == caseNewLine a) == (b == caseNewLine b)
  | .isWs => isSpaceB a == isSpaceB b
  | .isNl => isNewLineB a == isNewLineB b
  | .not c => condAgn a b c
  | .and c d => condAgn a b c && condAgn a b d
  | .or c d => condAgn a b c && condAgn a b d
  | _ => true

theorem evalCond_agn {σ} (env : Env) (s : Sc σ) (a b : UInt8) (cnd : Cond) (h : condAgn a b cnd = true) :
    evalCond env s a cnd = evalCond env s b cnd := by
  induction cnd with
  | byteEq x => simp only [condAgn, beq_iff_eq] at h; simp [evalCond, h]
  | eqCaseWs => simp only [condAgn, beq_iff_eq] at h; simp [evalCond, h]
  | eqCaseNl => simp only [condAgn, beq_iff_eq] at h; simp [evalCond, h]
  | isWs => simp only [condAgn, beq_iff_eq] at h; simp [evalCond, h]
  | isNl => simp only [condAgn, beq_iff_eq] at h; simp [evalCond, h]
  | dataBackEq _ _ => rfl
  | isDirective => rfl
  | hasTypeOrAnyOrEmpty => rfl
  | hasAnyOrEmpty => rfl
  | hasRegex => rfl
  | not c ih => simp only [condAgn] at h; simp [evalCond, ih h]
  | and c d ihc ihd =>
    simp only [condAgn, Bool.and_eq_true] at h
    simp [evalCond, ihc h.1, ihd h.2]
  | or c d ihc ihd =>
    simp only [condAgn, Bool.and_eq_true] at h
    simp [evalCond, ihc h.1, ihd h.2]

def progAgn {σ} (a b : UInt8) : Prog σ → Bool
  | .setStep _ k | .push _ k | .pushCur k | .popToStep k | .found _ _ k | .curSub _ k | .readLen _ k => progAgn a b k
  | .ite c t e => condAgn a b c && progAgn a b t && progAgn a b e
  | _ => true

/-- japiErrorUnexpectedChar does not look at the byte either (only at cursor vs size) -/
theorem runProg_agnostic {σ} (env : Env) (a b : UInt8) (p : Prog σ) (s : Sc σ) (h : progAgn a b p = true) :
    runProg env a p s = runProg env b p s := by
  induction p generalizing s with
  | setStep t k ih => simp only [progAgn] at h; simp [runProg, ih _ h]
  | push t k ih => simp only [progAgn] at h; simp [runProg, ih _ h]
  | pushCur k ih => simp only [progAgn] at h; simp [runProg, ih _ h]
  | popToStep k ih => simp only [progAgn] at h; simp only [runProg]; split <;> simp [ih _ h]
  | found e n k ih => simp only [progAgn] at h; simp [runProg, ih _ h]
  | curSub n k ih => simp only [progAgn] at h; simp only [runProg]; split <;> simp [ih _ h]
  | readLen kind k ih =>
    simp only [progAgn] at h
    simp only [runProg]
    split
    · rfl
    · split <;> simp [ih _ h]
  | ite c t e iht ihe =>
    simp only [progAgn, Bool.and_eq_true] at h
    simp only [runProg, evalCond_agn env s a b c h.1.1]
    split <;> simp [iht _ h.1.2, ihe _ h.2]
  | ok => rfl
  | redispatch => rfl
  | call t => rfl
  | failChar w e => rfl
  | failBasic m => rfl

theorem St.mem_all (st : St) : st ∈ St.all := by cases st <;> decide

/-- table obligation: every step function is agnostic to LF vs CR -/
theorem table_nl_agnostic : (St.all.all fun st => progAgn 10 13 (Gen.prog st)) = true := by decide +kernel

/-- table obligation: every step function is agnostic to blank vs tab -/
theorem table_blank_agnostic : (St.all.all fun st => progAgn 32 9 (Gen.prog st)) = true := by decide +kernel

/-- **C08 (line-ending byte)**: in every state and every environment, one step of the scanner on
    `\n` does exactly what it does on `\r`. -/
theorem step_nl_agnostic (env : Env) (st : St) (s : Sc St) :
    runProg env 10 (Gen.prog st) s = runProg env 13 (Gen.prog st) s := by
  have h := table_nl_agnostic
  simp only [List.all_eq_true] at h
  exact runProg_agnostic env 10 13 _ s (h st (St.mem_all st))

/-- **C08 (blank byte)**: the same for blank and tab. -/
theorem step_blank_agnostic (env : Env) (st : St) (s : Sc St) :
    runProg env 32 (Gen.prog st) s = runProg env 9 (Gen.prog st) s := by
  have h := table_blank_agnostic
  simp only [List.all_eq_true] at h
  exact runProg_agnostic env 32 9 _ s (h st (St.mem_all st))

/-- whole byte step (with tail calls) -/
theorem stepFuel_nl_agnostic (env : Env) (n : Nat) (st : St) (s : Sc St) :
    stepFuel env Gen.prog 10 n st s = stepFuel env Gen.prog 13 n st s := by
  induction n generalizing st s with
  | zero => rfl
  | succ n ih =>
    simp only [stepFuel, step_nl_agnostic env st s]
    split <;> simp [ih]

/-- non-vacuity: a byte pair that is *not* interchangeable is detected by the same checker -/
example : progAgn 10 32 (Gen.prog .stateExpectKeyword) = false := by decide +kernel
example : progAgn 35 32 (Gen.prog .stateExpectKeyword) = false := by decide +kernel

end JsightVerif.Props.C08
