import JsightVerif.Proofs.Agnostic
import JsightVerif.Model.ScanGen
import JsightVerif.Props.Common
/-
  C08 — layout does not change meaning (scanner level).
  A condition is *agnostic* to a pair of bytes when each of its byte tests gives the same answer
  on both; a step program is agnostic when all its conditions are. For agnostic programs the
  real interpreter does exactly the same on both bytes — all environments, all states
  (`runProg_agnostic`). On the regenerated table every one of the step functions is agnostic to
  LF/CR and to blank/tab: the state x trivia product that fixtures cannot sample.
-/
namespace JsightVerif.Props.C08
open JsightVerif.Model JsightVerif.Gen JsightVerif.Props


/-- table obligation: every step function is agnostic to LF vs CR -/
theorem table_nl_agnostic : (St.all.all fun st => progAgn 10 13 (Gen.prog st)) = true := by decide +kernel

/-- table obligation: every step function is agnostic to blank vs tab -/
theorem table_blank_agnostic : (St.all.all fun st => progAgn 32 9 (Gen.prog st)) = true := by decide +kernel

/-- **C08 (line-ending byte)**: in every state and every environment, one step of the scanner on
    `\n` does exactly what it does on `\r`. -/
theorem step_nl_agnostic (env : Env) (st : St) (s : Sc St) :
    runProg env 10 (Gen.prog st) s = runProg env 13 (Gen.prog st) s := by
  have h := table_nl_agnostic
  simp only [List.all_eq_true] at h
  exact runProg_agnostic env 10 13 _ s (h st (St.mem_all st))

/-- **C08 (blank byte)**: the same for blank and tab. -/
theorem step_blank_agnostic (env : Env) (st : St) (s : Sc St) :
    runProg env 32 (Gen.prog st) s = runProg env 9 (Gen.prog st) s := by
  have h := table_blank_agnostic
  simp only [List.all_eq_true] at h
  exact runProg_agnostic env 32 9 _ s (h st (St.mem_all st))

/-- whole byte step (with tail calls) -/
theorem stepFuel_nl_agnostic (env : Env) (n : Nat) (st : St) (s : Sc St) :
    stepFuel env Gen.prog 10 n st s = stepFuel env Gen.prog 13 n st s := by
  induction n generalizing st s with
  | zero => rfl
  | succ n ih =>
    simp only [stepFuel, step_nl_agnostic env st s]
    split <;> simp [ih]

/-- non-vacuity: a byte pair that is *not* interchangeable is detected by the same checker -/
example : progAgn 10 32 (Gen.prog .stateExpectKeyword) = false := by decide +kernel
example : progAgn 35 32 (Gen.prog .stateExpectKeyword) = false := by decide +kernel

end JsightVerif.Props.C08
