import JsightVerif.Gen.ScannerTable
namespace JsightVerif.Props
open JsightVerif.Gen
/-- `St.all` lists every step function -/
theorem St.mem_all (st : St) : st ∈ St.all := by cases st <;> decide
end JsightVerif.Props
