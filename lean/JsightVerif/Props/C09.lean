import JsightVerif.Model.Project
import JsightVerif.Proofs.ScanBan
/-
  C09 — INCLUDE is transparent.  Core of the argument on the L1 model (`Core.processInclude`,
  `Core.run`: hand model of core/include.go + scan_project.go, tied by the `proj` op on split
  projects): switching to the included file and back touches neither the open-context zipper nor
  the pending directive, so the directives of the included file attach exactly where they would
  if written in place; the unclosed-parenthesis test runs at the end of the root file only
  (fix: INCLUDE inside an explicit context).  Whole-catalog equality of every cut of a document
  into nested include trees is evaluated on the real builder by the `split` op.
-/
namespace JsightVerif.Props.C09
open JsightVerif.Model JsightVerif.Gen

/-- **the switch into the included file leaves context and pending directive untouched** -/
theorem processInclude_preserves (c c' : Core) (fsys : FileSys) (kw : Lexeme)
    (h : c.processInclude fsys kw = .ok c') : c'.ctx = c.ctx ∧ c'.cur = c.cur ∧ c'.banned = c.banned := by
  unfold Core.processInclude at h
  dsimp only at h
  repeat' (split at h)
  all_goals first
    | (simp at h; done)
    | (simp only [Except.ok.injEq] at h; subst h; exact ⟨rfl, rfl, rfl⟩)

/-- the end of an included file does not complain about contexts that are still open -/
theorem eof_of_included_file_ok (c : Core) (hs : c.suspended ≠ []) (hc : c.cur = none) :
    ∃ c', c.onEOF = .ok c' ∧ c'.ctx = c.ctx := by
  unfold Core.onEOF Core.processCurrent
  simp only [hc]
  have : c.suspended.isEmpty = false := by cases h : c.suspended <;> simp_all
  simp [this]

/-- **C09 (every project)**: INCLUDE leaves no node of its own — whatever the files, the include graph
    and the fuel, no directive of the forest the scanning stage produces has the kind INCLUDE: an
    INCLUDE line contributes exactly the directives of the included file (attached where the line
    stands, by `processInclude_preserves`) and nothing else. -/
theorem C09_no_include_node (fsys : FileSys) (n : Nat) (rootName : Bytes) (content : Array UInt8)
    (lenAt : BodyKind → Nat → LenAnswer) (banned : List Kind) (c' : Core)
    (h : Core.run fsys n { current := { name := rootName, env := mkEnv content lenAt, sc := Sc.init .stateRoot }, banned := banned } = .ok c') :
    Tree.allList notInclude c'.ctx.forest = true :=
  scan_forest_no_include fsys n rootName (mkEnv content lenAt) banned c' h

end JsightVerif.Props.C09
