import JsightVerif.Props.C05
/-
  C02 — the catalog says exactly what the document says (registry level).
  For every section, folding the document's declarations (in document order, pairwise distinct
  names) into the registry yields exactly those declarations, in that order: nothing missing,
  nothing invented, nothing reordered.  The full round trip model -> text -> catalog JSON is
  evaluated entity by entity by the `model` op on every generated model in every layout
  (directly, through INCLUDE trees and through MACRO/PASTE).
-/
namespace JsightVerif.Props.C02
open JsightVerif.Model.Cat JsightVerif.Props.C05

/-- **C02 (sections)**: exactly the model's entities, in document order -/
theorem section_is_document {α} (l : List (Name × α)) (hd : (l.map (·.1)).Nodup) :
    ∃ m', addAll OMap.empty l = .ok m' ∧ m'.entries = l :=
  addAll_entries_exists l hd

/-- non-vacuity -/
example : (addAll (OMap.empty : OMap Nat) [("@a", 1), ("@b", 2)]).toOption.map (·.entries) = some [("@a", 1), ("@b", 2)] := by decide

end JsightVerif.Props.C02
