import JsightVerif.Props.C05
import JsightVerif.Proofs.BuildRegs
/-
  C02 — the catalog says exactly what the document says (registry level).
  For every section, folding the document's declarations (in document order, pairwise distinct
  names) into the registry yields exactly those declarations, in that order: nothing missing,
  nothing invented, nothing reordered.  The full round trip model -> text -> catalog JSON is
  evaluated entity by entity by the `model` op on every generated model in every layout
  (directly, through INCLUDE trees and through MACRO/PASTE).
-/
namespace JsightVerif.Props.C02
open JsightVerif.Model.Cat JsightVerif.Props.C05

/-- **C02 (sections)**: exactly the model's entities, in document order -/
theorem section_is_document {α} (l : List (Name × α)) (hd : (l.map (·.1)).Nodup) :
    ∃ m', addAll OMap.empty l = .ok m' ∧ m'.entries = l :=
  addAll_entries_exists l hd

/-- non-vacuity -/
example : (addAll (OMap.empty : OMap Nat) [("@a", 1), ("@b", 2)]).toOption.map (·.entries) = some [("@a", 1), ("@b", 2)] := by decide

/-! ### interactions: the model that is compared with the real builder (Model/Build.lean, op `cat`) -/

section Tied
open JsightVerif.Model JsightVerif.Model.Build JsightVerif.Gen

/-- **C02 (interactions, tied model)**: whenever the build model accepts a project, the catalog's
    interactions are *exactly* the interactions the (macro-expanded) document declares — one per
    HTTP method directive and one per JSON-RPC Method directive, in document order, with the id
    computed from the directive and its ancestors; nothing missing, nothing invented, nothing
    reordered.  For every forest, macro graph, ban set and file contents. -/
theorem C02_interactions_exact (roots : List DT) (rootFile : Bytes) (banned : List Kind)
    (content : Bytes → Bytes) (b : Built) (h : build roots rootFile banned content = .ok b) :
    ids b.cat = idsOfList b.expanded [] := by
  obtain ⟨_, _, _, _, tags, enums, s, _, _, _, _, hadd, hc⟩ := build_stages roots rootFile banned content b h
  rw [hc, addList_ids content b.expanded [] b.expanded [] _ s hadd]
  simp

/-- **C02 (servers and user types, tied model)**: in every accepted project the servers and the
    user types of the catalog are exactly the SERVER / TYPE directives of the expanded document, by
    name and in document order. -/
theorem C02_servers_types_exact (roots : List DT) (rootFile : Bytes) (banned : List Kind)
    (content : Bytes → Bytes) (b : Built) (h : build roots rootFile banned content = .ok b) :
    serverNames b.cat = collectList (fun d _ => newServers d) b.expanded [] ∧
    typeNames b.cat = collectList (fun d _ => newTypes d) b.expanded [] := by
  obtain ⟨_, _, _, _, tags, enums, s, _, _, _, _, hadd, hc⟩ := build_stages roots rootFile banned content b h
  rw [hc]
  exact ⟨by simpa [serverNames] using (addList_servers content b.expanded _ s hadd).1,
         by simpa [typeNames] using (addList_types content b.expanded _ s hadd).1⟩

/-- the arms of the model's `addDirective` are the handlers the regenerated dispatch table
    (`directiveFunctions`, core/core.go) assigns to each directive kind: re-wiring a kind in the code
    breaks this obligation -/
theorem handlers_pinned : (Kind.all.all fun k => dispatchTable.lookup k == handlerName k) = true := by decide

/-- non-vacuity: a two-directive forest the model accepts, with its one interaction -/
example :
    let mk (k : Kind) (kw : String) (named : List (String × Bytes)) (b : Int) : Dir :=
      { kind := k, keyword := strBytes kw, named := named, unnamed := [], ann := [], body := none, explicit := false,
        file := strBytes "r", kwBegin := b, kwEnd := b, trace := [] }
    let forest : List DT :=
      [.node (mk .Jsight "JSIGHT" [("Version", strBytes "0.3")] 0) [],
       .node (mk .Get "GET" [("Path", strBytes "/a")] 11)
         [.node { mk .HTTPResponseCode "200" [("SchemaNotation", strBytes "any")] 20 with } []]]
    (match build forest (strBytes "r") [] (fun _ => []) with
     | .ok b => ids b.cat == [strBytes "http GET /a"]
     | .error _ => false) = true := by
  decide +kernel

end Tied

end JsightVerif.Props.C02
