import JsightVerif.Gen.Facts
/-
  C18 — concurrent independence (partial by nature: data races as the Go memory model defines
  them, and shared state inside jsight-schema-core, are outside any theorem; the check runs the
  real code under the race detector for those).
  What the theorem carries: the only memory that two builds can share inside this repository
  are package-level variables; the regenerated facts list every one of them together with every
  place where it is written outside `init` and `sync.Once` bodies.
-/
namespace JsightVerif.Props.C18
open JsightVerif.Model JsightVerif.Gen

/-- writes that are safe by contract: methods of *regexp.Regexp are documented as safe for concurrent use -/
def allowedWrites : List String := ["catalog/annotation.go:Annotation:call ReplaceAllString"]

/-- **obligation**: no package-level variable of the repository is written while building or
    serialising (outside init and once-bodies), except by concurrency-safe library methods. -/
theorem C18_no_shared_writes :
    (Gen.pkgVars.all fun v => v.writes.all fun w => allowedWrites.contains w) = true := by decide

/-- the library starts no goroutine of its own -/
theorem C18_no_goroutines : Gen.goStmts = [] := by decide

/-! ### isolation argument: steps that write only their own store commute -/

/-- state: one store per build; a step of build `i` is a function of store `i` only -/
def stepAt {σ} (n : Nat) (i : Nat) (f : σ → σ) (s : Nat → σ) : Nat → σ :=
  fun j => if j = i ∧ j < n then f (s j) else s j

theorem steps_commute {σ} (n i j : Nat) (f g : σ → σ) (h : i ≠ j) (s : Nat → σ) :
    stepAt n i f (stepAt n j g s) = stepAt n j g (stepAt n i f s) := by
  funext k
  simp only [stepAt]
  by_cases hi : k = i <;> by_cases hj : k = j
  · exact absurd (hi.symm.trans hj) h
  · simp [hi, hj, h]
  · simp [hi, hj, Ne.symm h]
  · simp [hi, hj]

/-- **C18 (model)**: running a step of another build first does not change what build `i` computes -/
theorem result_independent {σ} (n i j : Nat) (f g : σ → σ) (h : i ≠ j) (s : Nat → σ) :
    (stepAt n i f (stepAt n j g s)) i = (stepAt n i f s) i := by
  simp only [stepAt]
  by_cases hn : i < n <;> simp [hn, h]

end JsightVerif.Props.C18
