import JsightVerif.Model.Project
import JsightVerif.Proofs.BuildProps
import JsightVerif.Proofs.ScanBan
/-
  C19 — banned directives are always rejected.
  The ban is consulted where a directive is created from its keyword (core/scan_project.go
  setCurrentDirective, core/include.go processInclude — since fix 4613a9a); `Core.onLexeme` /
  `Core.processInclude` are the hand model of these (tied by the `proj`/`banproj` ops).
-/
namespace JsightVerif.Props.C19
open JsightVerif.Model JsightVerif.Gen

/-- **C19 (creation)**: whatever the state of the core, a keyword lexeme never creates a directive
    of a banned kind — in the root file, in an INCLUDEd file or inside a MACRO body alike, because
    every directive object of the project is created by this one function. -/
theorem created_directive_not_banned (c c' : Core) (l : Lexeme) (hk : l.ty = .Keyword)
    (h : c.onLexeme l = .ok c') : ∃ d, c'.cur = some d ∧ c.banned.contains d.kind = false := by
  unfold Core.onLexeme at h
  simp only [hk] at h
  split at h
  · simp at h
  · rename_i c1 hc1
    split at h
    · simp at h
    · rename_i kw hkw
      split at h
      · simp at h
      · split at h
        · simp at h
        · rename_i k hk2
          split at h
          · simp at h
          · rename_i hnb
            simp only [Except.ok.injEq] at h
            subst h
            have hb : c1.banned = c.banned := by
              unfold Core.processCurrent at hc1
              split at hc1
              · simp only [Except.ok.injEq] at hc1; subst hc1; rfl
              · split at hc1
                · simp only [Except.ok.injEq] at hc1; subst hc1; rfl
                · simp at hc1
            refine ⟨_, rfl, ?_⟩
            simp only [Core.tracerFor]
            rw [← hb]
            simpa using hnb

/-- **C19 (INCLUDE)**: a banned INCLUDE is refused before its parameter is read or any file is looked up -/
theorem banned_include_refused (c : Core) (fsys : FileSys) (kw : Lexeme) (h : c.banned.contains .Include = true) :
    ∃ e, c.processInclude fsys kw = .error (.err e) ∧ e.acc = c.accesses := by
  unfold Core.processInclude
  simp only [h, if_true, lexErr]
  exact ⟨_, rfl, rfl⟩

/-- the kinds without a handler in the dispatch table are exactly the ones consumed by earlier
    passes (Path by collectPaths, Macro/Paste/Include before the tree is built, Enum/TAG by
    collectRules/collectTags, Tags by the interaction setters): for them only the creation-time
    check can enforce a ban. -/
theorem C19_dispatch :
    (Kind.all.filter fun k => (dispatchTable.lookup k).isNone) = [.Path, .Enum, .Macro, .Paste, .Include, .TAG, .Tags] := by
  decide

/-- non-vacuity: a core with GET banned, fed the keyword lexeme `GET` of the file "GET /a" -/
def demoEnv : Env := mkEnv (strBytes "GET /a").toArray (fun _ _ => .err "x" 0)
def demoCore (banned : List Kind) : Core :=
  { current := { name := strBytes "root.jst", env := demoEnv, sc := Sc.init .stateRoot }, banned := banned }
def isBanErr : Except PFault Core → Bool
  | .error (.err e) => e.msg == "the directive is not allowed (GET)"
  | _ => false
example : isBanErr ((demoCore [.Get]).onLexeme ⟨.Keyword, 0, 2⟩) = true := by decide +kernel
example : isBanErr ((demoCore [.Post]).onLexeme ⟨.Keyword, 0, 2⟩) = false := by decide +kernel

/-! ### the whole scanning stage (Proofs/ScanBan.lean) -/

/-- **C19 (every project)**: whatever the root file, the files reachable through INCLUDE, the include
    graph and the fuel — if the scanning stage accepts the project, no directive of the forest it hands
    to the build stage has a banned kind: not in the root file, not in an INCLUDEd file, not in the body
    of a MACRO whether anything pastes it or not (every directive enters the tree through `attach`, after
    having been created by `onLexeme`, which refuses banned kinds).  Contrapositive: a project in which a
    directive of a banned kind is written anywhere is never accepted. -/
theorem C19_scanned_forest_not_banned (fsys : FileSys) (n : Nat) (rootName : Bytes) (content : Array UInt8)
    (lenAt : BodyKind → Nat → LenAnswer) (banned : List Kind) (c' : Core)
    (h : Core.run fsys n { current := { name := rootName, env := mkEnv content lenAt, sc := Sc.init .stateRoot }, banned := banned } = .ok c') :
    Tree.allList (Build.notBanned banned) c'.ctx.forest = true :=
  scan_forest_not_banned fsys n rootName (mkEnv content lenAt) banned c' h

/-- a banned INCLUDE stops the project at the first INCLUDE line: no file is ever switched to -/
theorem C19_banned_include_never_entered (c c' : Core) (fsys : FileSys) (kw : Lexeme)
    (hb : c.banned.contains .Include = true) : c.processInclude fsys kw ≠ .ok c' := by
  obtain ⟨e, he, _⟩ := banned_include_refused c fsys kw hb
  rw [he]
  intro h
  cases h

/-! ### after MACRO/PASTE expansion (Model/Build.lean, tied by op `cat`) -/

section Tied
open JsightVerif.Model.Build

/-- **C19 (expanded document)**: whenever the build model accepts a project, no directive of the
    forest the catalog is built from — written directly, INCLUDEd or PASTEd from a macro — has a
    banned kind (`addDirective` consults the ban set at every directive, and nothing changes it). -/
theorem C19_expanded_not_banned (roots : List DT) (rootFile : Bytes) (banned : List Kind)
    (content : Bytes → Bytes) (b : Built) (h : build roots rootFile banned content = .ok b) :
    Tree.allList (notBanned banned) b.expanded = true := by
  obtain ⟨_, _, _, _, tags, enums, s, _, _, _, _, hadd, _⟩ := build_stages roots rootFile banned content b h
  exact (addList_banned content b.expanded [] b.expanded [] _ s hadd).2

end Tied

end JsightVerif.Props.C19
