import JsightVerif.Model.Bytes
import JsightVerif.Gen.DirectiveTable
/-
  L1: the directive tree as a zipper and the context resolution of
  core/context_processing.go (`processContext`), core/scan_project.go
  (`closeLastExplicitContext`, `HasUnclosedExplicitContext`).
  The allowed-children table is the regenerated `Gen.allowedTable`.
-/
namespace JsightVerif.Model
open JsightVerif.Gen

/-- what context resolution looks at -/
structure Head where
  kind : Kind
  hasPath : Bool      -- NamedParameter("Path") != ""
  explicit : Bool     -- HasExplicitContext
  deriving DecidableEq, Repr, Inhabited

/-- the tables, as functions (Enumeration.IsAllowedForRootContext etc.) -/
def allowedRoot (k : Kind) : Bool := allowedRootList.contains k
def isHTTPMethod (k : Kind) : Bool := httpMethodList.contains k
def allowedIn (parent child : Kind) : Bool :=
  match allowedTable.lookup parent with
  | some l => l.contains child
  | none => false

/-- a finished directive with its children, generic in the payload -/
inductive Tree (α : Type) where
  | node (d : α) (kids : List (Tree α))
  deriving Repr, Inhabited

/-- an open directive: payload, its head, finished children in reverse order -/
structure Frame (α : Type) where
  d : α
  h : Head
  kidsRev : List (Tree α)
  deriving Repr

/-- the zipper: open frames innermost first; finished roots in reverse order -/
structure Ctx (α : Type) where
  stack : List (Frame α)
  rootsRev : List (Tree α)
  deriving Repr

def Ctx.empty {α} : Ctx α := ⟨[], []⟩

inductive CtxErr where
  | incorrectContext          -- IncorrectDirectiveContext "<kind>"
  | incorrectContextPath      -- … with the "Path" parameter
  | nothingToClose            -- ThereIsNoExplicitContextForClosure
  | notClosed                 -- ContextNotClosed
  deriving DecidableEq, Repr, Inhabited

def Frame.close {α} (f : Frame α) : Tree α := .node f.d f.kidsRev.reverse

/-- a frame absorbs the just-closed inner frame (if any) as its newest child -/
def Frame.absorb {α} (f : Frame α) : Option (Tree α) → Frame α
  | none => f
  | some t => { f with kidsRev := t :: f.kidsRev }

def absorbRoots {α} (roots : List (Tree α)) : Option (Tree α) → List (Tree α)
  | none => roots
  | some t => t :: roots

/-- close every open frame; `carry` is the frame closed just before (innermost first) -/
def closeAll {α} : List (Frame α) → Option (Tree α) → List (Tree α) → List (Tree α)
  | [], carry, roots => absorbRoots roots carry
  | f :: rest, carry, roots => closeAll rest (some (f.absorb carry).close) roots

/-- processContext: walk up from the innermost open frame -/
def attachStack {α} (d : α) (h : Head) : List (Frame α) → Option (Tree α) → List (Tree α) → Except CtxErr (Ctx α)
  | [], carry, roots =>
    if allowedRoot h.kind then .ok ⟨[⟨d, h, []⟩], absorbRoots roots carry⟩ else .error .incorrectContext
  | f :: rest, carry, roots =>
    let f := f.absorb carry
    if allowedIn f.h.kind h.kind then
      if isHTTPMethod h.kind && h.hasPath && f.h.kind == .URL then
        -- HasUnclosedExplicitContext: the URL or any of its ancestors
        if f.h.explicit || rest.any (·.h.explicit) then .error .incorrectContextPath
        else
          -- a new root: the Go code leaves d.Parent = nil, i.e. every open frame is abandoned
          .ok ⟨[⟨d, h, []⟩], closeAll (f :: rest) none roots⟩
      else .ok ⟨⟨d, h, []⟩ :: f :: rest, roots⟩
    else if f.h.explicit then .error .incorrectContext
    else attachStack d h rest (some f.close) roots

def attach {α} (c : Ctx α) (d : α) (h : Head) : Except CtxErr (Ctx α) := attachStack d h c.stack none c.rootsRev

/-- closeLastExplicitContext -/
def closeExplicitStack {α} : List (Frame α) → Option (Tree α) → List (Tree α) → Except CtxErr (Ctx α)
  | [], _, _ => .error .nothingToClose
  | f :: rest, carry, roots =>
    let f := f.absorb carry
    if f.h.explicit then
      match rest with
      | [] => .ok ⟨[], f.close :: roots⟩
      | g :: rest' => .ok ⟨g.absorb (some f.close) :: rest', roots⟩
    else closeExplicitStack rest (some f.close) roots

def closeExplicit {α} (c : Ctx α) : Except CtxErr (Ctx α) := closeExplicitStack c.stack none c.rootsRev

/-- HasUnclosedExplicitContext -/
def hasUnclosedExplicit {α} (c : Ctx α) : Bool := c.stack.any (·.h.explicit)

/-- the finished forest -/
def Ctx.forest {α} (c : Ctx α) : List (Tree α) := (closeAll c.stack none c.rootsRev).reverse

end JsightVerif.Model
