import JsightVerif.Model.Bytes
/-
  Locations: transliteration of bytes.Bytes.{NewLineSymbol, LineAndColumn,
  BeginningOfLine, EndOfLine} (dependency) and jerr.quote / jerr.NewLocation (repo).
  `none` = the Go code panics (index out of range).
-/
namespace JsightVerif.Model

/-- NewLineSymbol: last byte of the first run of newline bytes, '\n' if there is none -/
def newLineSymbolAux : Bytes → UInt8 → Bool → UInt8
  | [], nl, _ => nl
  | c :: rest, nl, found =>
    if c == 10 || c == 13 then newLineSymbolAux rest c true
    else if found then nl
    else newLineSymbolAux rest nl found

def newLineSymbol (b : Bytes) : UInt8 := newLineSymbolAux b 10 false

/-- LineAndColumn: (0,0) when the index is not inside the content -/
def lineAndColumn (b : Bytes) (index : Nat) : Nat × Nat :=
  if b.length == 0 || b.length ≤ index then (0, 0)
  else
    let nl := newLineSymbol b
    let (line, col) := (b.take index).foldl (fun (lc : Nat × Nat) c => if c == nl then (lc.1 + 1, 0) else (lc.1, lc.2 + 1)) (0, 0)
    (line + 1, col + 1)

/-- BeginningOfLine; `none` when the content is empty (Go indexes data[i] out of range) -/
def beginningOfLineAux (b : Array UInt8) (nl : UInt8) (index : Nat) : Nat → Nat → Nat
  | 0, i => i
  | fuel + 1, i =>
    let c := b.getD i 0
    if c == nl && i != index then i + 1
    else if i == 0 then 0
    else beginningOfLineAux b nl index fuel (i - 1)

def beginningOfLine (b : Bytes) (index : Nat) : Option Nat :=
  if b.length == 0 then none
  else
    let i := if index > b.length - 1 then b.length - 1 else index
    some (beginningOfLineAux b.toArray (newLineSymbol b) index (b.length + 1) i)

/-- EndOfLine -/
def endOfLine (b : Bytes) (index : Nat) : Nat :=
  let nl := newLineSymbol b
  let i := index + ((b.drop index).takeWhile (· != nl)).length
  let i := if index ≥ b.length then index else i
  if i > 0 then
    match b[i - 1]? with
    | some c => if (nl == 10 && c == 13) || (nl == 13 && c == 10) then i - 1 else i
    | none => i     -- unreachable for index ≤ len: Go would panic for i-1 ≥ len
  else i

/-- jerr.quote: the line around `position`, left-trimmed, at most 200 bytes.
    `none` = panic (empty content, or slice bounds) -/
def quote (b : Bytes) (position : Nat) : Option Bytes :=
  if b.isEmpty then some [] else
  match beginningOfLine b position with
  | none => none
  | some bg =>
    let en := endOfLine b position
    -- Go: end-begin is unsigned; content.Sub(begin,end) panics unless begin ≤ end ≤ len
    if en < bg then none   -- (end-begin wraps to a huge number > maxLength; Sub(begin, begin+197) may or may not panic)
    else if en - bg > 200 then
      if bg + 197 ≤ b.length then some (trimSpacesFromLeft ((b.drop bg).take 197) ++ [46, 46, 46]) else none
    else if en ≤ b.length then some (trimSpacesFromLeft ((b.drop bg).take (en - bg))) else none

structure Location where
  index : Nat
  line : Nat
  col : Nat
  quote : Bytes
  deriving DecidableEq, Repr, Inhabited

/-- jerr.lineAndColumn: LineAndColumn extended to the end-of-file position -/
def lineAndColumnEof (b : Bytes) (i : Nat) : Nat × Nat :=
  if b.length == 0 || i != b.length then lineAndColumn b i
  else
    let lc := lineAndColumn b (b.length - 1)
    if b.getLast? == some (newLineSymbol b) then (lc.1 + 1, 1) else (lc.1, lc.2 + 1)

/-- jerr.NewLocation -/
def newLocation (b : Bytes) (i : Nat) : Option Location :=
  match quote b i with
  | none => none
  | some q => let lc := lineAndColumnEof b i; some ⟨i, lc.1, lc.2, q⟩

end JsightVerif.Model
