import JsightVerif.Model.Project
/-
  L2/L3: what the core does with the directive forest after scanning
  (core/compile_core*.go, collect_core_path.go, build_catalog*.go, validate_catalog.go,
  catalog/setters.go, catalog/tag*.go, directive/path.go …), as far as it does not depend on
  the *contents* of schemas: MACRO collection, recursion check, PASTE expansion with context
  re-resolution, rule/tag/type registries, path checks, the catalog skeleton (which entities exist,
  in which order, with which names, annotations, descriptions, tags, formats) and every error the
  core raises on its own.  Everything jsight-schema-core decides (is this body a valid schema, does
  this type exist, is this an object) is *assumed to succeed*: the harness compares this model with
  the real build only when the real build succeeds or fails with one of the messages below.
  Hand-written; tied to the code by the `cat` correspondence op.
-/
namespace JsightVerif.Model.Build
open JsightVerif.Gen JsightVerif.Model

abbrev DT := Tree Dir

def _root_.JsightVerif.Model.Tree.dir {α} : Tree α → α
  | .node d _ => d
def _root_.JsightVerif.Model.Tree.kids {α} : Tree α → List (Tree α)
  | .node _ k => k

/-! ### errors -/

def kwErr (d : Dir) (msg : String) : PErr := ⟨msg, d.file, d.kwBegin, d.trace, [], false⟩

/-- where the Go code would dereference a nil pointer (`c.Info.Title`, `d.Parent.Type()`): a crash, not an error -/
def nilDeref (d : Dir) (what : String) : PErr := ⟨what, d.file, d.kwBegin, d.trace, [], true⟩

/-- Directive.BodyError -/
def bodyErr (d : Dir) (msg : String) : PErr :=
  match d.body with
  | some (f, b, e) => if e != 0 then ⟨msg, f, b, d.trace, [], false⟩ else kwErr d msg
  | none => kwErr d msg

def mAnnForbidden := "the annotation is not allowed for this directive"
def mRequired (p : String) := "required parameter(s) not specified (" ++ p ++ ")"
def mDuplicate := "the name \"_\" has already been declared before"
def mNotUnique := "the directive has already been defined"
def mBodyEmpty := "the body cannot be empty"
def mDescEmpty := "the description cannot be empty, learn more about the Description directive here: https://jsight.io/docs/jsight-api-0-3#directive-description"
def mMacroEmpty := "the macros cannot be empty, learn more about the MACRO directive here: https://jsight.io/docs/jsight-api-0-3#directive-macro"
def mRecursion := "file dependency recursion is detected, learn more about the INCLUDE directive here: https://jsight.io/docs/jsight-api-0-3#directive-include"
def mJsightFirst := "The first directive in the document must be JSIGHT"
def mParens := "apart from the opening parenthesis, there should be nothing else on this line, learn more about the explicit direcitve boundaries here: https://jsight.io/docs/jsight-api-0-3#boundaries-of-the-body-of-the-directive"

/-- every message this model can produce (the harness uses the same list to decide whether an
    error of the real build is one the model is expected to reproduce) -/
def modelledMessages : List String :=
  [mAnnForbidden, mRequired "Name", mRequired "TagName", mRequired "Version", mRequired "Title",
   mRequired "OperationId", mRequired "ProtocolName", mRequired "MethodName",
   "required parameter(s) not specified \"_\"", "required parameter(s) not specified",
   mDuplicate, mNotUnique, mBodyEmpty, mDescEmpty, mMacroEmpty, mRecursion, mJsightFirst, mParens,
   "macro not found", "incorrect context for the directive \"_\"",
   "incorrect context for the directive \"_\" with the \"_\" parameter",
   "The specified JSight version is not supported",
   "The directive JSIGHT has already been specified before",
   "The directive INFO has already been specified before",
   "The directive BaseUrl has already been defined before",
   "the directive should not have parameters in this case",
   "the OperationId \"_\" has already been defined", "the path \"_\" has already been defined",
   "wrong description context", "resource not found \"_\"", "tag not found \"_\"",
   "server not found for \"_\"", "path not found", "incorrect path", "HTTP method not found",
   "JSON-RPC method not found", "parent directive not found",
   "empty PATH parameter in \"_\"", "the parameter of the path is duplicated: \"_\"",
   "the ambiguous paths are not allowed: \"_\", \"_\", see the details here: https://jsight.io/docs/jsight-api-0-3#parameter-path",
   "directives \"_\" and \"_\" cannot be within the same URL directive",
   "this method has already been defined in the resource \"_\"",
   "directive parameters `Type` and `SchemaNotation` cannot be declared simultaneously",
   "incorrect request", "the request cannot be empty for \"_\"", "the response cannot be empty for \"_\"",
   "You cannot specify User Type in the response directive if it has a child Body directive.",
   "incorrect context for the directive", "the parameter value have to be \"_\"",
   "the directive \"_\" not found", "the INFO directive cannot be empty",
   "undefined request body for resource \"_\"", "undefined response body for resource \"_\", HTTP-code \"_\""]

/-! ### small byte helpers -/

def bytesLt : Bytes → Bytes → Bool
  | [], [] => false
  | [], _ :: _ => true
  | _ :: _, [] => false
  | a :: as, b :: bs => a < b || (a == b && bytesLt as bs)

def insertSorted (x : Bytes) : List Bytes → List Bytes
  | [] => [x]
  | y :: ys => if bytesLt y x then y :: insertSorted x ys else x :: y :: ys

/-- sort.Strings -/
def sortBytes (l : List Bytes) : List Bytes := l.foldr insertSorted []

def joinWith (sep : Bytes) : List Bytes → Bytes
  | [] => []
  | [x] => x
  | x :: rest => x ++ sep ++ joinWith sep rest

/-- splitPath: strings.Trim(path, "/"), split on "/", drop empty segments -/
def splitPath (p : Bytes) : List Bytes := (splitOn47 p).filter (· != [])

structure PathParam where
  path : Bytes
  param : Bytes
  deriving DecidableEq, Repr

/-- pathParameters -/
def pathParamsAux (segs : List Bytes) : Nat → List Bytes → List PathParam
  | _, [] => []
  | i, s :: rest =>
    let tail := pathParamsAux segs (i + 1) rest
    if s.head? == some 123 && s.getLast? == some 125 then
      ⟨joinWith [47] (segs.take (i + 1)), (s.drop 1).dropLast⟩ :: tail
    else tail

def pathParams (p : Bytes) : List PathParam := let s := splitPath p; pathParamsAux s 0 s

def firstDup : List Bytes → List Bytes → Option Bytes
  | [], _ => none
  | x :: rest, seen => if seen.contains x then some x else firstDup rest (x :: seen)

/-- PathParameters: the list, or the canonical error message -/
def pathParameters (p : Bytes) : Except String (List PathParam) :=
  let pp := pathParams p
  if pp.any (·.param == []) then .error "empty PATH parameter in \"_\""
  else if pp.length > 1 && (firstDup (pp.map (·.param)) []).isSome then .error "the parameter of the path is duplicated: \"_\""
  else .ok pp

def removeLastSegment (p : Bytes) : Bytes := joinWith [47] (splitPath p).dropLast

/-- checkSimilarPaths over the core's `similarPaths` map -/
def checkSimilar : List (Bytes × Bytes) → List PathParam → Except String (List (Bytes × Bytes))
  | sim, [] => .ok sim
  | sim, p :: rest =>
    let key := removeLastSegment p.path
    match sim.lookup key with
    | some v =>
      if v != p.param then .error "the ambiguous paths are not allowed: \"_\", \"_\", see the details here: https://jsight.io/docs/jsight-api-0-3#parameter-path"
      else checkSimilar sim rest
    | none => checkSimilar ((key, p.param) :: sim) rest

/-! ### url.PathEscape and catalog.tagName / pathTagTitle -/

def hexDigitU (n : Nat) : UInt8 := if n < 10 then (48 + n).toUInt8 else (55 + n).toUInt8

def pathEscapeByte (c : UInt8) : Bytes :=
  let alnum := (97 ≤ c && c ≤ 122) || (65 ≤ c && c ≤ 90) || (48 ≤ c && c ≤ 57)
  let mark := c == 45 || c == 95 || c == 46 || c == 126
  let reservedKept := c == 36 || c == 38 || c == 43 || c == 58 || c == 61 || c == 64
  if alnum || mark || reservedKept then [c] else [37, hexDigitU (c.toNat / 16), hexDigitU (c.toNat % 16)]

def pathTagTitle (path : Bytes) : Bytes :=
  match (splitOn47 path).dropWhile (fun s => s == [] || s == [46]) with
  | [] => [47]
  | s :: _ => 47 :: s

def replaceFirstSlash : Bytes → Bytes
  | [] => []
  | c :: rest => if c == 47 then 64 :: rest else c :: replaceFirstSlash rest

/-- catalog.tagName -/
def tagName (title : Bytes) : Bytes :=
  if title == [47] then [64, 95]
  else
    let t := replaceFirstSlash title
    let t := t.flatMap (fun c => if c == 95 then [95, 95] else [c])
    let t := t.flatMap pathEscapeByte
    t.map (fun c => if c == 37 then 95 else c)

/-! ### core/description.go -/

def replaceCRLF : Bytes → Bytes
  | 13 :: 10 :: rest => 10 :: replaceCRLF rest
  | 13 :: rest => 10 :: replaceCRLF rest
  | c :: rest => c :: replaceCRLF rest
  | [] => []

def trimLeftSet (set : List UInt8) (b : Bytes) : Bytes := b.dropWhile set.contains
def trimRightSet (set : List UInt8) (b : Bytes) : Bytes := (b.reverse.dropWhile set.contains).reverse
def trimSet (set : List UInt8) (b : Bytes) : Bytes := trimRightSet set (trimLeftSet set b)

/-- bytes.TrimSpace -/
def trimSpace (b : Bytes) : Bytes := trimRightSpace (b.length + 1) (trimLeftSpace (b.length + 1) b)

/-- descriptionRemoveParentheses -/
def descRemoveParens (b : Bytes) : Except String Bytes :=
  let bb := trimSpace b
  if bb.length ≥ 2 && bb.head? == some 40 && bb.getLast? == some 41 then
    let bb := (bb.drop 1).dropLast
    let bb := trimSet [32, 9] bb
    match bb.head?, bb.getLast? with
    | some h, some l =>
      if !isNewLineB h || !isNewLineB l then .error mParens else .ok (trimSet [13, 10] bb)
    | _, _ => .error mParens
  else .ok b

def splitLines (b : Bytes) : List Bytes :=
  let r := b.foldr (fun c (acc : List Bytes × Bytes) => if c == 10 then (acc.2 :: acc.1, []) else (acc.1, c :: acc.2)) ([], [])
  r.2 :: r.1

/-- the first line's leading blanks (as the Go loop computes them: a line of blanks only keeps all but the last) -/
def firstPrefix (l : Bytes) : Bytes :=
  let rec go : Nat → Bytes → Bytes → Bytes
    | _, [], _ => []                          -- loop ended without break: prefix stays empty
    | i, c :: rest, acc =>
      if (c != 9 && c != 32) || i == l.length - 1 then acc.reverse
      else go (i + 1) rest (c :: acc)
  go 0 l []

def shrinkPrefix : Nat → Bytes → Bytes → Bytes
  | 0, _, _ => []
  | n + 1, line, pre => if isPrefixB pre line then pre else shrinkPrefix n line pre.dropLast

/-- longestWhitespacePrefix -/
def longestWsPrefix (lines : List Bytes) : Bytes :=
  match lines with
  | [] => []
  | first :: rest =>
    let p := firstPrefix first
    if p == [] then []
    else rest.foldl (fun pre line => if pre == [] then [] else if line == [] then pre else shrinkPrefix (pre.length + 1) line pre) p

def description (b : Bytes) : Except String Bytes :=
  match descRemoveParens (replaceCRLF b) with
  | .error e => .error e
  | .ok b =>
    let b := trimLeftSet [13, 10] b
    let b := trimRightSet [13, 10, 9, 32] b
    let lines := splitLines b
    let pre := longestWsPrefix lines
    .ok (joinWith [10] (lines.map (fun l => if isPrefixB pre l then l.drop pre.length else l)))

/-! ### the catalog skeleton -/

structure Resp where
  code : Bytes
  ann : Bytes
  body : Option (String × String)     -- format, notation
  headers : Bool
  dir : Dir
  deriving Repr

structure HttpI where
  id : Bytes
  path : Bytes
  ann : Bytes
  desc : Option Bytes := none
  tags : List Bytes := []
  query : Option (Bytes × Bytes) := none                              -- format, example
  request : Option (Dir × Option (String × String) × Bool) := none    -- directive, body, headers
  responses : List Resp := []
  opId : Option Bytes := none
  deriving Repr

structure RpcI where
  id : Bytes
  path : Bytes
  ann : Bytes
  desc : Option Bytes := none
  tags : List Bytes := []
  params : Bool := false
  result : Bool := false
  deriving Repr

inductive Inter where
  | http (h : HttpI)
  | rpc (r : RpcI)
  deriving Repr

def Inter.id : Inter → Bytes
  | .http h => h.id
  | .rpc r => r.id

structure TagE where
  name : Bytes
  title : Bytes
  desc : Option Bytes := none
  http : List Bytes := []
  rpc : List Bytes := []
  deriving Repr

structure InfoE where
  dir : Dir
  title : Bytes := []
  version : Bytes := []
  desc : Option Bytes := none
  deriving Repr

structure Cat where
  jsight : Bytes := []
  info : Option InfoE := none
  servers : List (Bytes × Bytes × Bytes) := []      -- name, annotation, baseUrl
  tags : List TagE := []
  types : List (Bytes × Bytes × String) := []       -- name, annotation, notation
  enums : List (Bytes × Bytes) := []                -- name, annotation
  inters : List Inter := []
  deriving Repr

/-- the parts of JApiCore the build stage reads and writes -/
structure BSt where
  cat : Cat := {}
  uniqPath : List Bytes := []
  similar : List (Bytes × Bytes) := []
  opIds : List Bytes := []
  banned : List Kind := []
  raw : List (Bytes × Dir) := []        -- rawUserTypes: name ↦ the last TYPE directive with that name

def Cat.findInter (c : Cat) (id : Bytes) : Option Inter := c.inters.find? (·.id == id)

/-- Interactions.Update: the value changes, the key (and the place in the order) never does;
    no update of the code touches the tag list of an interaction either -/
def Cat.updHttp (c : Cat) (id : Bytes) (f : HttpI → HttpI) : Cat :=
  { c with inters := c.inters.map fun i => match i with
      | .http h => if h.id == id then .http { f h with id := h.id, tags := h.tags } else i
      | _ => i }

def Cat.updRpc (c : Cat) (id : Bytes) (f : RpcI → RpcI) : Cat :=
  { c with inters := c.inters.map fun i => match i with
      | .rpc r => if r.id == id then .rpc { f r with id := r.id, tags := r.tags } else i
      | _ => i }

/-! ### Directive.Path / HTTPMethod / JsonRpcMethodName over the chain directive :: ancestors -/

def finishPath (p : Bytes) : Except String Bytes :=
  if p.head? == some 47 then .ok p else .error "incorrect path"

def pathOfChain : List Dir → Except String Bytes
  | [] => .error "path not found"
  | d :: anc =>
    if d.kind == .URL then finishPath (d.namedParam "Path")
    else if isHTTPMethod d.kind && d.namedParam "Path" != [] then finishPath (d.namedParam "Path")
    else pathOfChain anc

def methodOfChain : List Dir → Except String Kind
  | [] => .error "HTTP method not found"
  | d :: anc => if isHTTPMethod d.kind then .ok d.kind else methodOfChain anc

def rpcNameOfChain : List Dir → Except String Bytes
  | [] => .error "JSON-RPC method not found"
  | d :: anc => if d.kind == .Method then .ok (d.namedParam "MethodName") else rpcNameOfChain anc

def sp : Bytes := [32]

/-- newHTTPInteractionID(...).String() -/
def httpId (chain : List Dir) : Except String (Bytes × Bytes) :=
  match pathOfChain chain with
  | .error e => .error e
  | .ok p =>
    match methodOfChain chain with
    | .error e => .error e
    | .ok k => .ok (strBytes "http " ++ strBytes k.keyword ++ sp ++ p, p)

def rpcId (chain : List Dir) : Except String (Bytes × Bytes) :=
  match pathOfChain chain with
  | .error e => .error e
  | .ok p =>
    match rpcNameOfChain chain with
    | .error e => .error e
    | .ok m => .ok (strBytes "json-rpc-2.0 " ++ m ++ sp ++ p, p)

/-! ### stage 1: collectMacro -/

def collectMacro : List DT → List (Bytes × DT) → List DT → Except PErr (List (Bytes × DT) × List DT)
  | [], ms, acc => .ok (ms, acc.reverse)
  | t :: rest, ms, acc =>
    let d := t.dir
    if d.kind == .Macro then
      if d.ann != [] then .error (kwErr d mAnnForbidden)
      else
        let name := d.namedParam "Name"
        if name == [] then .error (kwErr d (mRequired "Name"))
        else if t.kids.isEmpty then .error (kwErr d mMacroEmpty)
        else if ms.any (·.1 == name) then .error (kwErr d mDuplicate)
        else collectMacro rest (ms ++ [(name, t)]) acc
    else collectMacro rest ms (t :: acc)

/-! ### stage 2: checkMacroForRecursion -/

mutual
  /-- findPaste; returns the visited set -/
  def findPaste (ms : List (Bytes × DT)) (macroName : Bytes) : Nat → DT → List Bytes → Except PErr (List Bytes)
    | 0, _, v => .ok v
    | n + 1, .node d kids, visited =>
      if d.kind == .Paste then
        let name := d.namedParam "Name"
        if name == [] then .error (kwErr d (mRequired "Name"))
        else if name == macroName then .error (kwErr d mRecursion)
        else if visited.contains name then .ok visited
        else
          match ms.lookup name with
          | some m => findPasteList ms macroName n m.kids (name :: visited)
          | none => .ok (name :: visited)
      else findPasteList ms macroName n kids visited
  def findPasteList (ms : List (Bytes × DT)) (macroName : Bytes) : Nat → List DT → List Bytes → Except PErr (List Bytes)
    | 0, _, v => .ok v
    | _ + 1, [], v => .ok v
    | n + 1, t :: rest, v =>
      match findPaste ms macroName n t v with
      | .error e => .error e
      | .ok v' => findPasteList ms macroName n rest v'
end

mutual
  def sizeDT : DT → Nat
    | .node _ kids => 1 + sizeList kids
  def sizeList : List DT → Nat
    | [] => 0
    | t :: rest => sizeDT t + sizeList rest
end

def checkRecursion (ms : List (Bytes × DT)) : Except PErr Unit :=
  let fuel := (ms.length + 2) * (sizeList (ms.map (·.2)) + 2) + 8
  let rec go : List Bytes → Except PErr Unit
    | [] => .ok ()
    | name :: rest =>
      match ms.lookup name with
      | none => go rest
      | some m =>
        match findPaste ms name fuel m [name] with
        | .error e => .error e
        | .ok _ => go rest
  go (sortBytes (ms.map (·.1)))

/-! ### stage 3: processPaste (context re-resolution on the zipper) -/

/-- currentContextDirective = dd.Parent: close frames until `k` are left -/
def closeTo {α} (k : Nat) : Nat → Ctx α → Ctx α
  | 0, c => c
  | fuel + 1, c =>
    if c.stack.length ≤ k then c
    else
      match c.stack with
      | [] => c
      | [f] => closeTo k fuel ⟨[], f.close :: c.rootsRev⟩
      | f :: g :: rest => closeTo k fuel ⟨g.absorb (some f.close) :: rest, c.rootsRev⟩

/-- collectRulesFromDirectives / buildRule / AddEnum: ENUMs with a body register their name -/
def collectRules : List DT → List (Bytes × Bytes) → Except PErr (List (Bytes × Bytes))
  | [], enums => .ok enums
  | t :: rest, enums =>
    let d := t.dir
    if d.kind == .Enum && d.bodyIsSet then
      let name := d.namedParam "Name"
      if enums.any (·.1 == name) then .error (kwErr d mDuplicate)
      else collectRules rest (enums ++ [(name, d.ann)])
    else collectRules rest enums

structure PasteSt where
  ctx : Ctx Dir := Ctx.empty
  enums : List (Bytes × Bytes) := []

mutual
  def pasteList (ms : List (Bytes × DT)) : Nat → List DT → PasteSt → Except PErr PasteSt
    | 0, _, s => .ok s
    | _ + 1, [], s => .ok s
    | n + 1, t :: rest, s =>
      match pasteNode ms n t s with
      | .error e => .error e
      | .ok s' => pasteList ms n rest s'
  def pasteNode (ms : List (Bytes × DT)) : Nat → DT → PasteSt → Except PErr PasteSt
    | 0, _, s => .ok s
    | n + 1, .node d kids, s =>
      if d.kind == .Paste then
        -- processPasteDirective; any error is re-located at this PASTE directive
        let inner : Except PErr PasteSt :=
          if d.ann != [] then .error (kwErr d mAnnForbidden)
          else
            let name := d.namedParam "Name"
            if name == [] then .error (kwErr d (mRequired "Name"))
            else
              match ms.lookup name with
              | none => .error (kwErr d "macro not found")
              | some m =>
                match collectRules m.kids s.enums with
                | .error e => .error e
                | .ok enums => pasteList ms n m.kids { s with enums := enums }
        match inner with
        | .error e => .error (kwErr d e.msg)
        | .ok s' => .ok s'
      else
        match attach s.ctx d d.head with
        | .error e => .error (kwErr d (ctxErrMsg e))
        | .ok ctx' =>
          let depth := ctx'.stack.length
          match pasteList ms n kids { s with ctx := ctx' } with
          | .error e => .error e
          | .ok s' =>
            if d.explicit then .ok { s' with ctx := closeTo (depth - 1) (s'.ctx.stack.length + 1) s'.ctx }
            else .ok s'
end

/-! ### stages 4–8 -/

def collectTags : List DT → List TagE → Except PErr (List TagE)
  | [], tags => .ok tags
  | t :: rest, tags =>
    let d := t.dir
    if d.kind == .TAG then
      let name := d.namedParam "TagName"
      if name == [] then .error (kwErr d (mRequired "TagName"))
      else if tags.any (·.name == name) then .error (kwErr d mDuplicate)
      else collectTags rest (tags ++ [{ name := name, title := if d.ann == [] then name else d.ann }])
    else collectTags rest tags

/-- rawUserTypes.Set keeps the first position and the last directive -/
def collectRawTypes : List DT → List (Bytes × Dir) → List (Bytes × Dir)
  | [], acc => acc
  | t :: rest, acc =>
    let d := t.dir
    if d.kind == .Type then
      let name := d.namedParam "Name"
      if acc.any (·.1 == name) then collectRawTypes rest (acc.map fun e => if e.1 == name then (name, d) else e)
      else collectRawTypes rest (acc ++ [(name, d)])
    else collectRawTypes rest acc

def checkRawTypes : List (Bytes × Dir) → Except PErr Unit
  | [] => .ok ()
  | (_, d) :: rest =>
    let sn := d.namedParam "SchemaNotation"
    if (sn == [] || sn == strBytes "jsight" || sn == strBytes "regex") && !d.bodyIsSet then .error (kwErr d mBodyEmpty)
    else checkRawTypes rest

mutual
  /-- collectPaths; the state is the parent of the previously collected Path directive -/
  def collectPaths : List DT → List Dir → Option (Nat × Int) → Except PErr (Option (Nat × Int))
    | [], _, last => .ok last
    | t :: rest, anc, last =>
      match collectPathNode t anc last with
      | .error e => .error e
      | .ok last' => collectPaths rest anc last'
  def collectPathNode : DT → List Dir → Option (Nat × Int) → Except PErr (Option (Nat × Int))
    | .node d kids, anc, last =>
      if d.kind == .Macro then .ok last
      else
        let here : Except PErr (Option (Nat × Int)) :=
          if d.kind == .Path then
            if d.ann != [] then .error (kwErr d mAnnForbidden)
            else if !d.bodyIsSet then .error (kwErr d mBodyEmpty)
            else
              match pathOfChain (d :: anc) with
              | .error e => .error (kwErr d e)
              | .ok p =>
                match pathParameters p with
                | .error e => .error (kwErr d e)
                | .ok _ =>
                  match anc with
                  | [] => .error (kwErr d "parent directive not found")
                  | par :: _ =>
                    if last == some (par.fid, par.kwBegin) then .error (kwErr d mNotUnique)
                    else .ok (some (par.fid, par.kwBegin))
          else .ok last
        match here with
        | .error e => .error e
        | .ok last' => collectPaths kids (d :: anc) last'
end

/-- addMissedUndefindedPathVariables: roots only -/
def addMissed : List DT → Except PErr Unit
  | [] => .ok ()
  | t :: rest =>
    let d := t.dir
    if d.kind == .URL || isHTTPMethod d.kind then
      if t.kids.any (·.dir.kind == .Path) then addMissed rest
      else
        match pathOfChain [d] with
        | .error e => .error (kwErr d e)
        | .ok p =>
          match pathParameters p with
          | .error e => .error (kwErr d e)
          | .ok _ => addMissed rest
    else addMissed rest

/-! ### stage 10: addDirectives -/

def notationOf (sn : Bytes) : Option String :=
  if sn == [] || sn == strBytes "jsight" then some "jsight"
  else if sn == strBytes "regex" then some "regex"
  else if sn == strBytes "any" then some "any"
  else if sn == strBytes "empty" then some "empty"
  else none

def formatOf (n : String) : String :=
  if n == "jsight" then "json" else if n == "regex" then "plainString" else "binary"

def firstTagsKid (kids : List DT) : Option Dir := (kids.find? (·.dir.kind == .Tags)).map (·.dir)

/-- Catalog.tagsFromTagsDirective -/
def resolveTags (tags : List TagE) (td : Dir) : Except PErr (List Bytes) :=
  if td.ann != [] then .error (kwErr td mAnnForbidden)
  else if td.unnamed.isEmpty then .error (kwErr td "required parameter(s) not specified")
  else
    let rec go : List Bytes → List Bytes → Except PErr (List Bytes)
      | [], used => .ok used.reverse
      | n :: rest, used =>
        if !tags.any (·.name == n) then .error (kwErr td "tag not found \"_\"")
        else if used.contains n then .error (kwErr td mDuplicate)
        else go rest (n :: used)
    go td.unnamed []

def appendToTag (tags : List TagE) (name id : Bytes) (isHttp : Bool) : List TagE :=
  tags.map fun t => if t.name == name then (if isHttp then { t with http := t.http ++ [id] } else { t with rpc := t.rpc ++ [id] }) else t

/-- tags named by a Tags directive, with the id appended to each -/
def tagsFromDir (c : Cat) (td : Dir) (id : Bytes) (isHttp : Bool) : Except PErr (List Bytes × List TagE) :=
  match resolveTags c.tags td with
  | .error e => .error e
  | .ok names => .ok (names, names.foldl (fun ts n => appendToTag ts n id isHttp) c.tags)

/-- getParentTagsDirective -/
def parentTagsDir (anc : List Dir) (parentKids : List DT) : Option Dir :=
  match anc with
  | p :: _ => if p.kind == .URL then firstTagsKid parentKids else none
  | [] => none

/-- Catalog.pathTag + append -/
def pathTagFor (c : Cat) (id path : Bytes) (isHttp : Bool) : List Bytes × List TagE :=
  let title := pathTagTitle path
  let name := tagName title
  let tags := if c.tags.any (·.name == name) then c.tags else c.tags ++ [{ name := name, title := title }]
  ([name], appendToTag tags name id isHttp)

/-- Catalog.tagNames: the interaction's tags, with the id appended to each -/
def tagNames (c : Cat) (kids : List DT) (anc : List Dir) (parentKids : List DT) (id path : Bytes) (isHttp : Bool) :
    Except PErr (List Bytes × List TagE) :=
  match firstTagsKid kids with
  | some td => tagsFromDir c td id isHttp
  | none =>
    match parentTagsDir anc parentKids with
    | some td => tagsFromDir c td id isHttp
    | none => .ok (pathTagFor c id path isHttp)

def isRpcKid (d : Dir) : Bool := d.kind == .Protocol || d.kind == .Method

/-- checkJsonRpcUrlChildCompatible -/
def checkUrlKids : List DT → Except PErr Unit
  | [] => .ok ()
  | base :: rest =>
    match rest.find? (fun t => isRpcKid t.dir != isRpcKid base.dir) with
    | some t => .error (kwErr t.dir "directives \"_\" and \"_\" cannot be within the same URL directive")
    | none => .ok ()

/-- what a body-carrying directive (Request/response code/Body) contributes: format and notation -/
def bodySpec (d : Dir) : Except PErr (String × String) :=
  match notationOf (d.namedParam "SchemaNotation") with
  | none => .error (kwErr d "unknown notation")
  | some n => .ok (formatOf n, n)

/-- Catalog.AddRequestBody -/
def setRequestBody (cat : Cat) (d : Dir) (id : Bytes) (fmt nota : String) : Except PErr Cat :=
  match cat.findInter id with
  | some (.http h) =>
    match h.request with
    | none => .error (kwErr d "the request cannot be empty for \"_\"")
    | some (rd, body, hdr) =>
      if body.isSome then .error (kwErr d mNotUnique)
      else .ok (cat.updHttp id fun h => { h with request := some (rd, some (fmt, nota), hdr) })
  | _ => .error (kwErr d "resource not found \"_\"")

/-- Catalog.AddRequest: only for the Request directive, only if there is none yet -/
def markRequest (cat : Cat) (d : Dir) (id : Bytes) : Cat :=
  if d.kind == .Request then
    cat.updHttp id fun h => if h.request.isNone then { h with request := some (d, none, false) } else h
  else cat

/-- which of the four accepted parameter/body combinations of a request body this is -/
def requestBodyCase (d : Dir) (nota : String) : Bool :=
  let typ := d.namedParam "Type"
  let jsight := nota == "jsight"
  (jsight && typ != [] && !d.bodyIsSet) || (jsight && typ == [] && d.bodyIsSet)
    || (nota == "regex" && typ == [] && d.bodyIsSet)
    || ((nota == "any" || nota == "empty") && !d.bodyIsSet)

/-- addRequest (for Request itself and for Body under Request) -/
def addRequest (s : BSt) (d : Dir) (anc : List Dir) : Except PErr BSt :=
  if d.ann != [] then .error (kwErr d mAnnForbidden)
  else if d.namedParam "SchemaNotation" != [] && d.namedParam "Type" != [] then
    .error (kwErr d "directive parameters `Type` and `SchemaNotation` cannot be declared simultaneously")
  else
    match bodySpec d with
    | .error e => .error e
    | .ok (fmt, nota) =>
      match httpId (d :: anc) with
      | .error e => .error (kwErr d e)
      | .ok (id, _) =>
        if requestBodyCase d nota then
          match setRequestBody (markRequest s.cat d id) d id fmt nota with
          | .error e => .error e
          | .ok cat' => .ok { s with cat := cat' }
        else if d.kind == .Body then .error (kwErr d "incorrect request")
        else .ok { s with cat := markRequest s.cat d id }

/-- Catalog.AddResponse: only for the response-code directive -/
def markResponse (cat : Cat) (d : Dir) (id : Bytes) : Cat :=
  if d.kind == .HTTPResponseCode then
    cat.updHttp id fun h => { h with responses := h.responses ++ [⟨d.keyword, d.ann, none, false, d⟩] }
  else cat

/-- Catalog.AddResponseBody (the last response of the interaction gets the body) -/
def setResponseBody (cat : Cat) (d : Dir) (id : Bytes) (fmt nota : String) : Except PErr Cat :=
  match cat.findInter id with
  | some (.http h) =>
    match h.responses.reverse with
    | [] => .error (kwErr d "the response cannot be empty for \"_\"")
    | last :: before =>
      .ok (cat.updHttp id fun h => { h with responses := (({ last with body := some (fmt, nota) }) :: before).reverse })
  | _ => .error (kwErr d "resource not found \"_\"")

/-- Body under a response code that names a user type, although the response code already does -/
def responseTypeClash (d : Dir) (anc : List Dir) : Bool :=
  d.kind == .Body &&
    (match anc with
     | p :: _ => p.kind == .HTTPResponseCode && d.namedParam "Type" != [] && p.namedParam "Type" != []
     | [] => false)

/-- addResponse (for the response code itself and for Body under it) -/
def addResponse (s : BSt) (d : Dir) (anc : List Dir) : Except PErr BSt :=
  if d.namedParam "SchemaNotation" != [] && d.namedParam "Type" != [] then
    .error (kwErr d "directive parameters `Type` and `SchemaNotation` cannot be declared simultaneously")
  else
    match bodySpec d with
    | .error e => .error e
    | .ok (fmt, nota) =>
      if responseTypeClash d anc then .error (kwErr d "You cannot specify User Type in the response directive if it has a child Body directive.")
      else
        match httpId (d :: anc) with
        | .error e => .error (kwErr d e)
        | .ok (id, _) =>
          if d.namedParam "Type" != [] || d.bodyIsSet || nota == "any" || nota == "empty" then
            match setResponseBody (markResponse s.cat d id) d id fmt nota with
            | .error e => .error e
            | .ok cat' => .ok { s with cat := cat' }
          else if d.kind == .Body then .error (kwErr d mBodyEmpty)
          else .ok { s with cat := markResponse s.cat d id }

/-- which handler of core/build_catalog_directives.go each arm of `addDirective` transcribes; compared
    with the regenerated dispatch table (`directiveFunctions` of core/core.go) in Props/C02 -/
def handlerName : Kind → Option String
  | .Jsight => some "addJSight" | .Info => some "addInfo" | .Title => some "addTitle" | .Version => some "addVersion"
  | .Description => some "addDescription" | .Server => some "addServer" | .BaseURL => some "addBaseUrl"
  | .Type => some "addType" | .URL => some "addURL"
  | .Get | .Post | .Put | .Patch | .Delete => some "addHTTPMethod"
  | .Query => some "addQuery" | .Request => some "addRequest" | .HTTPResponseCode => some "addResponse"
  | .Headers => some "addHeaders" | .Body => some "addBody" | .Protocol => some "addProtocol"
  | .Method => some "addJsonRpcMethod" | .Params => some "addJsonRpcParams" | .Result => some "addJsonRpcResult"
  | .OperationID => some "addOperationID"
  | _ => none

/-- one directive; `anc` = ancestors innermost first, `kids` its children, `parentKids` its siblings incl. itself,
    `before` = the siblings before it -/
def addDirective (s : BSt) (d : Dir) (kids : List DT) (anc : List Dir) (parentKids before : List DT) : Except PErr BSt :=
  if s.banned.contains d.kind then .error (kwErr d ("the directive is not allowed (" ++ d.kind.keyword ++ ")"))
  else
  let c := s.cat
  match d.kind with
  | .Jsight =>
    let v := d.namedParam "Version"
    if v == [] then .error (kwErr d (mRequired "Version"))
    else if v != strBytes "0.3" then .error (kwErr d "The specified JSight version is not supported")
    else if d.ann != [] then .error (kwErr d mAnnForbidden)
    else if c.jsight != [] then .error (kwErr d "The directive JSIGHT has already been specified before")
    else .ok { s with cat := { c with jsight := v } }
  | .Info =>
    if !d.named.isEmpty then .error (kwErr d "the directive should not have parameters in this case")
    else if d.ann != [] then .error (kwErr d mAnnForbidden)
    else if c.info.isSome then .error (kwErr d "The directive INFO has already been specified before")
    else .ok { s with cat := { c with info := some { dir := d } } }
  | .Title =>
    let t := d.namedParam "Title"
    if t == [] then .error (kwErr d (mRequired "Title"))
    else if d.ann != [] then .error (kwErr d mAnnForbidden)
    else
      match c.info with
      | none => .error (nilDeref d "Info is nil")
      | some i => if i.title != [] then .error (kwErr d mNotUnique) else .ok { s with cat := { c with info := some { i with title := t } } }
  | .Version =>
    let v := d.namedParam "Version"
    if v == [] then .error (kwErr d (mRequired "Version"))
    else if d.ann != [] then .error (kwErr d mAnnForbidden)
    else
      match c.info with
      | none => .error (nilDeref d "Info is nil")
      | some i => if i.version != [] then .error (kwErr d mNotUnique) else .ok { s with cat := { c with info := some { i with version := v } } }
  | .OperationID =>
    let id := d.namedParam "OperationId"
    if id == [] then .error (kwErr d (mRequired "OperationId"))
    else if d.ann != [] then .error (kwErr d mAnnForbidden)
    else if s.opIds.contains id then .error (kwErr d "the OperationId \"_\" has already been defined")
    else
      match httpId (d :: anc) with
      | .error e => .error (kwErr d e)
      | .ok (hid, _) =>
        match c.findInter hid with
        | some (.http h) =>
          if h.opId.isSome then .error (kwErr d mNotUnique)
          else .ok { s with opIds := id :: s.opIds, cat := c.updHttp hid fun h => { h with opId := some id } }
        | _ => .error (kwErr d "resource not found \"_\"")
  | .Description =>
    if d.ann != [] then .error (kwErr d mAnnForbidden)
    else
      if !d.bodyIsSet then .error (kwErr d mDescEmpty)
      else .ok s     -- the text is handled by `addDescriptionText` below (needs the file contents)
  | .Server =>
    let name := d.namedParam "Name"
    if name == [] then .error (kwErr d (mRequired "Name"))
    else if c.servers.any (·.1 == name) then .error (kwErr d mDuplicate)
    else .ok { s with cat := { c with servers := c.servers ++ [(name, d.ann, [])] } }
  | .BaseURL =>
    let p := d.namedParam "Path"
    if p == [] then .error (kwErr d "required parameter(s) not specified \"_\"")
    else if d.ann != [] then .error (kwErr d mAnnForbidden)
    else
      let sname := match anc with | par :: _ => par.namedParam "Name" | [] => []
      match c.servers.find? (·.1 == sname) with
      | none => .error (kwErr d "server not found for \"_\"")
      | some (_, _, base) =>
        if base != [] then .error (kwErr d "The directive BaseUrl has already been defined before")
        else .ok { s with cat := { c with servers := c.servers.map fun e => if e.1 == sname then (e.1, e.2.1, p) else e } }
  | .Type =>
    let name := d.namedParam "Name"
    if name == [] then .error (kwErr d (mRequired "Name"))
    else
      -- the schema kept for a name is that of the last TYPE directive with it: another notation there
      -- means the name is declared twice (fix 0aaa9b7; before it the Go code panicked here)
      match (s.raw.lookup name).filter (fun last => notationOf (last.namedParam "SchemaNotation") != notationOf (d.namedParam "SchemaNotation")) with
      | some last => .error (kwErr last mDuplicate)
      | none =>
        if c.types.any (·.1 == name) then .error (kwErr d mDuplicate)
        else
          match notationOf (d.namedParam "SchemaNotation") with
          | none => .error (kwErr d "unknown notation")
          | some n => .ok { s with cat := { c with types := c.types ++ [(name, d.ann, n)] } }
  | .URL =>
    if d.ann != [] then .error (kwErr d mAnnForbidden)
    else
      match pathOfChain (d :: anc) with
      | .error e => .error (kwErr d e)
      | .ok p =>
        match pathParameters p with
        | .error e => .error (kwErr d e)
        | .ok pp =>
          match checkSimilar s.similar pp with
          | .error e => .error (kwErr d e)
          | .ok sim =>
            if s.uniqPath.contains p then .error (kwErr d "the path \"_\" has already been defined")
            else
              match checkUrlKids kids with
              | .error e => .error e
              | .ok () => .ok { s with similar := sim, uniqPath := p :: s.uniqPath }
  | .Get | .Post | .Put | .Patch | .Delete =>
    match pathOfChain (d :: anc) with
    | .error e => .error (kwErr d e)
    | .ok p =>
      match pathParameters p with
      | .error e => .error (kwErr d e)
      | .ok pp =>
        match checkSimilar s.similar pp with
        | .error e => .error (kwErr d e)
        | .ok sim =>
          match httpId (d :: anc) with
          | .error e => .error (kwErr d e)
          | .ok (id, path) =>
            if (c.findInter id).isSome then .error (kwErr d "this method has already been defined in the resource \"_\"")
            else
              match tagNames c kids anc parentKids id path true with
              | .error e => .error e
              | .ok (names, tags) =>
                .ok { s with similar := sim,
                             cat := { c with tags := tags, inters := c.inters ++ [.http { id := id, path := path, ann := d.ann, tags := names }] } }
  | .Query =>
    if d.ann != [] then .error (kwErr d mAnnForbidden)
    else if !d.bodyIsSet then .error (kwErr d mBodyEmpty)
    else
      let fmt := if d.namedParam "Format" == [] then strBytes "htmlFormEncoded" else d.namedParam "Format"
      match httpId (d :: anc) with
      | .error e => .error (kwErr d e)
      | .ok (id, _) =>
        match c.findInter id with
        | some (.http h) =>
          if h.query.isSome then .error (kwErr d mNotUnique)
          else .ok { s with cat := c.updHttp id fun h => { h with query := some (fmt, d.namedParam "QueryExample") } }
        | _ => .error (kwErr d "resource not found \"_\"")
  | .Request => addRequest s d anc
  | .HTTPResponseCode => addResponse s d anc
  | .Headers =>
    if d.ann != [] then .error (kwErr d mAnnForbidden)
    else if !d.bodyIsSet then .error (kwErr d mBodyEmpty)
    else
      match anc with
      | [] => .error (nilDeref d "Parent is nil")
      | par :: _ =>
        if par.kind == .Request then
          match httpId (d :: anc) with
          | .error e => .error (kwErr d e)
          | .ok (id, _) =>
            match c.findInter id with
            | some (.http h) =>
              match h.request with
              | none => .error (kwErr d "the request cannot be empty for \"_\"")
              | some (rd, body, hdr) =>
                if hdr then .error (kwErr d mNotUnique)
                else .ok { s with cat := c.updHttp id fun h => { h with request := some (rd, body, true) } }
            | _ => .error (kwErr d "resource not found \"_\"")
        else if par.kind == .HTTPResponseCode then
          match httpId (d :: anc) with
          | .error e => .error (kwErr d e)
          | .ok (id, _) =>
            match c.findInter id with
            | some (.http h) =>
              match h.responses.reverse with
              | [] => .error (kwErr d "the response cannot be empty for \"_\"")
              | last :: before =>
                if last.headers then .error (kwErr d mNotUnique)
                else .ok { s with cat := c.updHttp id fun h => { h with responses := (({ last with headers := true }) :: before).reverse } }
            | _ => .error (kwErr d "resource not found \"_\"")
        else .error (kwErr d "incorrect context for the directive")
  | .Body =>
    match anc with
    | [] => .error (nilDeref d "Parent is nil")
    | par :: _ =>
      if !par.named.isEmpty && par.kind != .Macro then .error (kwErr par "the directive should not have parameters in this case")
      else if par.kind == .Request then addRequest s d anc
      else if par.kind == .HTTPResponseCode then addResponse s d anc
      else .ok s
  | .Protocol =>
    if d.ann != [] then .error (kwErr d mAnnForbidden)
    else if d.namedParam "ProtocolName" == [] then .error (kwErr d (mRequired "ProtocolName"))
    else if d.namedParam "ProtocolName" != strBytes "json-rpc-2.0" then .error (kwErr d "the parameter value have to be \"_\"")
    else if before.any (·.dir.kind == .Protocol) then .error (kwErr d mNotUnique)
    else .ok s
  | .Method =>
    if d.namedParam "MethodName" == [] then .error (kwErr d (mRequired "MethodName"))
    else if !parentKids.any (·.dir.kind == .Protocol) then .error (kwErr d "the directive \"_\" not found")
    else
      match rpcId (d :: anc) with
      | .error e => .error (kwErr d e)
      | .ok (id, path) =>
        if (c.findInter id).isSome then .error (kwErr d "this method has already been defined in the resource \"_\"")
        else
          match tagNames c kids anc parentKids id path false with
          | .error e => .error e
          | .ok (names, tags) =>
            .ok { s with cat := { c with tags := tags, inters := c.inters ++ [.rpc { id := id, path := path, ann := d.ann, tags := names }] } }
  | .Params | .Result =>
    if d.ann != [] then .error (kwErr d mAnnForbidden)
    else if !d.bodyIsSet then .error (kwErr d mBodyEmpty)
    else
      match rpcId (d :: anc) with
      | .error e => .error (kwErr d e)
      | .ok (id, _) =>
        match c.findInter id with
        | some (.rpc r) =>
          if d.kind == .Params then
            if r.params then .error (kwErr d mNotUnique) else .ok { s with cat := c.updRpc id fun r => { r with params := true } }
          else
            if r.result then .error (kwErr d mNotUnique) else .ok { s with cat := c.updRpc id fun r => { r with result := true } }
        | _ => .error (kwErr d "resource not found \"_\"")
  | _ => .ok s

/-- the text half of addDescription -/
def addDescriptionText (s : BSt) (d : Dir) (anc : List Dir) (content : Bytes → Bytes) : Except PErr BSt :=
  match d.body with
  | none => .ok s
  | some (f, b, e) =>
    let data := ((content f).drop b.toNat).take (e.toNat + 1 - b.toNat)
    match description data with
    | .error m => .error (bodyErr d m)
    | .ok text =>
      if text == [] then .error (kwErr d mDescEmpty)
      else
        let c := s.cat
        match anc with
        | [] => .error (nilDeref d "Parent is nil")
        | par :: _ =>
          if par.kind == .Info then
            match c.info with
            | none => .error (nilDeref d "Info is nil")
            | some i => if i.desc.isSome then .error (kwErr d mNotUnique) else .ok { s with cat := { c with info := some { i with desc := some text } } }
          else if isHTTPMethod par.kind then
            match httpId (d :: anc) with
            | .error e => .error (kwErr d e)
            | .ok (id, _) =>
              match c.findInter id with
              | some (.http h) =>
                if h.desc.isSome then .error (kwErr d mNotUnique) else .ok { s with cat := c.updHttp id fun h => { h with desc := some text } }
              | _ => .error (kwErr d "resource not found \"_\"")
          else if par.kind == .Method then
            match rpcId (d :: anc) with
            | .error e => .error (kwErr d e)
            | .ok (id, _) =>
              match c.findInter id with
              | some (.rpc r) =>
                if r.desc.isSome then .error (kwErr d mNotUnique) else .ok { s with cat := c.updRpc id fun r => { r with desc := some text } }
              | _ => .error (kwErr d "resource not found \"_\"")
          else if par.kind == .TAG then
            let name := par.namedParam "TagName"
            match c.tags.find? (·.name == name) with
            | none => .error (kwErr d "tag not found \"_\"")
            | some t =>
              if t.desc.isSome then .error (kwErr d mNotUnique)
              else .ok { s with cat := { c with tags := c.tags.map fun t => if t.name == name then { t with desc := some text } else t } }
          else .error (kwErr d "wrong description context")

mutual
  /-- addDirectiveBranch over a sibling list -/
  def addList (content : Bytes → Bytes) : List DT → List Dir → List DT → List DT → BSt → Except PErr BSt
    | [], _, _, _, s => .ok s
    | t :: rest, anc, all, before, s =>
      match addNode content t anc all before s with
      | .error e => .error e
      | .ok s' => addList content rest anc all (before ++ [t]) s'
  def addNode (content : Bytes → Bytes) : DT → List Dir → List DT → List DT → BSt → Except PErr BSt
    | .node d kids, anc, all, before, s =>
      match addDirective s d kids anc all before with
      | .error e => .error e
      | .ok s1 =>
        let s2 : Except PErr BSt := if d.kind == .Description && !s.banned.contains d.kind then addDescriptionText s1 d anc content else .ok s1
        match s2 with
        | .error e => .error e
        | .ok s2 => addList content kids (d :: anc) kids [] s2
end

/-! ### stage 12: validateCatalog (the part that does not need schema contents) -/

def validate (c : Cat) : Except PErr Unit :=
  match c.info with
  | some i =>
    if i.title == [] && i.version == [] && i.desc.isNone then .error (kwErr i.dir "the INFO directive cannot be empty") else .ok ()
  | none => .ok ()

def validateRequests : List Inter → Except PErr Unit
  | [] => .ok ()
  | .http h :: rest =>
    match h.request with
    | some (rd, none, _) => .error (kwErr rd "undefined request body for resource \"_\"")
    | _ => validateRequests rest
  | _ :: rest => validateRequests rest

def validateResponses : List Inter → Except PErr Unit
  | [] => .ok ()
  | .http h :: rest =>
    match h.responses.find? (·.body.isNone) with
    | some r => .error (kwErr r.dir "undefined response body for resource \"_\", HTTP-code \"_\"")
    | none => validateResponses rest
  | _ :: rest => validateResponses rest

/-! ### the whole pipeline after scanProject -/

structure Built where
  cat : Cat
  expanded : List DT

def build (roots : List DT) (rootFile : Bytes) (banned : List Kind) (content : Bytes → Bytes) : Except PErr Built :=
  match collectMacro roots [] [] with
  | .error e => .error e
  | .ok (ms, dirs) =>
  match checkRecursion ms with
  | .error e => .error e
  | .ok () =>
  let fuel := (ms.length + 2) * (sizeList roots + 2) * (sizeList roots + 2) + 16
  match pasteList ms fuel dirs {} with
  | .error e => .error e
  | .ok ps =>
  let expanded := ps.ctx.forest
  match collectRules dirs ps.enums with
  | .error e => .error e
  | .ok enums =>
  match collectTags expanded [] with
  | .error e => .error e
  | .ok tags =>
  match checkRawTypes (collectRawTypes expanded []) with
  | .error e => .error e
  | .ok () =>
  match collectPaths expanded [] none with
  | .error e => .error e
  | .ok _ =>
  match addMissed expanded with
  | .error e => .error e
  | .ok () =>
  match expanded with
  | [] => .error ⟨mJsightFirst, rootFile, 0, [], [], false⟩
  | first :: _ =>
  if first.dir.kind != .Jsight then .error (kwErr first.dir mJsightFirst)
  else
  match addList content expanded [] expanded [] { cat := { tags := tags, enums := enums }, banned := banned, raw := collectRawTypes expanded [] } with
  | .error e => .error e
  | .ok s =>
  match validate s.cat with
  | .error e => .error e
  | .ok () =>
  match validateRequests s.cat.inters with
  | .error e => .error e
  | .ok () =>
  match validateResponses s.cat.inters with
  | .error e => .error e
  | .ok () => .ok ⟨s.cat, expanded⟩

end JsightVerif.Model.Build
