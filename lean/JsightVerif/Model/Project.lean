import JsightVerif.Model.ScanGen
import JsightVerif.Model.Tree
import JsightVerif.Model.Loc
import JsightVerif.Spec.Keywords
/-
  L1 glue: lexemes → "current directive" accumulation → directive forest
  (core/scan_project.go, scan_project_directive.go, directive/parameter.go),
  and the INCLUDE loop (core/include.go, scanner/stack.go).
  Hand-written; tied to the code by the `proj` correspondence op.
-/
namespace JsightVerif.Model
open JsightVerif.Gen

/-- a directive as accumulated by the core -/
structure Dir where
  kind : Kind
  keyword : Bytes
  named : List (String × Bytes)          -- namedParameters (insertion order; a Go map)
  unnamed : List Bytes
  ann : Bytes
  body : Option (Bytes × Int × Int)      -- BodyCoords: file, begin, end
  explicit : Bool
  file : Bytes
  fid : Nat := 0                         -- which opened instance of the file (Go: *fs.File identity)
  kwBegin : Int
  kwEnd : Int
  trace : List (Bytes × Int)             -- include trace captured at creation: (file, at), innermost first
  deriving Repr, Inhabited

def Dir.namedParam (d : Dir) (k : String) : Bytes :=
  match d.named.lookup k with
  | some v => v
  | none => []

/-- BodyCoords.IsSet: file != nil && end != 0 -/
def Dir.bodyIsSet (d : Dir) : Bool :=
  match d.body with
  | some (_, _, e) => e != 0
  | none => false

def Dir.head (d : Dir) : Head := ⟨d.kind, d.namedParam "Path" != [], d.explicit⟩

/-- a located error -/
structure PErr where
  msg : String
  file : Bytes
  idx : Int
  trace : List (Bytes × Int)    -- (file, at byte), innermost first as OccurredInFile appends them
  acc : List (String × Bytes) := []   -- file accesses observed before the error, newest first
  panic : Bool := false               -- not an error value at all: the Go code would dereference nil here
  deriving Repr, Inhabited

inductive PFault where
  | err (e : PErr)
  | panic (site : String)
  | fuel
  deriving Repr, Inhabited

/-! ### directive/parameter.go -/

def isSchemaNotation (s : Bytes) : Bool :=
  s == strBytes "jsight" || s == [] || s == strBytes "regex" || s == strBytes "any" || s == strBytes "empty"

/-- directive.IsArrayOfTypes -/
def isArrayOfTypes (b : Bytes) : Bool :=
  b.length ≥ 4 && b.head? == some 91 && b.getLast? == some 93 && isUserTypeName ((b.drop 1).dropLast)

def Dir.setNamed (d : Dir) (k : String) (v : Bytes) : Except String Dir :=
  if (d.named.lookup k).isSome then .error "the parameter \"_\" is already defined for the directive"
  else .ok { d with named := d.named ++ [(k, v)] }

/-- Directive.AppendParameter; the error is the canonical message -/
def Dir.appendParameter (d : Dir) (raw : Bytes) : Except String Dir :=
  let b := unquote raw
  let bad : Except String Dir := .error "incorrect parameter \"_\""
  match d.kind with
  | .URL | .Get | .Post | .Put | .Patch | .Delete => d.setNamed "Path" b
  | .Request | .HTTPResponseCode | .Body =>
    if isSchemaNotation b then d.setNamed "SchemaNotation" b
    else if isArrayOfTypes b then d.setNamed "Type" b
    else if isUserTypeName b then d.setNamed "Type" b
    else bad
  | .Type =>
    if isSchemaNotation b then d.setNamed "SchemaNotation" b
    else if isArrayOfTypes b then d.setNamed "Name" b
    else if isUserTypeName b then d.setNamed "Name" b
    else bad
  | .Query =>
    if b == strBytes "htmlFormEncoded" || b == strBytes "noFormat" then d.setNamed "Format" b
    else d.setNamed "QueryExample" b
  | .Jsight | .Version => d.setNamed "Version" b
  | .Title => d.setNamed "Title" b
  | .BaseURL => d.setNamed "Path" b
  | .Server | .Enum | .Macro | .Paste => if isUserTypeName b then d.setNamed "Name" b else bad
  | .Protocol => d.setNamed "ProtocolName" b
  | .Method => d.setNamed "MethodName" b
  | .TAG => if isUserTypeName b then d.setNamed "TagName" b else bad
  | .Tags => if isUserTypeName b then .ok { d with unnamed := d.unnamed ++ [b] } else bad
  | .OperationID => d.setNamed "OperationId" b
  | _ => bad

/-! ### catalog.Annotation: TrimSpace, then runs of [\t\n\f\r ] become one blank -/

def isReSpace (c : UInt8) : Bool := c == 9 || c == 10 || c == 12 || c == 13 || c == 32

/-- length of the Unicode white space (unicode.IsSpace) at the head, 0 if none -/
def spaceLenHead : Bytes → Nat
  | c :: rest =>
    if c == 9 || c == 10 || c == 11 || c == 12 || c == 13 || c == 32 then 1
    else match c, rest with
      | 0xC2, d :: _ => if d == 0x85 || d == 0xA0 then 2 else 0
      | 0xE1, 0x9A :: 0x80 :: _ => 3
      | 0xE2, 0x80 :: d :: _ => if (0x80 ≤ d && d ≤ 0x8A) || d == 0xA8 || d == 0xA9 || d == 0xAF then 3 else 0
      | 0xE2, 0x81 :: 0x9F :: _ => 3
      | 0xE3, 0x80 :: 0x80 :: _ => 3
      | _, _ => 0
  | [] => 0

def trimLeftSpace : Nat → Bytes → Bytes
  | 0, b => b
  | n + 1, b => let k := spaceLenHead b; if k == 0 then b else trimLeftSpace n (b.drop k)

/-- does `b` end with a Unicode white space? returns its length -/
def spaceLenTail (b : Bytes) : Nat :=
  let r := b.reverse
  match r with
  | c :: rest =>
    if c == 9 || c == 10 || c == 11 || c == 12 || c == 13 || c == 32 then 1
    else match rest with
      | d :: rest' =>
        if d == 0xC2 && (c == 0x85 || c == 0xA0) then 2
        else match rest' with
          | e :: _ => if spaceLenHead [e, d, c] == 3 then 3 else 0
          | [] => 0
      | [] => 0
  | [] => 0

def trimRightSpace : Nat → Bytes → Bytes
  | 0, b => b
  | n + 1, b => let k := spaceLenTail b; if k == 0 then b else trimRightSpace n (b.take (b.length - k))

def collapseWs : Bytes → Bool → Bytes
  | [], _ => []
  | c :: rest, inWs =>
    if isReSpace c then (if inWs then collapseWs rest true else 32 :: collapseWs rest true)
    else c :: collapseWs rest false

def annotationNorm (b : Bytes) : Bytes :=
  let t := trimRightSpace (b.length + 1) (trimLeftSpace (b.length + 1) b)
  collapseWs t false

/-! ### the core's scanning state -/

structure FileScan where
  name : Bytes
  env : Env
  sc : Sc St
  id : Nat := 0          -- instance number of the opened file (the root is 0)

/-- model file system: cleaned path relative to the project directory ↦ content, or a directory -/
inductive FsEntry where
  | file (content : Array UInt8) (lenAt : BodyKind → Nat → LenAnswer)
  | dir

inductive FsRes where
  | found (e : FsEntry)
  | notExist
  | osErr          -- e.g. ENOTDIR: a proper prefix of the path is a regular file

abbrev FileSys := Bytes → FsRes

structure Core where
  ctx : Ctx Dir := Ctx.empty
  cur : Option Dir := none                              -- currentDirective
  current : FileScan                                    -- core.scanner
  suspended : List (FileScan × Int) := []               -- scannersStack, top first, with `at`
  tracers : List (Bytes × List (Bytes × Int)) := []   -- includeTracers cache keyed by (hash of) includer name
  accesses : List (String × Bytes) := []               -- observed os.Stat / os.ReadFile calls, newest first
  resumed : Bool := false                               -- resumedAfterInclude
  nextId : Nat := 1
  banned : List Kind := []                              -- bannedDirectives

/-- the live include trace: innermost first -/
def Core.liveTrace (c : Core) : List (Bytes × Int) := c.suspended.map (fun p => (p.1.name, p.2))

/-- Stack.ToDirectiveIncludeTracer with its cache -/
def Core.tracerFor (c : Core) : List (Bytes × Int) × Core :=
  match c.suspended with
  | [] => ([], c)
  | top :: _ =>
    match c.tracers.lookup top.1.name with
    | some t => (t, c)
    | none => let t := c.liveTrace; (t, { c with tracers := (top.1.name, t) :: c.tracers })

def ctxErrMsg (e : CtxErr) : String :=
  match e with
  | .incorrectContext => "incorrect context for the directive \"_\""
  | .incorrectContextPath => "incorrect context for the directive \"_\" with the \"_\" parameter"
  | .nothingToClose => "nothing to close with this closing parenthesis, learn more about the explicit direcitve boundaries here: https://jsight.io/docs/jsight-api-0-3#boundaries-of-the-body-of-the-directive"
  | .notClosed => "this opening parenthesis is not closed, learn more about the explicit direcitve boundaries here: https://jsight.io/docs/jsight-api-0-3#boundaries-of-the-body-of-the-directive"

/-- Stack.AddIncludeTraceToError for an error located in the file instance `fid`: if that file is
    suspended, only the chain that leads to it (the items pushed before it) -/
def Core.liveTraceFor (c : Core) (fid : Nat) : List (Bytes × Int) :=
  let outerFirst := c.suspended.reverse
  match outerFirst.findIdx? (fun p => p.1.id == fid) with
  | some i => ((outerFirst.take i).map (fun p => (p.1.name, p.2))).reverse
  | none => c.liveTrace

/-- Directive.KeywordError, then scanProject's deferred AddIncludeTraceToError (only if the error has no trace yet) -/
def Core.dirError (c : Core) (d : Dir) (msg : String) : PErr :=
  ⟨msg, d.file, d.kwBegin, if d.trace.isEmpty then c.liveTraceFor d.fid else d.trace, c.accesses, false⟩

/-- core.japiError: located in the current scanner's file; the live trace is added by scanProject's defer -/
def Core.japiError (c : Core) (msg : String) (idx : Int) : PErr := ⟨msg, c.current.name, idx, c.liveTrace, c.accesses, false⟩

/-- processCurrentDirective -/
def Core.processCurrent (c : Core) : Except PFault Core :=
  match c.cur with
  | none => .ok c
  | some d =>
    match attach c.ctx d d.head with
    | .ok ctx' => .ok { c with ctx := ctx', cur := none }
    | .error e => .error (.err (c.dirError d (ctxErrMsg e)))

def lexBytes (fs : FileScan) (l : Lexeme) : Option Bytes := fs.env.lexValue l

def includeKw : Bytes := strBytes "INCLUDE"
def jsightKw : Bytes := strBytes "JSIGHT"

def noDirectiveToOpenMsg : String :=
  "there is no directive to open with this opening parenthesis, learn more about the explicit direcitve boundaries here: https://jsight.io/docs/jsight-api-0-3#boundaries-of-the-body-of-the-directive"

/-- core.next for every lexeme type except the INCLUDE keyword -/
def Core.onLexeme (c : Core) (l : Lexeme) : Except PFault Core :=
  match l.ty with
  | .Keyword =>
    match c.processCurrent with
    | .error f => .error f
    | .ok c =>
      match lexBytes c.current l with
      | none => .error (.panic "Lexeme.Value: slice bounds out of range")
      | some kw =>
        if !c.suspended.isEmpty && kw == jsightKw then
          .error (.err (c.japiError "the directive is not allowed in included files: \"_\"" l.b))
        else
          match Spec.newDirectiveType kw with
          | none => .error (.err (c.japiError "unknown directive \"_\"" l.b))
          | some k =>
            if c.banned.contains k then
              .error (.err (c.japiError ("the directive is not allowed (" ++ k.keyword ++ ")") l.b))
            else
            let (tr, c) := c.tracerFor
            .ok { c with cur := some { kind := k, keyword := kw, named := [], unnamed := [], ann := [], body := none,
                                        explicit := false, file := c.current.name, fid := c.current.id, kwBegin := l.b, kwEnd := l.e, trace := tr } }
  | .Parameter =>
    match c.cur with
    | none => .error (.panic "processParameter: currentDirective is nil")
    | some d =>
      match lexBytes c.current l with
      | none => .error (.panic "Lexeme.Value: slice bounds out of range")
      | some v =>
        match d.appendParameter v with
        | .ok d' => .ok { c with cur := some d' }
        | .error m => .error (.err (c.japiError m l.b))
  | .Annotation =>
    match c.cur with
    | none => .error (.panic "processAnnotation: currentDirective is nil")
    | some d =>
      match lexBytes c.current l with
      | none => .error (.panic "Lexeme.Value: slice bounds out of range")
      | some v => .ok { c with cur := some { d with ann := annotationNorm v } }
  | .Schema | .Text | .Json | .Enum =>
    match c.cur with
    | none => .error (.panic "processBody: currentDirective is nil")
    | some d => .ok { c with cur := some { d with body := some (c.current.name, l.b, l.e) } }
  | .ContextExplicitOpening =>
    match c.cur with
    | none => .error (.err (c.japiError noDirectiveToOpenMsg l.b))
    | some d =>
      if d.explicit then .error (.err (c.japiError noDirectiveToOpenMsg l.b))
      else .ok { c with cur := some { d with explicit := true } }
  | .ContextExplicitClosing =>
    match c.processCurrent with
    | .error f => .error f
    | .ok c =>
      match closeExplicit c.ctx with
      | .ok ctx' => .ok { c with ctx := ctx' }
      | .error e => .error (.err (c.japiError (ctxErrMsg e) (c.current.sc.cur - 1)))

/-- processEOF -/
def Core.onEOF (c : Core) : Except PFault Core :=
  match c.processCurrent with
  | .error f => .error f
  | .ok c =>
    if c.suspended.isEmpty && hasUnclosedExplicit c.ctx then .error (.err (c.japiError (ctxErrMsg .notClosed) (c.current.sc.cur - 1)))
    else .ok c

/-! ### INCLUDE -/

def splitOn47 (b : Bytes) : List Bytes :=
  let r := b.foldr (fun c (acc : List Bytes × Bytes) => if c == 47 then (acc.2 :: acc.1, []) else (acc.1, c :: acc.2)) ([], [])
  r.2 :: r.1

def containsSub (s pat : Bytes) : Bool :=
  match s with
  | [] => pat.isEmpty
  | _ :: rest => isPrefixB pat s || containsSub rest pat

inductive NameErr where
  | empty | root | up | sep
  deriving DecidableEq, Repr

/-- validateIncludeFileName -/
def validateIncludeFileName (s : Bytes) : Except NameErr Unit :=
  match s with
  | [] => .error .empty
  | c :: _ =>
    if c == 47 then .error .root
    else if (splitOn47 s).any (fun seg => seg == [46] || seg == [46, 46]) then .error .up
    else if containsSub s [47, 46, 47] || containsSub s [46, 47] || containsSub s [47, 46] ||
            containsSub s [47, 46, 46, 47] || containsSub s [46, 46, 47] || containsSub s [47, 46, 46] then .error .up
    else if s.contains 92 then .error .sep
    else .ok ()

def nameErrMsg : NameErr → String
  | .empty => "cannot be empty"
  | .root => "cannot not start with `/`"
  | .up => "cannot contain `..` or `.`"
  | .sep => "directories must be separated by slashes `/`"

/-- one step of filepath.Clean over path segments (accumulator is reversed) -/
def cleanStep (acc : List Bytes) (s : Bytes) : List Bytes :=
  if s == [] || s == [46] then acc
  else if s == [46, 46] then
    match acc with
    | top :: rest => if top == [46, 46] then s :: acc else rest
    | [] => [s]
  else s :: acc

/-- filepath.Clean on a relative slash-separated path (segments) -/
def cleanSegs (segs : List Bytes) : List Bytes := (segs.foldl cleanStep []).reverse

def joinSegs (segs : List Bytes) : Bytes :=
  match segs with
  | [] => [46]
  | s :: rest => rest.foldl (fun acc x => acc ++ [47] ++ x) s

/-- filepath.Join(filepath.Dir(includer), name) for relative includer paths -/
def joinDir (includer : Bytes) (name : Bytes) : Bytes :=
  let segs := cleanSegs (splitOn47 includer)
  let dir := segs.dropLast
  joinSegs (cleanSegs (dir ++ splitOn47 name))

def lexErr (fs : FileScan) (l : Lexeme) (msg : String) (c : Core) : PFault :=
  .err ⟨msg, fs.name, l.b, c.liveTrace, c.accesses, false⟩

def scanFault (c : Core) (f : Fault) : PFault :=
  match f with
  | .err m i => .err ⟨m.render, c.current.name, i, c.liveTrace, c.accesses, false⟩
  | .panic s => .panic s
  | .fuel => .panic "Scanner.Next: the byte loop does not end (out of fuel in the model)"

/-- processInclude -/
def Core.processInclude (c : Core) (fsys : FileSys) (kw : Lexeme) : Except PFault Core :=
  let fs := c.current
  if c.banned.contains .Include then
    .error (lexErr fs kw ("the directive is not allowed (" ++ Kind.Include.keyword ++ ")") c)
  else
  match next fs.env Gen.prog (scanFuel fs.env) fs.sc with
  | .error f => .error (scanFault c f)
  | .ok (param, sc') =>
    let c := { c with current := { fs with sc := sc' } }
    let required : PFault := lexErr fs kw "required parameter(s) not specified (Filename)" c
    match param with
    | none => .error required
    | some p =>
      if p.ty != .Parameter then .error required
      else
        match lexBytes fs p with
        | none => .error (.panic "Lexeme.Value: slice bounds out of range")
        | some raw =>
          let path := unquote raw
          match validateIncludeFileName path with
          | .error e => .error (lexErr fs kw ("incorrect parameter (Filename) \"_\": " ++ nameErrMsg e) c)
          | .ok () =>
            let abs := joinDir fs.name path
            let c := { c with accesses := ("stat", abs) :: c.accesses }
            match fsys abs with
            | .notExist => .error (lexErr fs kw "incorrect parameter (Filename) \"_\": does not exist" c)
            | .osErr => .error (lexErr fs kw "incorrect parameter (Filename) \"_\": OSERR" c)
            | .found .dir => .error (lexErr fs kw "incorrect parameter (Filename) \"_\": is a directory" c)
            | .found (.file content lenAt) =>
              let c := { c with accesses := ("read", abs) :: c.accesses }
              -- Stack.Push: the includer's name must not already be on the stack
              if c.suspended.any (fun s => s.1.name == c.current.name) then
                .error (lexErr fs kw "file dependency recursion is detected, learn more about the INCLUDE directive here: https://jsight.io/docs/jsight-api-0-3#directive-include" c)
              else
                let env := mkEnv content lenAt
                .ok { c with suspended := (c.current, kw.b) :: c.suspended,
                             current := { name := abs, env := env, sc := Sc.init .stateRoot, id := c.nextId },
                             nextId := c.nextId + 1 }

/-- drainCurrentScanner / processEOF / isScanningFinished, fuel-bounded -/
def Core.run (fsys : FileSys) : Nat → Core → Except PFault Core
  | 0, _ => .error .fuel
  | n + 1, c =>
    let fs := c.current
    match next fs.env Gen.prog (scanFuel fs.env) fs.sc with
    | .error f => .error (scanFault c f)
    | .ok (some l, sc') =>
      let c := { c with current := { fs with sc := sc' } }
      let tailErr : Option PFault :=
        if c.resumed then
          match l.ty with
          | .Parameter => some (lexErr fs l "incorrect parameter \"_\"" c)
          | .Annotation => some (lexErr fs l "the annotation is not allowed for this directive" c)
          | _ => none
        else none
      let c := { c with resumed := false }
      let isInc := l.ty == .Keyword && lexBytes fs l == some includeKw
      if let some f := tailErr then .error f
      else if isInc then
        match c.processInclude fsys l with
        | .error f => .error f
        | .ok c' => Core.run fsys n c'
      else
        match c.onLexeme l with
        | .error f => .error f
        | .ok c' => Core.run fsys n c'
    | .ok (none, sc') =>
      let c := { c with current := { fs with sc := sc' } }
      match c.onEOF with
      | .error f => .error f
      | .ok c =>
        match c.suspended with
        | [] => .ok c
        | (s, _) :: rest => Core.run fsys n { c with current := s, suspended := rest, resumed := true }

end JsightVerif.Model
