import JsightVerif.Model.Catalog
/-
  L2 (shape level): MACRO collection and PASTE expansion over plain trees
  (core/compile_core_macro.go, compile_core_paste.go), without context re-resolution.
-/
namespace JsightVerif.Model.Paste

inductive Node where
  | dir (name : String) (kids : List Node)     -- an ordinary directive
  | paste (name : String)
  | mac (name : String) (kids : List Node)      -- a MACRO definition
  deriving Repr

/-- collectMacro: root-level MACROs are taken out of the document, in order; duplicates are errors -/
def collect : List Node → List (String × List Node) → List Node → Option (List (String × List Node) × List Node)
  | [], ms, acc => some (ms.reverse, acc.reverse)
  | .mac n kids :: rest, ms, acc => if ms.any (·.1 == n) then none else collect rest ((n, kids) :: ms) acc
  | x :: rest, ms, acc => collect rest ms (x :: acc)

mutual
  /-- processPasteDirectiveList / processDirective with fuel (Go recursion is not structurally bounded) -/
  def expandList (ms : List (String × List Node)) : Nat → List Node → Option (List Node)
    | 0, _ => none
    | _ + 1, [] => some []
    | n + 1, x :: rest =>
      match expandNode ms n x, expandList ms n rest with
      | some a, some b => some (a ++ b)
      | _, _ => none
  def expandNode (ms : List (String × List Node)) : Nat → Node → Option (List Node)
    | 0, _ => none
    | n + 1, .dir name kids => (expandList ms n kids).map fun k => [.dir name k]
    | n + 1, .paste m =>
      match ms.find? (·.1 == m) with
      | some (_, body) => expandList ms n body
      | none => none
    | _ + 1, .mac _ _ => some []     -- a MACRO that is not at root level never reaches the expansion
end

mutual
  def pasteFree : Node → Bool
    | .dir _ kids => pasteFreeList kids
    | .paste _ => false
    | .mac _ _ => false
  def pasteFreeList : List Node → Bool
    | [] => true
    | x :: rest => pasteFree x && pasteFreeList rest
end

end JsightVerif.Model.Paste
