namespace JsightVerif.Model

/-- A source site: package, file, enclosing function, detail. -/
structure Site where
  pkg : String
  file : String
  fn : String
  what : String
  deriving DecidableEq, Repr, Inhabited

/-- A package-level variable and the places (outside `init` and `sync.Once` bodies)
    where it is assigned, has its address taken or a pointer-receiver method called. -/
structure PkgVar where
  pkg : String
  name : String
  typ : String
  writes : List String
  deriving DecidableEq, Repr, Inhabited

end JsightVerif.Model
