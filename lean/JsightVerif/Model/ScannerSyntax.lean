/-
  Deep embedding of the scanner's step functions (L0).
  `Prog σ` is the target of tools/go2lean: one program per Go step function.
  Hand-written; the generated table lives in `JsightVerif.Gen.ScannerTable`.
-/
namespace JsightVerif.Model

/-- Lexeme events, in the `iota` order of scanner/lexeme-event.go
    (pinned against the generated `Gen.evOrder`). -/
inductive Ev where
  | KeywordBegin | KeywordEnd | ParameterBegin | ParameterEnd
  | AnnotationBegin | AnnotationEnd | SchemaBegin | SchemaEnd
  | TextBegin | TextEnd | ContextOpen | ContextClose | EnumBegin | EnumEnd
  deriving DecidableEq, Repr, Inhabited

/-- Lexeme types, `iota` order of scanner/lexeme.go. -/
inductive LexType where
  | Keyword | Parameter | Annotation | Schema | Json | Text
  | ContextExplicitOpening | ContextExplicitClosing | Enum
  deriving DecidableEq, Repr, Inhabited

inductive BodyKind where
  | jschema | enum
  deriving DecidableEq, Repr, Inhabited

/-- Conditions occurring in step functions. The current byte is implicit. -/
inductive Cond where
  | byteEq (b : Nat)                 -- c == b   (EOF is byte 0)
  | byteLe (b : Nat)                 -- c <= b
  | byteGe (b : Nat)                 -- c >= b
  | eqCaseWs                         -- c == caseWhitespace(c)
  | eqCaseNl                         -- c == caseNewLine(c)
  | isWs | isNl                      -- isWhitespace(c) / IsNewLine(c)
  | dataBackEq (back : Nat) (b : Nat) -- s.data.Byte(s.curIndex-back) == b
  | isDirective
  | hasTypeOrAnyOrEmpty | hasAnyOrEmpty | hasRegex
  | not (c : Cond) | and (a b : Cond) | or (a b : Cond)
  deriving DecidableEq, Repr, Inhabited

/-- Step-function programs in continuation style. -/
inductive Prog (σ : Type) where
  | setStep (t : σ) (k : Prog σ)           -- s.step = t
  | push (t : σ) (k : Prog σ)              -- s.stepStack.Push(t)
  | pushCur (k : Prog σ)                   -- s.stepStack.Push(s.step)
  | popToStep (k : Prog σ)                 -- s.step = s.stepStack.Pop()
  | found (e : Ev) (back : Nat) (k : Prog σ) -- s.foundAt(s.curIndex-back, e)
  | curSub (n : Nat) (k : Prog σ)          -- s.curIndex -= n
  | readLen (kind : BodyKind) (k : Prog σ) -- l, je := readXWithJsc(); if je…; if l>0 {cur += l-1}
  | ite (c : Cond) (t e : Prog σ)
  | ok                                     -- return nil
  | redispatch                             -- return s.step(s, c)
  | call (t : σ)                           -- return t(s, c)
  | failChar (wher expected : String)      -- return s.japiErrorUnexpectedChar(wher, expected)
  | failBasic (msg : String)               -- return s.japiErrorBasic(msg)
  deriving Repr, Inhabited, DecidableEq

end JsightVerif.Model
