import JsightVerif.Model.ScannerSyntax
import JsightVerif.Model.Bytes
/-
  L0: interpreter for the generated step-function table (`interp`) and a hand
  model of `Scanner.Next` / `processLexemeEvent` / `shiftFound` (scanner/scanner.go)
  and of the three parameter predicates of scanner/step-helpers.go.
  Everything is parametric in the state type `σ` and the table `prog : σ → Prog σ`.
-/
namespace JsightVerif.Model

/-- A located scanner error message, canonical form. -/
inductive ErrMsg where
  | unexpectedChar (wher expected : String)   -- "invalid character %q <where>[, expecting <expected>]"
  | unexpectedEof (wher expected : String)    -- "invalid end of file <where>[, expecting <expected>]"
  | basic (msg : String)
  | oracle (msg : String)                      -- message produced by jsight-schema-core
  deriving DecidableEq, Repr, Inhabited

def ErrMsg.render : ErrMsg → String
  | .unexpectedChar w e => "UC|" ++ w ++ (if e == "" then "" else ", expecting " ++ e)
  | .unexpectedEof w e => "EOF|" ++ w ++ (if e == "" then "" else ", expecting " ++ e)
  | .basic m => "M|" ++ m
  | .oracle m => "M|" ++ m

structure Lexeme where
  ty : LexType
  b : Int
  e : Int
  deriving DecidableEq, Repr, Inhabited

/-- Answer of jsight-schema-core to `FromFile(rest).Len()`. -/
inductive LenAnswer where
  | len (n : Nat)
  | err (msg : String) (idx : Nat)
  deriving DecidableEq, Repr, Inhabited

/-- Read-only environment of a scan. -/
structure Env where
  data : Array UInt8
  /-- directive keywords that are not response codes (Gen.Kind.keyword), as bytes -/
  keywords : List Bytes
  codeLo : Nat
  codeHi : Nat
  /-- oracle: schema / enum extent when asked at position `pos` -/
  lenAt : BodyKind → Nat → LenAnswer

def Env.size (env : Env) : Nat := env.data.size

/-- Mutable scanner state. Positions are `Int`: a negative value is a Go `uint` underflow. -/
structure Sc (σ : Type) where
  step : σ
  stack : List σ            -- step stack, top first
  finds : List (Ev × Int)   -- queued events, oldest first
  evs : List (Ev × Int)     -- lexeme event stack, top first
  params : List Lexeme      -- lastDirectiveParameters, oldest first
  cur : Int
  /-- ghost (not in the Go code): a Keyword lexeme has been reported more recently than any closing
      parenthesis — what the consumer's `currentDirective` depends on (Proofs/ScanSafe.lean) -/
  ph : Bool := false
  /-- ghost: the largest end position of the lexemes reported so far (−1 before the first) -/
  le : Int := -1
  deriving Repr

inductive Fault where
  | err (m : ErrMsg) (idx : Int)
  | panic (site : String)
  | fuel
  deriving DecidableEq, Repr, Inhabited

/-! ### lexeme values and the parameter predicates -/

def Env.sub (env : Env) (b e1 : Int) : Option Bytes :=
  -- data[b:e1]; Go panics unless 0 ≤ b ≤ e1 ≤ len
  if 0 ≤ b ∧ b ≤ e1 ∧ e1 ≤ env.size then
    some ((env.data.extract b.toNat e1.toNat).toList)
  else none

def Env.lexValue (env : Env) (l : Lexeme) : Option Bytes := env.sub l.b (l.e + 1)

def anyB : Bytes := [97, 110, 121]
def emptyB : Bytes := [101, 109, 112, 116, 121]
def regexB : Bytes := [114, 101, 103, 101, 120]

/-- isDirectiveParameterHasTypeOrAnyOrEmpty -/
def hasTypeOrAnyOrEmpty (env : Env) : List Lexeme → Option Bool
  | [] => some false
  | l :: rest =>
    match env.lexValue l with
    | none => none
    | some v =>
      let v := trimSquareBrackets (unquote v)
      if v == anyB || v == emptyB || isUserTypeName v then some true
      else hasTypeOrAnyOrEmpty env rest

/-- isDirectiveParameterHasAnyOrEmpty (sic: false when `any`/`empty` is present) -/
def hasAnyOrEmpty (env : Env) : List Lexeme → Option Bool
  | [] => some true
  | l :: rest =>
    match env.lexValue l with
    | none => none
    | some v =>
      let v := trimSquareBrackets (unquote v)
      if v == anyB || v == emptyB then some false
      else hasAnyOrEmpty env rest

/-- isDirectiveParameterHasRegexNotation -/
def hasRegex (env : Env) : List Lexeme → Option Bool
  | [] => some false
  | l :: rest =>
    match env.lexValue l with
    | none => none
    | some v => if unquote v == regexB then some true else hasRegex env rest

/-- directive.IsHTTPResponseCode on a 3-byte word -/
def isResponseCode3 (lo hi : Nat) (a b c : UInt8) : Bool :=
  isDigitB a && isDigitB b && isDigitB c && a != 48 &&
    (let n := (a.toNat - 48) * 100 + (b.toNat - 48) * 10 + (c.toNat - 48); lo ≤ n && n ≤ hi)

def isPrefixB : Bytes → Bytes → Bool
  | [], _ => true
  | _ :: _, [] => false
  | a :: as, b :: bs => a == b && isPrefixB as bs

/-- directive.IsStartWithDirective -/
def isStartWithDirective (env : Env) (line : Bytes) : Bool :=
  if line.length < 3 then false
  else
    (match line with
     | a :: b :: c :: _ =>
       (a == 49 || a == 50 || a == 51 || a == 52 || a == 53) && isResponseCode3 env.codeLo env.codeHi a b c
     | _ => false)
    || env.keywords.any (fun k => isPrefixB k line)

/-- Scanner.isDirective: rest of the line from the cursor -/
def isDirectiveAt (env : Env) (cur : Int) : Bool :=
  if cur < 0 ∨ cur > env.size then false
  else
    let rest := (env.data.extract cur.toNat env.size).toList
    isStartWithDirective env (rest.takeWhile (fun c => !isNewLineB c))

def otherByte (b : UInt8) : UInt8 := if b == 255 then 254 else b + 1
def caseWhitespace (c : UInt8) : UInt8 := if isSpaceB c then c else otherByte c
def caseNewLine (c : UInt8) : UInt8 := if isNewLineB c then c else otherByte c

/-- condition evaluation; `none` = the Go code would panic (slice index out of range) -/
def evalCond {σ} (env : Env) (s : Sc σ) (c : UInt8) : Cond → Option Bool
  | .byteEq b => some (c.toNat == b)
  | .byteLe b => some (decide (c.toNat ≤ b))
  | .byteGe b => some (decide (b ≤ c.toNat))
  | .eqCaseWs => some (c == caseWhitespace c)
  | .eqCaseNl => some (c == caseNewLine c)
  | .isWs => some (isSpaceB c)
  | .isNl => some (isNewLineB c)
  | .dataBackEq back b =>
    let i := s.cur - back
    if 0 ≤ i ∧ i < env.size then some ((env.data.getD i.toNat 0).toNat == b) else none
  | .isDirective => some (isDirectiveAt env s.cur)
  | .hasTypeOrAnyOrEmpty => hasTypeOrAnyOrEmpty env s.params
  | .hasAnyOrEmpty => hasAnyOrEmpty env s.params
  | .hasRegex => hasRegex env s.params
  | .not a => (evalCond env s c a).map (!·)
  | .and a b =>
    match evalCond env s c a with
    | some true => evalCond env s c b
    | r => r
  | .or a b =>
    match evalCond env s c a with
    | some false => evalCond env s c b
    | r => r

/-- What a single step-function body asks its caller to do next. -/
inductive Tail (σ : Type) where
  | done (s : Sc σ)
  | fault (f : Fault)
  | call (t : σ) (s : Sc σ)
  | redispatch (s : Sc σ)

/-- japiErrorUnexpectedChar: message class depends on `cur < size` -/
def ucErr {σ} (env : Env) (s : Sc σ) (w e : String) : Fault :=
  if s.cur < env.size then .err (.unexpectedChar w e) s.cur else .err (.unexpectedEof w e) s.cur

/-- Run one step-function body (structural in the program). -/
def runProg {σ} (env : Env) (c : UInt8) : Prog σ → Sc σ → Tail σ
  | .setStep t k, s => runProg env c k { s with step := t }
  | .push t k, s => runProg env c k { s with stack := t :: s.stack }
  | .pushCur k, s => runProg env c k { s with stack := s.step :: s.stack }
  | .popToStep k, s =>
    match s.stack with
    | [] => .fault (.panic "stepStack.Pop: Reading from empty stack")
    | t :: rest => runProg env c k { s with step := t, stack := rest }
  | .found e back k, s => runProg env c k { s with finds := s.finds ++ [(e, s.cur - back)] }
  | .curSub n k, s =>
    if s.cur - n < 0 then .fault (.panic "curIndex underflow")
    else runProg env c k { s with cur := s.cur - n }
  | .readLen kind k, s =>
    if s.cur < 0 ∨ s.cur > env.size then .fault (.panic "readLen: cursor outside file")
    else
      match env.lenAt kind s.cur.toNat with
      | .err m i => .fault (.err (.oracle m) (s.cur + i))
      | .len n =>
        -- A_len: `Len()` measures a prefix of the rest of the file, so the extent ends inside the file;
        -- an answer that does not is treated as an error of the oracle (it cannot come from the library)
        if s.cur + n > env.size then .fault (.err (.oracle "schema extent beyond the end of the file") s.cur)
        else runProg env c k (if n > 0 then { s with cur := s.cur + (n - 1 : Nat) } else s)
  | .ite cnd t e, s =>
    match evalCond env s c cnd with
    | none => .fault (.panic "index out of range in condition")
    | some true => runProg env c t s
    | some false => runProg env c e s
  | .ok, s => .done s
  | .redispatch, s => .redispatch s
  | .call t, s => .call t s
  | .failChar w e, s => .fault (ucErr env s w e)
  | .failBasic m, s => .fault (.err (.basic m) s.cur)

/-- Evaluate the step function `st` on byte `c`, following tail calls (fuel-bounded).
    In Go a tail call is a real call: an unbounded chain is a stack overflow, so running out of
    chain fuel is modelled as a crash (Props/C12 proves it cannot happen). -/
def stepFuel {σ} (env : Env) (prog : σ → Prog σ) (c : UInt8) : Nat → σ → Sc σ → Except Fault (Sc σ)
  | 0, _, _ => .error (.panic "step function recursion deeper than chainFuel")
  | n + 1, st, s =>
    match runProg env c (prog st) s with
    | .done s' => .ok s'
    | .fault f => .error f
    | .call t s' => stepFuel env prog c n t s'
    | .redispatch s' => stepFuel env prog c n s'.step s'

/-- bound on the length of tail-call chains for one byte used by the executable model -/
def chainFuel : Nat := 16

/-! ### Scanner.Next -/

def Ev.isBeginning : Ev → Bool
  | .KeywordBegin | .ParameterBegin | .AnnotationBegin | .SchemaBegin | .TextBegin | .EnumBegin => true
  | _ => false

def Ev.isEnding : Ev → Bool
  | .KeywordEnd | .ParameterEnd | .AnnotationEnd | .SchemaEnd | .TextEnd | .EnumEnd => true
  | _ => false

def Ev.isSingle : Ev → Bool
  | .ContextOpen | .ContextClose => true
  | _ => false

def Ev.toLexType : Ev → LexType
  | .KeywordBegin | .KeywordEnd => .Keyword
  | .ParameterBegin | .ParameterEnd => .Parameter
  | .AnnotationBegin | .AnnotationEnd => .Annotation
  | .SchemaBegin | .SchemaEnd => .Schema
  | .TextBegin | .TextEnd => .Text
  | .ContextOpen => .ContextExplicitOpening
  | .ContextClose => .ContextExplicitClosing
  | .EnumBegin | .EnumEnd => .Enum

def Ev.matches (b e : Ev) : Bool :=
  match b, e with
  | .KeywordBegin, .KeywordEnd | .AnnotationBegin, .AnnotationEnd | .SchemaBegin, .SchemaEnd
  | .TextBegin, .TextEnd | .ParameterBegin, .ParameterEnd | .EnumBegin, .EnumEnd => true
  | _, _ => false

/-- the ghost phase after a lexeme of type `t` has been reported -/
def phAfter (ph : Bool) : LexType → Bool
  | .Keyword => true
  | .ContextExplicitClosing => false
  | _ => ph

/-- processLexemeEvent -/
def processEvent {σ} (s : Sc σ) (ev : Ev × Int) : Except Fault (Option Lexeme × Sc σ) :=
  if ev.1.isBeginning then .ok (none, { s with evs := ev :: s.evs })
  else if ev.1.isEnding then
    match s.evs with
    | [] => .error (.panic "eventStack.Pop: Reading from empty stack")
    | st :: rest =>
      if Ev.matches st.1 ev.1 then
        .ok (some ⟨ev.1.toLexType, st.2, ev.2⟩, { s with evs := rest, ph := phAfter s.ph ev.1.toLexType, le := max s.le ev.2 })
      else .error (.err (.basic "Ending lexeme event does not match beginning event") s.cur)
  else .ok (some ⟨ev.1.toLexType, ev.2, ev.2⟩, { s with ph := phAfter s.ph ev.1.toLexType, le := max s.le ev.2 })

/-- the `for range s.finds` loop of Next: at most `n` queued events; stops at the first lexeme -/
def drain {σ} : Nat → Sc σ → Except Fault (Option Lexeme × Sc σ)
  | 0, s => .ok (none, s)
  | n + 1, s =>
    match s.finds with
    | [] => .error (.panic "shiftFound: Empty set of found lexemes")
    | ev :: rest =>
      match processEvent { s with finds := rest } ev with
      | .error f => .error f
      | .ok (some lex, s') =>
        let s'' := match lex.ty with
          | .Parameter => { s' with params := s'.params ++ [lex] }
          | .Keyword => { s' with params := [] }
          | _ => s'
        .ok (some lex, s'')
      | .ok (none, s') => drain n s'

/-- the byte loop of Next -/
def nextLoop {σ} (env : Env) (prog : σ → Prog σ) : Nat → Sc σ → Except Fault (Option Lexeme × Sc σ)
  | 0, _ => .error .fuel
  | n + 1, s =>
    if s.cur < 0 then .error (.panic "curIndex underflow")
    else if s.cur > env.size then .ok (none, s)
    else
      let atEnd := s.cur == env.size
      let c : UInt8 := if atEnd then 0 else env.data.getD s.cur.toNat 0
      if !atEnd && c == 0 then .error (.err (.basic "File cannot contain byte zero") s.cur)
      else
        match stepFuel env prog c chainFuel s.step s with
        | .error f => .error f
        | .ok s1 =>
          let s2 := { s1 with cur := s1.cur + 1 }
          match drain s2.finds.length s2 with
          | .error f => .error f
          | .ok (some lex, s3) => .ok (some lex, s3)
          | .ok (none, s3) => nextLoop env prog n s3

/-- Scanner.Next -/
def next {σ} (env : Env) (prog : σ → Prog σ) (fuel : Nat) (s : Sc σ) : Except Fault (Option Lexeme × Sc σ) :=
  match s.finds with
  | [] => nextLoop env prog fuel s
  | ev :: rest =>
    match processEvent { s with finds := rest } ev with
    | .error f => .error f
    | .ok (some lex, s') => .ok (some lex, s')       -- NB: lastDirectiveParameters is not updated here
    | .ok (none, s') => nextLoop env prog fuel s'

def Sc.init {σ} (root : σ) : Sc σ :=
  { step := root, stack := [], finds := [], evs := [], params := [], cur := 0 }

/-- how a scan ended -/
inductive End where
  | eof
  | fault (f : Fault)
  deriving DecidableEq, Repr, Inhabited

/-- call Next until it reports EOF or fails -/
def scanFrom {σ} (env : Env) (prog : σ → Prog σ) (fuel : Nat) : Nat → Sc σ → List Lexeme → List Lexeme × End × Sc σ
  | 0, s, acc => (acc.reverse, .fault .fuel, s)
  | n + 1, s, acc =>
    match next env prog fuel s with
    | .error f => (acc.reverse, .fault f, s)
    | .ok (none, s') => (acc.reverse, .eof, s')
    | .ok (some l, s') => scanFrom env prog fuel n s' (l :: acc)

def scanFuel (env : Env) : Nat := 4 * env.size + 16

/-- bound on the number of calls of `Next` for one file (each byte queues at most four events) -/
def scanCalls (env : Env) : Nat := 5 * scanFuel env

def scanAll {σ} (env : Env) (prog : σ → Prog σ) (root : σ) : List Lexeme × End :=
  let r := scanFrom env prog (scanFuel env) (scanCalls env) (Sc.init root) []
  (r.1, r.2.1)

end JsightVerif.Model
