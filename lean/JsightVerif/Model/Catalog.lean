/-
  L3 (registries): the insertion-ordered maps of the catalog with their Has-before-Set discipline
  (catalog/*_gen.go, catalog/setters.go AddTag / AddServer / AddType / AddEnum / AddHTTPMethod /
  tagNames / pathTag).  Schema bodies are opaque payloads.  Hand-written; the tie to the code is
  the catalog monitors of the `build` / `model` / `fault` / `order` ops (entity-by-entity comparison
  of the real catalog JSON with the expected one).
-/
namespace JsightVerif.Model.Cat

abbrev Name := String

/-- an insertion-ordered map -/
structure OMap (α : Type) where
  entries : List (Name × α)
  deriving Repr

def OMap.empty {α} : OMap α := ⟨[]⟩
def OMap.has {α} (m : OMap α) (k : Name) : Bool := m.entries.any (·.1 == k)
def OMap.get? {α} (m : OMap α) (k : Name) : Option α := (m.entries.find? (·.1 == k)).map (·.2)
def OMap.keys {α} (m : OMap α) : List Name := m.entries.map (·.1)
/-- Set on a key that is absent appends (the generated maps keep the first position on update) -/
def OMap.set {α} (m : OMap α) (k : Name) (v : α) : OMap α :=
  if m.has k then ⟨m.entries.map fun e => if e.1 == k then (k, v) else e⟩ else ⟨m.entries ++ [(k, v)]⟩

inductive Err where
  | duplicate (name : Name)
  | tagNotFound (name : Name)
  deriving DecidableEq, Repr

/-- Has-before-Set: every Add* of the catalog -/
def OMap.add {α} (m : OMap α) (k : Name) (v : α) : Except Err (OMap α) :=
  if m.has k then .error (.duplicate k) else .ok ⟨m.entries ++ [(k, v)]⟩

structure Tag where
  title : String
  members : List Name          -- interaction ids, in the order they were appended
  deriving Repr

structure Interaction where
  path : String
  method : String
  tags : List Name
  deriving Repr

structure Catalog where
  tags : OMap Tag := OMap.empty
  interactions : OMap Interaction := OMap.empty
  deriving Repr

/-- Catalog.AddTag -/
def addTag (c : Catalog) (name title : String) : Except Err Catalog :=
  match c.tags.add name ⟨if title == "" then name else title, []⟩ with
  | .ok t => .ok { c with tags := t }
  | .error e => .error e

/-- append the interaction id to a tag (Tag.appendInteractionID) -/
def appendMember (tags : OMap Tag) (tag id : Name) : OMap Tag :=
  ⟨tags.entries.map fun e => if e.1 == tag then (e.1, { e.2 with members := e.2.members ++ [id] }) else e⟩

/-- Catalog.tagsFromTagsDirective: each named tag must exist and may be named once (fix a7fe877) -/
def checkTags (tags : OMap Tag) (used : List Name) : List Name → Except Err Unit
  | [] => .ok ()
  | t :: rest =>
    if !tags.has t then .error (.tagNotFound t)
    else if used.contains t then .error (.duplicate t)
    else checkTags tags (t :: used) rest

/-- Catalog.tagNames: all tags are resolved first, then the id is appended to each -/
def useTags (tags : OMap Tag) (id : Name) (ts : List Name) : Except Err (OMap Tag) :=
  match checkTags tags [] ts with
  | .error e => .error e
  | .ok () => .ok (ts.foldl (fun acc t => appendMember acc t id) tags)

/-- Catalog.pathTag + append: the tag derived from the path is created on first use -/
def usePathTag (tags : OMap Tag) (id tagName title : Name) : OMap Tag :=
  let tags := if tags.has tagName then tags else ⟨tags.entries ++ [(tagName, ⟨title, []⟩)]⟩
  appendMember tags tagName id

/-- Catalog.AddHTTPMethod / AddJsonRpcMethod as far as ids and tags are concerned:
    uniqueness first, then the tags, then the Set -/
def addInteraction (c : Catalog) (id path method : String) (explicitTags : List Name) (pathTag : Name × String) :
    Except Err Catalog :=
  if c.interactions.has id then .error (.duplicate id)
  else
    match explicitTags with
    | [] =>
      .ok { tags := usePathTag c.tags id pathTag.1 pathTag.2,
            interactions := ⟨c.interactions.entries ++ [(id, ⟨path, method, [pathTag.1]⟩)]⟩ }
    | ts =>
      match useTags c.tags id ts with
      | .ok tags => .ok { tags := tags, interactions := ⟨c.interactions.entries ++ [(id, ⟨path, method, ts⟩)]⟩ }
      | .error e => .error e

end JsightVerif.Model.Cat
