import JsightVerif.Model.Scanner
import JsightVerif.Gen.ScannerTable
import JsightVerif.Gen.DirectiveTable
/-
  The scanner model instantiated with the regenerated tables.
-/
namespace JsightVerif.Model
open JsightVerif.Gen

/-- keyword strings of all kinds except HTTPResponseCode, as IsStartWithDirective uses them -/
def nonCodeKeywords : List Bytes :=
  (Kind.all.filter (· != .HTTPResponseCode)).map (fun k => strBytes k.keyword)

def mkEnv (data : Array UInt8) (lenAt : BodyKind → Nat → LenAnswer) : Env :=
  { data := data, keywords := nonCodeKeywords, codeLo := responseCodeLo, codeHi := responseCodeHi, lenAt := lenAt }

/-- scan a whole file from `stateRoot` -/
def scanFile (data : Array UInt8) (lenAt : BodyKind → Nat → LenAnswer) : List Lexeme × End :=
  scanAll (mkEnv data lenAt) Gen.prog .stateRoot

end JsightVerif.Model
