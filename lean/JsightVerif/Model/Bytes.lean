/-
  Byte-level helpers: transliterations of the small pure functions of
  jsight-schema-core/bytes that the repository's control flow depends on
  (Unquote, TrimSquareBrackets, IsUserTypeName, SubToEndOfLine, LineAndColumn,
  BeginningOfLine, EndOfLine, NewLineSymbol, TrimSpacesFromLeft).
  Hand-written; tied to the dependency by the correspondence check (ops `unquote`, `loc`).
-/
namespace JsightVerif.Model

abbrev Bytes := List UInt8

def strBytes (s : String) : Bytes := s.toUTF8.toList

def hexDigit (n : Nat) : Char :=
  if n < 10 then Char.ofNat (48 + n) else Char.ofNat (87 + n)

def hexOfBytes (b : Bytes) : String :=
  String.ofList (b.flatMap fun x => [hexDigit (x.toNat / 16), hexDigit (x.toNat % 16)])

def isSpaceB (c : UInt8) : Bool := c == 32 || c == 9
def isNewLineB (c : UInt8) : Bool := c == 10 || c == 13
def isBlankB (c : UInt8) : Bool := isSpaceB c || isNewLineB c
def isDigitB (c : UInt8) : Bool := 48 ≤ c && c ≤ 57

def isValidUserTypeNameByte (c : UInt8) : Bool :=
  c == 45 || c == 95 || (97 ≤ c && c ≤ 122) || (65 ≤ c && c ≤ 90) || isDigitB c

/-- bytes.Bytes.IsUserTypeName -/
def isUserTypeName (b : Bytes) : Bool :=
  match b with
  | 64 :: c :: rest => (c :: rest).all isValidUserTypeNameByte
  | _ => false

/-- bytes.Bytes.TrimSquareBrackets -/
def trimSquareBrackets (b : Bytes) : Bytes :=
  if b.length ≥ 2 && b.head? == some 91 && b.getLast? == some 93 then
    (b.drop 1).dropLast
  else b

/-- bytes.Bytes.InQuotes -/
def inQuotes (b : Bytes) : Bool :=
  b.length ≥ 2 && b.head? == some 34 && b.getLast? == some 34

/-! ### UTF-8 decoding (Go's utf8.DecodeRune): returns (rune, size); invalid ⇒ (0xFFFD, 1) -/

def runeError : Nat := 0xFFFD

def isCont (b : UInt8) : Bool := b &&& 0xC0 == 0x80

def decodeRune (s : Bytes) : Nat × Nat :=
  match s with
  | [] => (runeError, 0)
  | b0 :: rest =>
    let n0 := b0.toNat
    if n0 < 0x80 then (n0, 1)
    else if n0 < 0xC2 then (runeError, 1)
    else if n0 < 0xE0 then
      match rest with
      | b1 :: _ => if isCont b1 then ((n0 &&& 0x1F) * 64 + (b1.toNat &&& 0x3F), 2) else (runeError, 1)
      | _ => (runeError, 1)
    else if n0 < 0xF0 then
      match rest with
      | b1 :: b2 :: _ =>
        let lo : Nat := if n0 == 0xE0 then 0xA0 else 0x80
        let hi : Nat := if n0 == 0xED then 0x9F else 0xBF
        if lo ≤ b1.toNat && b1.toNat ≤ hi && isCont b2 then
          ((n0 &&& 0x0F) * 4096 + (b1.toNat &&& 0x3F) * 64 + (b2.toNat &&& 0x3F), 3)
        else (runeError, 1)
      | _ => (runeError, 1)
    else if n0 < 0xF5 then
      match rest with
      | b1 :: b2 :: b3 :: _ =>
        let lo : Nat := if n0 == 0xF0 then 0x90 else 0x80
        let hi : Nat := if n0 == 0xF4 then 0x8F else 0xBF
        if lo ≤ b1.toNat && b1.toNat ≤ hi && isCont b2 && isCont b3 then
          ((n0 &&& 0x07) * 262144 + (b1.toNat &&& 0x3F) * 4096 + (b2.toNat &&& 0x3F) * 64 + (b3.toNat &&& 0x3F), 4)
        else (runeError, 1)
      | _ => (runeError, 1)
    else (runeError, 1)

/-- utf8.EncodeRune (surrogates and out-of-range ⇒ U+FFFD) -/
def encodeRune (r : Nat) : Bytes :=
  let r := if r > 0x10FFFF || (0xD800 ≤ r && r ≤ 0xDFFF) then runeError else r
  if r < 0x80 then [r.toUInt8]
  else if r < 0x800 then [(0xC0 ||| (r / 64)).toUInt8, (0x80 ||| (r % 64)).toUInt8]
  else if r < 0x10000 then
    [(0xE0 ||| (r / 4096)).toUInt8, (0x80 ||| ((r / 64) % 64)).toUInt8, (0x80 ||| (r % 64)).toUInt8]
  else
    [(0xF0 ||| (r / 262144)).toUInt8, (0x80 ||| ((r / 4096) % 64)).toUInt8,
     (0x80 ||| ((r / 64) % 64)).toUInt8, (0x80 ||| (r % 64)).toUInt8]

def hexVal (c : UInt8) : Option Nat :=
  if isDigitB c then some (c.toNat - 48)
  else if 97 ≤ c && c ≤ 102 then some (c.toNat - 97 + 10)
  else if 65 ≤ c && c ≤ 70 then some (c.toNat - 65 + 10)
  else none

/-- getu4: `\uXXXX` at the head of `s` -/
def getu4 (s : Bytes) : Option Nat :=
  match s with
  | 92 :: 117 :: a :: b :: c :: d :: _ =>
    match hexVal a, hexVal b, hexVal c, hexVal d with
    | some a, some b, some c, some d => some (((a * 16 + b) * 16 + c) * 16 + d)
    | _, _, _, _ => none
  | _ => none

def isSurrogate (r : Nat) : Bool := 0xD800 ≤ r && r < 0xE000

/-- slow path of unquoteBytes over the inner bytes; `none` = not ok -/
def unquoteSlow : Nat → Bytes → Bytes → Option Bytes
  | 0, _, _ => none
  | _ + 1, [], acc => some acc.reverse
  | fuel + 1, c :: rest, acc =>
    if c == 92 then
      match rest with
      | [] => none
      | e :: rest' =>
        if e == 34 || e == 92 || e == 47 || e == 39 then unquoteSlow fuel rest' (e :: acc)
        else if e == 98 then unquoteSlow fuel rest' (8 :: acc)
        else if e == 102 then unquoteSlow fuel rest' (12 :: acc)
        else if e == 110 then unquoteSlow fuel rest' (10 :: acc)
        else if e == 114 then unquoteSlow fuel rest' (13 :: acc)
        else if e == 116 then unquoteSlow fuel rest' (9 :: acc)
        else if e == 117 then
          match getu4 (c :: rest) with
          | none => none
          | some rr =>
            let after := (c :: rest).drop 6
            if isSurrogate rr then
              match getu4 after with
              | some rr1 =>
                if 0xD800 ≤ rr && rr < 0xDC00 && 0xDC00 ≤ rr1 && rr1 < 0xE000 then
                  let dec := (rr - 0xD800) * 1024 + (rr1 - 0xDC00) + 0x10000
                  unquoteSlow fuel (after.drop 6) ((encodeRune dec).reverse ++ acc)
                else unquoteSlow fuel after ((encodeRune runeError).reverse ++ acc)
              | none => unquoteSlow fuel after ((encodeRune runeError).reverse ++ acc)
            else unquoteSlow fuel after ((encodeRune rr).reverse ++ acc)
        else none
    else if c == 34 || c < 32 then none
    else if c < 0x80 then unquoteSlow fuel rest (c :: acc)
    else
      let (rr, size) := decodeRune (c :: rest)
      unquoteSlow fuel ((c :: rest).drop size) ((encodeRune rr).reverse ++ acc)

/-- does the fast path of unquoteBytes consume the whole inner string? -/
def unquoteFastOk : Nat → Bytes → Bool
  | 0, _ => false
  | _ + 1, [] => true
  | fuel + 1, c :: rest =>
    if c == 92 || c == 34 || c < 32 then false
    else if c < 0x80 then unquoteFastOk fuel rest
    else
      let (rr, size) := decodeRune (c :: rest)
      if rr == runeError && size == 1 then false
      else unquoteFastOk fuel ((c :: rest).drop size)

/-- bytes.Bytes.Unquote -/
def unquote (b : Bytes) : Bytes :=
  if inQuotes b then
    let inner := (b.drop 1).dropLast
    if unquoteFastOk (inner.length + 1) inner then inner
    else match unquoteSlow (inner.length + 1) inner [] with
      | some r => r
      | none => b
  else b

/-- bytes.Bytes.TrimSpacesFromLeft (if everything is blank the input is returned unchanged) -/
def trimSpacesFromLeft (b : Bytes) : Bytes :=
  if b.all isBlankB then b else b.dropWhile isBlankB

end JsightVerif.Model
