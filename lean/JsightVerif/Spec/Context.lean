import JsightVerif.Model.Tree
/-
  Spec for C11: declarative context resolution over the *heads* of the open
  directives (innermost first), independent of the zipper and of any payload.
-/
namespace JsightVerif.Spec
open JsightVerif.Model JsightVerif.Gen

/-- where a new directive goes -/
inductive Res where
  | child (i : Nat)        -- child of the open directive at depth i (0 = innermost); the i inner ones close
  | methodRoot (i : Nat)   -- HTTP method with its own path admitted by the implicit URL at depth i: a new root
  | root                   -- every open directive is passed: a new root-level directive
  | errCtx                 -- incorrect context
  | errCtxPath             -- incorrect context … with the "Path" parameter
  deriving DecidableEq, Repr, Inhabited

def Res.shift : Res → Res
  | .child i => .child (i + 1)
  | .methodRoot i => .methodRoot (i + 1)
  | r => r

/-- does open directive `f` take `h`, and how -/
def admitIn (f h : Head) : Option Res :=
  if allowedIn f.kind h.kind then
    if isHTTPMethod h.kind && h.hasPath && f.kind == .URL then some (.methodRoot 0)
    else some (.child 0)
  else none

/-- the candidates: the open directives from the innermost outwards, up to and
    including the first one with an explicit context -/
def candidates : List Head → List Head
  | [] => []
  | f :: fs => if f.explicit then [f] else f :: candidates fs

/-- the walk reaches the root context iff no open directive is explicit -/
def reachesRoot (fs : List Head) : Bool := fs.all (fun f => !f.explicit)

/-- first candidate (with its depth) that admits `h` -/
def firstAdmitting (h : Head) : List Head → Option Res
  | [] => none
  | f :: fs =>
    match admitIn f h with
    | some r => some r
    | none => (firstAdmitting h fs).map Res.shift

/-- **the specification**: the nearest candidate admitting `h` wins; if none does, `h` goes
    to the root when the root is reachable (no explicit context on the way) and allows it.
    An HTTP method with its own path admitted by a URL starts a new root. -/
def resolve (h : Head) (fs : List Head) : Res :=
  match firstAdmitting h (candidates fs) with
  | some (.methodRoot i) =>
    -- the method becomes a new root and every open context is left: refused if that
    -- would close an explicit context silently
    if fs.any (·.explicit) then .errCtxPath else .methodRoot i
  | some r => r
  | none => if reachesRoot fs && allowedRoot h.kind then .root else .errCtx

end JsightVerif.Spec
