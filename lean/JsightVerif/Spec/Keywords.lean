import JsightVerif.Model.ScanGen
/-
  Spec for C13: the keyword language of JSight API 0.3 as the *directive table*
  states it: the keyword strings of all kinds except HTTP-response-code, plus
  the three-digit codes 100–599.
-/
namespace JsightVerif.Spec
open JsightVerif.Model JsightVerif.Gen

def digits3 (n : Nat) : Bytes :=
  [(48 + n / 100).toUInt8, (48 + (n / 10) % 10).toUInt8, (48 + n % 10).toUInt8]

/-- response codes 100..599 as three-digit words -/
def responseCodeWords : List Bytes := (List.range 500).map (fun i => digits3 (100 + i))

def keywordWords : List Bytes := nonCodeKeywords ++ responseCodeWords

/-- directive.NewDirectiveType on a scanner-accepted word -/
def newDirectiveType (w : Bytes) : Option Kind :=
  match (Kind.all.filter (· != .HTTPResponseCode)).find? (fun k => strBytes k.keyword == w) with
  | some k => some k
  | none =>
    match w with
    | [a, b, c] => if isResponseCode3 responseCodeLo responseCodeHi a b c then some .HTTPResponseCode else none
    | _ => none

end JsightVerif.Spec
