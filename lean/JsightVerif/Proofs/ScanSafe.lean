import JsightVerif.Proofs.StackSafe
import JsightVerif.Model.Project
/-
  The scanning stage of a whole project (Model/Project.lean `Core.run`: the core's loop over lexemes
  with INCLUDE, suspended scanners and the file system) never reaches a crash site of the scanner and
  never takes the value of a lexeme that is not a slice of its file — for every file system, every
  include graph and every fuel.  The invariant: the scanner state of the file being read and of every
  suspended file is covered by the reach certificate (`Good`), so the scanner theorems of
  Proofs/StackSafe.lean apply to every call of `Next` the core makes.
  What is *not* shown here: the three dereferences of `currentDirective` in
  processParameter / processAnnotation / processBody (that a parameter, annotation or body lexeme never
  arrives without a directive is a property of the order of lexemes, which the abstract domain does not
  track); they stay with the correspondence.
-/
namespace JsightVerif.Model
open JsightVerif.Gen

section
variable (inputs : List UInt8) (reachAt : St → List (RKey St)) (ht : TableOk Gen.prog inputs reachAt)
  (hroot : (reachAt .stateRoot).contains ([], [], 0, true, [], 0) = true)

/-- every scanner of the project is in a covered state -/
def ScansGood (c : Core) : Prop :=
  Good c.current.env reachAt c.current.sc ∧ ∀ p ∈ c.suspended, Good p.1.env reachAt p.1.sc

/-- the crash sites of the scanning stage that are excluded here -/
def ScanStagePanic (site : String) : Prop :=
  site ≠ "processParameter: currentDirective is nil" ∧ site ≠ "processAnnotation: currentDirective is nil" ∧
  site ≠ "processBody: currentDirective is nil"

def NoScanPanic : Except PFault Core → Prop
  | .error (.panic site) => ¬ ScanStagePanic site
  | _ => True

theorem scanFault_not_panic (c : Core) (f : Fault) (h : ¬ Crash f) : ∀ site, scanFault c f ≠ .panic site := by
  intro site
  cases f with
  | err m i => simp [scanFault]
  | panic s => exact absurd trivial h
  | fuel => simp [scanFault]

theorem tracerFor_scans (c : Core) : c.tracerFor.2.current = c.current ∧ c.tracerFor.2.suspended = c.suspended := by
  unfold Core.tracerFor
  repeat' split
  all_goals exact ⟨rfl, rfl⟩

theorem processCurrent_scans (c c' : Core) (h : c.processCurrent = .ok c') :
    c'.current = c.current ∧ c'.suspended = c.suspended := by
  unfold Core.processCurrent at h
  repeat' split at h
  all_goals first | (cases h; done) | (cases h; exact ⟨rfl, rfl⟩)

/-- `core.next` on a lexeme that lies inside the current file -/
theorem onLexeme_safe (c : Core) (l : Lexeme) (hl : WFLex c.current.env.size l) :
    (∀ site, c.onLexeme l = .error (.panic site) → ¬ ScanStagePanic site) ∧
    (∀ c', c.onLexeme l = .ok c' → c'.current = c.current ∧ c'.suspended = c.suspended) := by
  have hv : ∀ c1 : Core, c1.current = c.current → ∃ v, lexBytes c1.current l = some v := by
    intro c1 h1
    rw [h1]
    exact lexValue_wf c.current.env l hl
  unfold Core.onLexeme
  constructor
  · intro site h
    split at h
    · -- Keyword
      split at h
      · rename_i f hp
        -- processCurrent never panics
        unfold Core.processCurrent at hp
        repeat' split at hp
        all_goals first | (cases hp; done) | (cases hp; cases h)
      · rename_i c1 hp
        obtain ⟨v, hv1⟩ := hv c1 (processCurrent_scans c c1 hp).1
        simp only [hv1] at h
        repeat' split at h
        all_goals cases h
    · split at h
      · cases h; simp [ScanStagePanic]
      · obtain ⟨v, hv1⟩ := hv c rfl
        simp only [hv1] at h
        repeat' split at h
        all_goals cases h
    · split at h
      · cases h; simp [ScanStagePanic]
      · obtain ⟨v, hv1⟩ := hv c rfl
        simp only [hv1] at h
        cases h
    all_goals (repeat' split at h)
    all_goals first | (cases h; done) | (cases h; simp [ScanStagePanic])
    all_goals (rename_i hp; unfold Core.processCurrent at hp; repeat' split at hp)
    all_goals first | (cases hp; done) | (cases hp; cases h)
  · intro c' h
    split at h
    · split at h
      · cases h
      · rename_i c1 hp
        have h1 := processCurrent_scans c c1 hp
        repeat' split at h
        all_goals first
          | (cases h; done)
          | (rename_i htf; cases h; dsimp only
             have := tracerFor_scans c1
             rw [htf] at this
             exact ⟨this.1.trans h1.1, this.2.trans h1.2⟩)
    all_goals (repeat' split at h)
    all_goals first
      | (cases h; done)
      | (cases h; exact ⟨rfl, rfl⟩)
      | skip
    all_goals (rename_i hp _ _ _; cases h; exact ⟨(processCurrent_scans _ _ hp).1, (processCurrent_scans _ _ hp).2⟩)

include ht hroot in
/-- processInclude: reads the file name with one more call of `Next`, then switches to the new file -/
theorem processInclude_safe (c : Core) (fsys : FileSys) (kw : Lexeme) (hJ : ScansGood reachAt c) :
    (∀ site, c.processInclude fsys kw ≠ .error (.panic site)) ∧
    (∀ c', c.processInclude fsys kw = .ok c' → ScansGood reachAt c') := by
  have hn := next_sound c.current.env Gen.prog inputs reachAt ht (scanFuel c.current.env) c.current.sc hJ.1
  unfold Core.processInclude
  by_cases hb : c.banned.contains Kind.Include = true
  · simp only [hb, if_true]
    exact ⟨fun site h => (by cases h), fun c' h => (by cases h)⟩
  · simp only [hb, Bool.false_eq_true, if_false]
    revert hn
    cases hnx : next c.current.env Gen.prog (scanFuel c.current.env) c.current.sc with
    | error f =>
      intro hn
      exact ⟨fun site h => (by simp only [Except.error.injEq] at h; exact scanFault_not_panic c f hn site h), fun c' h => (by cases h)⟩
    | ok r =>
      obtain ⟨param, sc'⟩ := r
      rintro ⟨hg', hwf⟩
      dsimp only
      cases param with
      | none => exact ⟨fun site h => (by cases h), fun c' h => (by cases h)⟩
      | some p =>
        dsimp only
        by_cases hty : (p.ty != LexType.Parameter) = true
        · simp only [hty, if_true]
          exact ⟨fun site h => (by cases h), fun c' h => (by cases h)⟩
        · simp only [hty, Bool.false_eq_true, if_false]
          obtain ⟨raw, hraw⟩ := lexValue_wf c.current.env p (hwf p rfl)
          simp only [lexBytes, hraw]
          constructor
          · intro site h
            repeat' split at h
            all_goals cases h
          · intro c' h
            repeat' split at h
            all_goals first
              | (cases h; done)
              | (cases h
                 refine ⟨good_init _ reachAt .stateRoot hroot, ?_⟩
                 intro q hq
                 rcases List.mem_cons.mp hq with rfl | hq
                 · exact hg'
                 · exact hJ.2 q hq)

theorem onEOF_scans (c c' : Core) (h : c.onEOF = .ok c') : c'.current = c.current ∧ c'.suspended = c.suspended := by
  unfold Core.onEOF at h
  split at h
  · cases h
  · rename_i c1 hp
    split at h
    · cases h
    · cases h; exact processCurrent_scans c _ hp

theorem onEOF_not_panic (c : Core) (site : String) : c.onEOF ≠ .error (.panic site) := by
  unfold Core.onEOF
  intro h
  split at h
  · rename_i f hp
    unfold Core.processCurrent at hp
    repeat' split at hp
    all_goals first | (cases hp; done) | (cases hp; cases h)
  · split at h <;> cases h

include ht hroot in
/-- **the scanning stage of a project**: whatever the files, the include graph and the fuel, the only
    crash sites the model of the core's scanning loop can reach are the three dereferences of
    `currentDirective`; no crash site of the scanner, and no lexeme value outside its file -/
theorem run_safe (fsys : FileSys) (n : Nat) : ∀ (c : Core), ScansGood reachAt c →
    ∀ site, Core.run fsys n c = .error (.panic site) → ¬ ScanStagePanic site := by
  induction n with
  | zero => intro c _ site h; simp [Core.run] at h
  | succ n ih =>
    intro c hJ site h
    have hn := next_sound c.current.env Gen.prog inputs reachAt ht (scanFuel c.current.env) c.current.sc hJ.1
    simp only [Core.run] at h
    revert hn h
    cases hnx : next c.current.env Gen.prog (scanFuel c.current.env) c.current.sc with
    | error f =>
      intro hn h
      simp only [Except.error.injEq] at h
      exact absurd h (scanFault_not_panic c f hn site)
    | ok r =>
      obtain ⟨lex, sc'⟩ := r
      rintro ⟨hg', hwf⟩ h
      cases lex with
      | some l =>
        dsimp only at h
        have hl : WFLex c.current.env.size l := hwf l rfl
        -- the core with the advanced scanner
        have hJ1 : ∀ (res : Bool), ScansGood reachAt ({ ({ c with current := { c.current with sc := sc' } } : Core) with resumed := res }) :=
          fun _ => ⟨hg', hJ.2⟩
        split at h
        · rename_i tf heq
          split at heq
          · split at heq
            all_goals first | (cases heq; cases h; done) | (cases heq; done)
          · cases heq
        · split at h
          · -- INCLUDE
            split at h
            · rename_i f hinc
              simp only [Except.error.injEq] at h
              subst h
              exact absurd hinc ((processInclude_safe inputs reachAt ht hroot _ fsys l (hJ1 false)).1 site)
            · rename_i c' hinc
              exact ih c' ((processInclude_safe inputs reachAt ht hroot _ fsys l (hJ1 false)).2 c' hinc) site h
          · split at h
            · rename_i f hon
              simp only [Except.error.injEq] at h
              subst h
              refine (onLexeme_safe _ l ?_).1 site hon
              exact hl
            · rename_i c' hon
              have hsame := (onLexeme_safe _ l (by exact hl)).2 c' hon
              refine ih c' ?_ site h
              have hj := hJ1 false
              exact ⟨by rw [hsame.1]; exact hj.1, by rw [hsame.2]; exact hj.2⟩
      | none =>
        dsimp only at h
        split at h
        · rename_i f he
          simp only [Except.error.injEq] at h
          subst h
          exact absurd he (onEOF_not_panic _ site)
        · rename_i c2 he
          have hsame := onEOF_scans _ c2 he
          split at h
          · cases h
          · rename_i sfs at_ rest hsus
            refine ih _ ?_ site h
            have hmem : ∀ p ∈ c2.suspended, Good p.1.env reachAt p.1.sc := by
              rw [hsame.2]; exact hJ.2
            refine ⟨hmem (sfs, at_) (by rw [hsus]; simp), ?_⟩
            intro p hp
            exact hmem p (by rw [hsus]; exact List.mem_cons_of_mem _ hp)

end

end JsightVerif.Model
