import JsightVerif.Proofs.StackSafe
import JsightVerif.Proofs.Progress
import JsightVerif.Model.Project
/-
  The scanning stage of a whole project (Model/Project.lean `Core.run`: the core's loop over lexemes
  with INCLUDE, suspended scanners and the file system) never reaches a crash site of the scanner and
  never takes the value of a lexeme that is not a slice of its file — for every file system, every
  include graph and every fuel.  The invariant: the scanner state of the file being read and of every
  suspended file is covered by the reach certificate (`Good`), so the scanner theorems of
  Proofs/StackSafe.lean apply to every call of `Next` the core makes.
  The order part of the abstract domain (a Keyword lexeme is more recent than any closing parenthesis
  whenever a parameter, annotation or body lexeme is reported) gives, with the invariant "in that phase
  `currentDirective` is set, or the scanner has just been resumed after an INCLUDE", that
  processParameter and processAnnotation never dereference a nil `currentDirective`.  What is *not* shown:
  that no body lexeme is the first lexeme after an INCLUDE line (processBody right after a resume) — the
  abstract domain does not know that the keyword that has just ended is INCLUDE; correspondence-level.
-/
namespace JsightVerif.Model
open JsightVerif.Gen

section
variable (inputs : List UInt8) (reachAt : St → List (RKey St)) (ht : TableOk Gen.prog inputs reachAt)
  (hroot : (reachAt .stateRoot).contains ([], [], 0, true, [], 0, false, 1) = true)

/-- covered, with byte-loop potential at most `4·|file| + 11` (below the fuel `Core.run` gives `Next`) -/
def GoodF (env : Env) (s : Sc St) : Prop := ∃ B, GoodP env reachAt (4 * env.size + 11) B s

/-- every scanner of the project is in a covered state -/
def ScansGood (c : Core) : Prop :=
  GoodF reachAt c.current.env c.current.sc ∧ ∀ p ∈ c.suspended, GoodF reachAt p.1.env p.1.sc

/-- the crash sites of the scanning stage that are excluded here: all but one -/
def ScanStagePanic (site : String) : Prop := site ≠ "processBody: currentDirective is nil"

/-- in the phase where the scanner may report a parameter, annotation or body lexeme the core has a
    current directive — or has just resumed this scanner after an INCLUDE (then the first lexeme is checked) -/
def CoreRel (c : Core) : Prop := c.current.sc.ph = true → (c.cur ≠ none ∨ c.resumed = true)

def NoScanPanic : Except PFault Core → Prop
  | .error (.panic site) => ¬ ScanStagePanic site
  | _ => True

theorem scanFault_not_panic (c : Core) (f : Fault) (h : ¬ Crash f) (hf : f ≠ .fuel) : ∀ site, scanFault c f ≠ .panic site := by
  intro site
  cases f with
  | err m i => simp [scanFault]
  | panic s => exact absurd trivial h
  | fuel => exact absurd rfl hf

include ht in
/-- one call of `Next` as the core makes it (fuel `scanFuel`): safe, inside the file, in order, and not out of fuel -/
theorem next_both (env : Env) (s : Sc St) (hF : GoodF reachAt env s) :
    match next env Gen.prog (scanFuel env) s with
    | .error f => ¬ Crash f ∧ f ≠ .fuel
    | .ok (lex, s') => GoodF reachAt env s' ∧ (∀ l, lex = some l → WFLex env.size l ∧ LexPh s.ph s'.ph l ∧ LexOrd s.le s'.le l) ∧
        (lex = none → s'.ph = s.ph ∧ s'.le = s.le) := by
  obtain ⟨B, hP⟩ := hF
  have h1 := next_sound env Gen.prog inputs reachAt ht (scanFuel env) s hP.good
  have h2 := next_prog env Gen.prog inputs reachAt ht (scanFuel env) (4 * env.size + 11) B s hP (by simp only [scanFuel]; omega)
  revert h1 h2
  cases next env Gen.prog (scanFuel env) s with
  | error f => intro h1 h2; exact ⟨h1, h2⟩
  | ok r =>
    obtain ⟨lex, s'⟩ := r
    cases lex with
    | none => intro h1 h2; exact ⟨⟨B, h2⟩, h1.2.1, h1.2.2⟩
    | some l =>
      intro h1 h2
      obtain ⟨B', _, hg⟩ := h2
      exact ⟨⟨B', hg⟩, h1.2.1, h1.2.2⟩

theorem tracerFor_scans (c : Core) : c.tracerFor.2.current = c.current ∧ c.tracerFor.2.suspended = c.suspended := by
  unfold Core.tracerFor
  repeat' split
  all_goals exact ⟨rfl, rfl⟩

theorem processCurrent_scans (c c' : Core) (h : c.processCurrent = .ok c') :
    c'.current = c.current ∧ c'.suspended = c.suspended := by
  unfold Core.processCurrent at h
  repeat' split at h
  all_goals first | (cases h; done) | (cases h; exact ⟨rfl, rfl⟩)

/-- `core.next` on a lexeme that lies inside the current file -/
theorem onLexeme_safe (c : Core) (l : Lexeme) (hl : WFLex c.current.env.size l) :
    (∀ site, c.onLexeme l = .error (.panic site) → site = "processBody: currentDirective is nil" ∨
        (c.cur = none ∧ (l.ty = .Parameter ∨ l.ty = .Annotation))) ∧
    (∀ c', c.onLexeme l = .ok c' → c'.current = c.current ∧ c'.suspended = c.suspended ∧ c'.resumed = c.resumed ∧
        (l.ty = .ContextExplicitClosing ∨ c'.cur ≠ none)) := by
  have hv : ∀ c1 : Core, c1.current = c.current → ∃ v, lexBytes c1.current l = some v := by
    intro c1 h1
    rw [h1]
    exact lexValue_wf c.current.env l hl
  unfold Core.onLexeme
  constructor
  · intro site h
    split at h
    · -- Keyword
      split at h
      · rename_i f hp
        unfold Core.processCurrent at hp
        repeat' split at hp
        all_goals first | (cases hp; done) | (cases hp; cases h)
      · rename_i c1 hp
        obtain ⟨v, hv1⟩ := hv c1 (processCurrent_scans c c1 hp).1
        simp only [hv1] at h
        repeat' split at h
        all_goals cases h
    · rename_i hty
      split at h
      · rename_i hcur
        exact Or.inr ⟨hcur, Or.inl hty⟩
      · obtain ⟨v, hv1⟩ := hv c rfl
        simp only [hv1] at h
        repeat' split at h
        all_goals cases h
    · rename_i hty
      split at h
      · rename_i hcur
        exact Or.inr ⟨hcur, Or.inr hty⟩
      · obtain ⟨v, hv1⟩ := hv c rfl
        simp only [hv1] at h
        cases h
    all_goals (repeat' split at h)
    all_goals first | (cases h; done) | (cases h; exact Or.inl rfl) | skip
    all_goals (rename_i hp; unfold Core.processCurrent at hp; repeat' split at hp)
    all_goals first | (cases hp; done) | (cases hp; cases h)
  · intro c' h
    split at h
    · split at h
      · cases h
      · rename_i c1 hp
        have h1 := processCurrent_scans c c1 hp
        have hres : c1.resumed = c.resumed := by
          unfold Core.processCurrent at hp
          repeat' split at hp
          all_goals first | (cases hp; done) | (cases hp; rfl)
        repeat' split at h
        all_goals first
          | (cases h; done)
          | (rename_i htf; cases h; dsimp only
             have := tracerFor_scans c1
             have hr : c1.tracerFor.2.resumed = c1.resumed := by
               unfold Core.tracerFor
               repeat' split
               all_goals rfl
             rw [htf] at this hr
             exact ⟨this.1.trans h1.1, this.2.trans h1.2, hr.trans hres, Or.inr (by simp)⟩)
    all_goals (repeat' split at h)
    all_goals first
      | (cases h; done)
      | (cases h; exact ⟨rfl, rfl, rfl, Or.inr (by simp)⟩)
      | skip
    all_goals (cases h
               have hres : ∀ c1 : Core, c.processCurrent = .ok c1 → c1.resumed = c.resumed := by
                 intro c1 hp1
                 unfold Core.processCurrent at hp1
                 repeat' split at hp1
                 all_goals first | (cases hp1; done) | (cases hp1; rfl)
               have key : ∀ (c1 : Core), c.processCurrent = Except.ok c1 → ∀ (ctx' : Ctx Dir) (cu : Option Dir),
                   ({ c1 with ctx := ctx' } : Core).current = c.current ∧ ({ c1 with ctx := ctx' } : Core).suspended = c.suspended ∧
                   ({ c1 with ctx := ctx' } : Core).resumed = c.resumed ∧ (l.ty = LexType.ContextExplicitClosing ∨ cu ≠ none) :=
                 fun c1 hp1 _ _ => ⟨(processCurrent_scans c c1 hp1).1, (processCurrent_scans c c1 hp1).2, hres c1 hp1,
                   Or.inl ‹l.ty = LexType.ContextExplicitClosing›⟩
               exact key _ (by assumption) _ _)

/-- a crash of `core.next` is a dereference of a nil `currentDirective` by a lexeme that needs one -/
theorem onLexeme_panic_cur (c : Core) (l : Lexeme) (hl : WFLex c.current.env.size l) (site : String)
    (h : c.onLexeme l = .error (.panic site)) : c.cur = none ∧ phNeeds l.ty = true := by
  have hv : ∀ c1 : Core, c1.current = c.current → ∃ v, lexBytes c1.current l = some v := by
    intro c1 h1
    rw [h1]
    exact lexValue_wf c.current.env l hl
  unfold Core.onLexeme at h
  split at h
  · -- Keyword
    split at h
    · rename_i f hp
      unfold Core.processCurrent at hp
      repeat' split at hp
      all_goals first | (cases hp; done) | (cases hp; cases h)
    · rename_i c1 hp
      obtain ⟨v, hv1⟩ := hv c1 (processCurrent_scans c c1 hp).1
      simp only [hv1] at h
      repeat' split at h
      all_goals cases h
  · rename_i hty
    split at h
    · rename_i hcur
      exact ⟨hcur, by rw [hty]; rfl⟩
    · obtain ⟨v, hv1⟩ := hv c rfl
      simp only [hv1] at h
      repeat' split at h
      all_goals cases h
  · rename_i hty
    split at h
    · rename_i hcur
      exact ⟨hcur, by rw [hty]; rfl⟩
    · obtain ⟨v, hv1⟩ := hv c rfl
      simp only [hv1] at h
      cases h
  · rename_i hty
    split at h
    · rename_i hcur; exact ⟨hcur, by rw [hty]; rfl⟩
    · cases h
  · rename_i hty
    split at h
    · rename_i hcur; exact ⟨hcur, by rw [hty]; rfl⟩
    · cases h
  · rename_i hty
    split at h
    · rename_i hcur; exact ⟨hcur, by rw [hty]; rfl⟩
    · cases h
  · rename_i hty
    split at h
    · rename_i hcur; exact ⟨hcur, by rw [hty]; rfl⟩
    · cases h
  all_goals (repeat' split at h)
  all_goals first | (cases h; done) | skip
  all_goals (rename_i hp; unfold Core.processCurrent at hp; repeat' split at hp)
  all_goals first | (cases hp; done) | (cases hp; cases h)

include ht hroot in
/-- processInclude: reads the file name with one more call of `Next`, then switches to the new file -/
theorem processInclude_safe (c : Core) (fsys : FileSys) (kw : Lexeme) (hJ : ScansGood reachAt c) :
    (∀ site, c.processInclude fsys kw ≠ .error (.panic site)) ∧
    (∀ c', c.processInclude fsys kw = .ok c' → ScansGood reachAt c' ∧ CoreRel c') := by
  have hn := next_both inputs reachAt ht c.current.env c.current.sc hJ.1
  unfold Core.processInclude
  by_cases hb : c.banned.contains Kind.Include = true
  · simp only [hb, if_true]
    exact ⟨fun site h => (by cases h), fun c' h => (by cases h)⟩
  · simp only [hb, Bool.false_eq_true, if_false]
    revert hn
    cases hnx : next c.current.env Gen.prog (scanFuel c.current.env) c.current.sc with
    | error f =>
      intro hn
      exact ⟨fun site h => (by simp only [Except.error.injEq] at h; exact scanFault_not_panic c f hn.1 hn.2 site h), fun c' h => (by cases h)⟩
    | ok r =>
      obtain ⟨param, sc'⟩ := r
      rintro ⟨hg', hwf, _⟩
      dsimp only
      cases param with
      | none => exact ⟨fun site h => (by cases h), fun c' h => (by cases h)⟩
      | some p =>
        dsimp only
        by_cases hty : (p.ty != LexType.Parameter) = true
        · simp only [hty, if_true]
          exact ⟨fun site h => (by cases h), fun c' h => (by cases h)⟩
        · simp only [hty, Bool.false_eq_true, if_false]
          obtain ⟨raw, hraw⟩ := lexValue_wf c.current.env p (hwf p rfl).1
          simp only [lexBytes, hraw]
          constructor
          · intro site h
            repeat' split at h
            all_goals cases h
          · intro c' h
            repeat' split at h
            all_goals first
              | (cases h; done)
              | (cases h
                 refine ⟨⟨⟨_, goodP_init _ reachAt .stateRoot hroot⟩, ?_⟩, fun hp => by simp [Sc.init] at hp⟩
                 intro q hq
                 rcases List.mem_cons.mp hq with rfl | hq
                 · exact hg'
                 · exact hJ.2 q hq)

theorem onEOF_scans (c c' : Core) (h : c.onEOF = .ok c') : c'.current = c.current ∧ c'.suspended = c.suspended := by
  unfold Core.onEOF at h
  split at h
  · cases h
  · rename_i c1 hp
    split at h
    · cases h
    · cases h; exact processCurrent_scans c _ hp

theorem onEOF_not_panic (c : Core) (site : String) : c.onEOF ≠ .error (.panic site) := by
  unfold Core.onEOF
  intro h
  split at h
  · rename_i f hp
    unfold Core.processCurrent at hp
    repeat' split at hp
    all_goals first | (cases hp; done) | (cases hp; cases h)
  · split at h <;> cases h

include ht hroot in
/-- **the scanning stage of a project**: whatever the files, the include graph and the fuel, the only
    crash site the model of the core's scanning loop can reach is the dereference of `currentDirective`
    in processBody; no crash site of the scanner, no lexeme value outside its file, no nil
    `currentDirective` in processParameter / processAnnotation -/
theorem run_safe (fsys : FileSys) (n : Nat) : ∀ (c : Core), ScansGood reachAt c → CoreRel c →
    ∀ site, Core.run fsys n c = .error (.panic site) → ¬ ScanStagePanic site := by
  induction n with
  | zero => intro c _ _ site h; simp [Core.run] at h
  | succ n ih =>
    intro c hJ hR site h
    have hn := next_both inputs reachAt ht c.current.env c.current.sc hJ.1
    simp only [Core.run] at h
    revert hn h
    cases hnx : next c.current.env Gen.prog (scanFuel c.current.env) c.current.sc with
    | error f =>
      intro hn h
      simp only [Except.error.injEq] at h
      exact absurd h (scanFault_not_panic c f hn.1 hn.2 site)
    | ok r =>
      obtain ⟨lex, sc'⟩ := r
      rintro ⟨hg', hwf, hnone⟩ h
      cases lex with
      | some l =>
        dsimp only at h
        obtain ⟨hl, ⟨hneed, hph1⟩, _⟩ := hwf l rfl
        have hJ1 : ∀ (res : Bool), ScansGood reachAt ({ ({ c with current := { c.current with sc := sc' } } : Core) with resumed := res }) :=
          fun _ => ⟨hg', hJ.2⟩
        split at h
        · rename_i tf heq
          split at heq
          · split at heq
            all_goals first | (cases heq; cases h; done) | (cases heq; done)
          · cases heq
        · rename_i heq
          -- no error for the first lexeme after a resume: not resumed, or neither a parameter nor an annotation
          have hnores : c.resumed = true → l.ty ≠ .Parameter ∧ l.ty ≠ .Annotation := by
            intro hres
            simp only [hres, if_true] at heq
            constructor <;> (intro hty; simp [hty] at heq)
          split at h
          · -- INCLUDE
            split at h
            · rename_i f hinc
              simp only [Except.error.injEq] at h
              subst h
              exact absurd hinc ((processInclude_safe inputs reachAt ht hroot _ fsys l (hJ1 false)).1 site)
            · rename_i c' hinc
              obtain ⟨hsg, hcr⟩ := (processInclude_safe inputs reachAt ht hroot _ fsys l (hJ1 false)).2 c' hinc
              exact ih c' hsg hcr site h
          · split at h
            · rename_i f hon
              simp only [Except.error.injEq] at h
              subst h
              have := (onLexeme_safe _ l (by exact hl)).1 site hon
              rcases this with hs | ⟨hcur, hty⟩
              · simp [ScanStagePanic, hs]
              · -- a parameter / annotation without a current directive: excluded by the phase
                exfalso
                have hcur' : c.cur = none := hcur
                have hp : c.current.sc.ph = true := hneed (by rcases hty with h1 | h1 <;> simp [h1, phNeeds])
                rcases hR hp with hc | hres
                · exact hc hcur'
                · have := hnores hres
                  rcases hty with h1 | h1
                  · exact this.1 h1
                  · exact this.2 h1
            · rename_i c' hon
              obtain ⟨hs1, hs2, hs3, hs4⟩ := (onLexeme_safe _ l (by exact hl)).2 c' hon
              refine ih c' ?_ ?_ site h
              · have hj := hJ1 false
                exact ⟨by rw [hs1]; exact hj.1, by rw [hs2]; exact hj.2⟩
              · intro hp
                rw [hs1] at hp
                have hp' : sc'.ph = true := hp
                rcases hs4 with hty | hc
                · rw [hph1, hty] at hp'
                  simp [phAfter] at hp'
                · exact Or.inl hc
      | none =>
        dsimp only at h
        split at h
        · rename_i f he
          simp only [Except.error.injEq] at h
          subst h
          exact absurd he (onEOF_not_panic _ site)
        · rename_i c2 he
          have hsame := onEOF_scans _ c2 he
          split at h
          · cases h
          · rename_i sfs at_ rest hsus
            refine ih _ ?_ ?_ site h
            · have hmem : ∀ p ∈ c2.suspended, GoodF reachAt p.1.env p.1.sc := by
                rw [hsame.2]; exact hJ.2
              refine ⟨hmem (sfs, at_) (by rw [hsus]; simp), ?_⟩
              intro p hp
              exact hmem p (by rw [hsus]; exact List.mem_cons_of_mem _ hp)
            · intro _
              exact Or.inr rfl

theorem processCurrent_not_fuel (c : Core) : c.processCurrent ≠ .error .fuel := by
  intro h
  unfold Core.processCurrent at h
  repeat' split at h
  all_goals cases h

theorem onEOF_not_fuel (c : Core) : c.onEOF ≠ .error .fuel := by
  intro h
  unfold Core.onEOF at h
  repeat' split at h
  all_goals first
    | (cases h; done)
    | (cases h; exact processCurrent_not_fuel _ ‹_›)

theorem onLexeme_not_fuel (c : Core) (l : Lexeme) : c.onLexeme l ≠ .error .fuel := by
  intro h
  unfold Core.onLexeme at h
  repeat' split at h
  all_goals first
    | (cases h; done)
    | (cases h; exact processCurrent_not_fuel _ ‹_›)

theorem processInclude_not_fuel (c : Core) (fsys : FileSys) (kw : Lexeme) : c.processInclude fsys kw ≠ .error .fuel := by
  intro h
  simp only [Core.processInclude] at h
  repeat' split at h
  all_goals first
    | (cases h; done)
    | (rename_i f _; cases f <;> simp only [scanFault] at h <;> cases h)

/-- a file system in which no INCLUDE can succeed (no regular file at any path): a single-file project -/
def NoFiles (fsys : FileSys) : Prop := ∀ p content lenAt, fsys p ≠ .found (.file content lenAt)

theorem processInclude_nofiles (c c' : Core) (fsys : FileSys) (kw : Lexeme) (hfs : NoFiles fsys) :
    c.processInclude fsys kw ≠ .ok c' := by
  intro h
  simp only [Core.processInclude] at h
  repeat' split at h
  all_goals first
    | (cases h; done)
    | (rename_i hfound; exact hfs _ _ _ hfound)
    | (rename_i hfound _; exact hfs _ _ _ hfound)

/-- outcome without crash and without exhausted fuel -/
def Total : Except PFault Core → Prop
  | .ok _ => True
  | .error (.err _) => True
  | .error (.panic _) => False
  | .error .fuel => False

include ht hroot in
/-- **single-file projects: the scanning stage is total.**  If no INCLUDE can succeed, the core's scanning
    loop, given more fuel than the call potential of the file, ends with the forest or with a located error
    value: no crash site at all (the residual processBody site needs a resume after an INCLUDE) and no
    exhausted fuel. -/
theorem run_total_single (fsys : FileSys) (hfs : NoFiles fsys) (n : Nat) : ∀ (c : Core) (B : Nat),
    GoodP c.current.env reachAt (4 * c.current.env.size + 11) B c.current.sc → c.suspended = [] → c.resumed = false →
    (c.current.sc.ph = true → c.cur ≠ none) → B < n → Total (Core.run fsys n c) := by
  induction n with
  | zero => intro c B _ _ _ _ hb; omega
  | succ n ih =>
    intro c B hP hsus hres hcur hb
    have h1 := next_sound c.current.env Gen.prog inputs reachAt ht (scanFuel c.current.env) c.current.sc hP.good
    have h2 := next_prog c.current.env Gen.prog inputs reachAt ht (scanFuel c.current.env) (4 * c.current.env.size + 11) B
      c.current.sc hP (by simp only [scanFuel]; omega)
    simp only [Core.run]
    revert h1 h2
    cases hnx : next c.current.env Gen.prog (scanFuel c.current.env) c.current.sc with
    | error f =>
      intro h1 h2
      cases f with
      | err m i => simp [scanFault, Total]
      | panic s => exact absurd trivial h1
      | fuel => exact absurd rfl h2
    | ok r =>
      obtain ⟨lex, sc'⟩ := r
      cases lex with
      | none =>
        intro _ _
        dsimp only
        cases he : Core.onEOF _ with
        | error f =>
          dsimp only
          cases f with
          | err e => trivial
          | panic s => exact absurd he (onEOF_not_panic _ s)
          | fuel => exact absurd he (onEOF_not_fuel _)
        | ok c2 =>
          dsimp only
          have hs2 := (onEOF_scans _ c2 he).2
          have : c2.suspended = [] := by rw [hs2]; exact hsus
          rw [this]
          trivial
      | some l =>
        rintro ⟨hg', hwf, _⟩ ⟨B', hB', hP'⟩
        obtain ⟨hl, ⟨hneed, hph1⟩, _⟩ := hwf l rfl
        dsimp only
        simp only [hres, Bool.false_eq_true, if_false]
        split
        · -- INCLUDE: cannot succeed
          cases hinc : Core.processInclude _ fsys l with
          | ok c1 => exact absurd hinc (processInclude_nofiles _ c1 fsys l hfs)
          | error f =>
            dsimp only
            cases f with
            | err e => trivial
            | panic s =>
              have hsg : ScansGood reachAt ({ ({ c with current := { c.current with sc := sc' } } : Core) with resumed := false }) :=
                ⟨⟨B', hP'⟩, by intro p hp; rw [hsus] at hp; cases hp⟩
              exact absurd hinc ((processInclude_safe inputs reachAt ht hroot _ fsys l hsg).1 s)
            | fuel => exact absurd hinc (processInclude_not_fuel _ fsys l)
        · cases hon : Core.onLexeme _ l with
          | error f =>
            dsimp only
            cases f with
            | err e => trivial
            | panic s =>
              obtain ⟨hcn, hpn⟩ := onLexeme_panic_cur _ l (by exact hl) s hon
              exact absurd hcn (hcur (hneed hpn))
            | fuel => exact absurd hon (onLexeme_not_fuel _ l)
          | ok c1 =>
            dsimp only
            obtain ⟨hs1, hs2, hs3, hs4⟩ := (onLexeme_safe _ l (by exact hl)).2 c1 hon
            refine ih c1 B' ?_ (by rw [hs2]; exact hsus) (by rw [hs3]) ?_ (by omega)
            · rw [hs1]; exact hP'
            · intro hp
              rw [hs1] at hp
              have hp' : sc'.ph = true := hp
              rcases hs4 with hty | hc
              · rw [hph1, hty] at hp'
                simp [phAfter] at hp'
              · exact hc

end

end JsightVerif.Model
