import JsightVerif.Proofs.TreeInv
/-
  Nesting invariant of the directive-tree zipper: every directive of the finished forest sits under a
  parent whose kind admits it (Gen.allowedTable), and every root is allowed at root level — because
  `attach` is the only way into the zipper and checks exactly that.
-/
namespace JsightVerif.Model
open JsightVerif.Gen

def admits (parent : Option Kind) (k : Kind) : Bool :=
  match parent with
  | none => allowedRoot k
  | some p => allowedIn p k

mutual
  /-- the tree is well nested under a parent of kind `parent` (`none` = root level) -/
  def Tree.wn {α} (kind : α → Kind) (parent : Option Kind) : Tree α → Bool
    | .node d kids => admits parent (kind d) && Tree.wnList kind (some (kind d)) kids
  def Tree.wnList {α} (kind : α → Kind) (parent : Option Kind) : List (Tree α) → Bool
    | [] => true
    | t :: rest => t.wn kind parent && Tree.wnList kind parent rest
end

theorem Tree.wnList_append {α} (kind : α → Kind) (p : Option Kind) (a b : List (Tree α)) :
    Tree.wnList kind p (a ++ b) = (Tree.wnList kind p a && Tree.wnList kind p b) := by
  induction a with
  | nil => simp [Tree.wnList]
  | cons t rest ih => simp [Tree.wnList, ih, Bool.and_assoc]

theorem Tree.wnList_reverse {α} (kind : α → Kind) (p : Option Kind) (a : List (Tree α)) :
    Tree.wnList kind p a.reverse = Tree.wnList kind p a := by
  induction a with
  | nil => rfl
  | cons t rest ih => simp [Tree.wnList, Tree.wnList_append, ih, Bool.and_comm]

/-- a frame: its head is its payload's kind, its finished children are well nested under it -/
def Frame.wnF {α} (kind : α → Kind) (f : Frame α) : Bool :=
  f.h.kind == kind f.d && Tree.wnList kind (some (kind f.d)) f.kidsRev

/-- the open frames, innermost first: each is admitted by the one below it, the outermost by the root level -/
def stackWn {α} (kind : α → Kind) : List (Frame α) → Bool
  | [] => true
  | [f] => f.wnF kind && allowedRoot (kind f.d)
  | f :: g :: rest => f.wnF kind && allowedIn (kind g.d) (kind f.d) && stackWn kind (g :: rest)

def Ctx.wnC {α} (kind : α → Kind) (c : Ctx α) : Bool := stackWn kind c.stack && Tree.wnList kind none c.rootsRev

/-- the kind of the frame below (what a closed top frame will be a child of) -/
def parentOf {α} (kind : α → Kind) : List (Frame α) → Option Kind
  | [] => none
  | g :: _ => some (kind g.d)

def optWn {α} (kind : α → Kind) (p : Option Kind) : Option (Tree α) → Bool
  | none => true
  | some t => t.wn kind p

theorem stackWn_tail {α} (kind : α → Kind) (f : Frame α) (rest : List (Frame α)) (h : stackWn kind (f :: rest) = true) :
    f.wnF kind = true ∧ admits (parentOf kind rest) (kind f.d) = true ∧ stackWn kind rest = true := by
  cases rest with
  | nil => simp only [stackWn, Bool.and_eq_true] at h; exact ⟨h.1, h.2, rfl⟩
  | cons g r => simp only [stackWn, Bool.and_eq_true] at h; exact ⟨h.1.1, h.1.2, h.2⟩

theorem stackWn_cons {α} (kind : α → Kind) (f : Frame α) (rest : List (Frame α))
    (hf : f.wnF kind = true) (ha : admits (parentOf kind rest) (kind f.d) = true) (hr : stackWn kind rest = true) :
    stackWn kind (f :: rest) = true := by
  cases rest with
  | nil => simp only [stackWn, Bool.and_eq_true]; exact ⟨hf, ha⟩
  | cons g r => simp only [stackWn, Bool.and_eq_true]; exact ⟨⟨hf, ha⟩, hr⟩

theorem Frame.close_wn {α} (kind : α → Kind) (f : Frame α) (p : Option Kind)
    (hf : f.wnF kind = true) (ha : admits p (kind f.d) = true) : f.close.wn kind p = true := by
  simp only [Frame.wnF, Bool.and_eq_true] at hf
  simp [Frame.close, Tree.wn, ha, Tree.wnList_reverse, hf.2]

theorem Frame.absorb_wn {α} (kind : α → Kind) (f : Frame α) (c : Option (Tree α))
    (hf : f.wnF kind = true) (hc : optWn kind (some (kind f.d)) c = true) : (f.absorb c).wnF kind = true := by
  cases c with
  | none => exact hf
  | some t =>
    simp only [Frame.wnF, Bool.and_eq_true] at hf ⊢
    simp only [optWn] at hc
    exact ⟨hf.1, by simp [Frame.absorb, Tree.wnList, hc, hf.2]⟩

theorem Frame.absorb_d {α} (f : Frame α) (c : Option (Tree α)) : (f.absorb c).d = f.d := by
  cases c <;> rfl

theorem Frame.absorb_h {α} (f : Frame α) (c : Option (Tree α)) : (f.absorb c).h = f.h := by
  cases c <;> rfl

theorem absorbRoots_wn {α} (kind : α → Kind) (roots : List (Tree α)) (c : Option (Tree α))
    (hr : Tree.wnList kind none roots = true) (hc : optWn kind none c = true) :
    Tree.wnList kind none (absorbRoots roots c) = true := by
  cases c with
  | none => exact hr
  | some t => simp only [optWn] at hc; simp [absorbRoots, Tree.wnList, hc, hr]

theorem closeAll_wn {α} (kind : α → Kind) (st : List (Frame α)) (c : Option (Tree α)) (roots : List (Tree α))
    (hs : stackWn kind st = true) (hc : optWn kind (parentOf kind st) c = true) (hr : Tree.wnList kind none roots = true) :
    Tree.wnList kind none (closeAll st c roots) = true := by
  induction st generalizing c with
  | nil => exact absorbRoots_wn kind roots c hr hc
  | cons f rest ih =>
    obtain ⟨hf, ha, hrest⟩ := stackWn_tail kind f rest hs
    simp only [closeAll]
    apply ih _ hrest
    simp only [optWn]
    have hfa := Frame.absorb_wn kind f c hf hc
    exact Frame.close_wn kind _ _ hfa (by rw [Frame.absorb_d]; exact ha)

theorem attachStack_wn {α} (kind : α → Kind) (hm : ∀ k, isHTTPMethod k = true → allowedRoot k = true)
    (d : α) (h : Head) (hk : h.kind = kind d) (st : List (Frame α))
    (c : Option (Tree α)) (roots : List (Tree α)) (r : Ctx α)
    (hs : stackWn kind st = true) (hc : optWn kind (parentOf kind st) c = true) (hr : Tree.wnList kind none roots = true)
    (hres : attachStack d h st c roots = .ok r) : r.wnC kind = true := by
  have hnew : (⟨d, h, []⟩ : Frame α).wnF kind = true := by simp [Frame.wnF, hk, Tree.wnList]
  induction st generalizing c with
  | nil =>
    simp only [attachStack] at hres
    split at hres
    · rename_i hroot
      cases hres
      simp only [Ctx.wnC, Bool.and_eq_true]
      exact ⟨stackWn_cons kind _ [] hnew (by simpa [admits, parentOf, hk] using hroot) rfl, absorbRoots_wn kind roots c hr hc⟩
    · cases hres
  | cons f rest ih =>
    obtain ⟨hf, ha, hrest⟩ := stackWn_tail kind f rest hs
    have hfa := Frame.absorb_wn kind f c hf hc
    have hfk : (f.absorb c).h.kind = kind f.d := by
      rw [Frame.absorb_h]; simp only [Frame.wnF, Bool.and_eq_true, beq_iff_eq] at hf; exact hf.1
    have hfull : stackWn kind (f.absorb c :: rest) = true :=
      stackWn_cons kind _ rest hfa (by rw [Frame.absorb_d]; exact ha) hrest
    simp only [attachStack] at hres
    split at hres
    · rename_i hallow
      split at hres
      · rename_i hurl
        split at hres
        · cases hres
        · cases hres
          simp only [Ctx.wnC, Bool.and_eq_true]
          refine ⟨stackWn_cons kind _ [] hnew ?_ rfl, closeAll_wn kind _ none roots hfull rfl hr⟩
          simp only [Bool.and_eq_true] at hurl
          simpa [admits, parentOf, hk] using hm _ hurl.1.1
      · cases hres
        simp only [Ctx.wnC, Bool.and_eq_true]
        refine ⟨stackWn_cons kind _ _ hnew ?_ hfull, hr⟩
        simp only [admits, parentOf, Frame.absorb_d]
        rw [← hk, ← hfk]; exact hallow
    · split at hres
      · cases hres
      · exact ih (some (f.absorb c).close) hrest
          (Frame.close_wn kind _ _ hfa (by rw [Frame.absorb_d]; exact ha)) hres

theorem attach_wn {α} (kind : α → Kind) (hm : ∀ k, isHTTPMethod k = true → allowedRoot k = true)
    (c : Ctx α) (d : α) (h : Head) (hk : h.kind = kind d) (r : Ctx α)
    (hc : c.wnC kind = true) (hres : attach c d h = .ok r) : r.wnC kind = true := by
  simp only [Ctx.wnC, Bool.and_eq_true] at hc
  exact attachStack_wn kind hm d h hk c.stack none c.rootsRev r hc.1 rfl hc.2 hres

theorem forest_wn {α} (kind : α → Kind) (c : Ctx α) (hc : c.wnC kind = true) : Tree.wnList kind none c.forest = true := by
  simp only [Ctx.wnC, Bool.and_eq_true] at hc
  simp only [Ctx.forest, Tree.wnList_reverse]
  exact closeAll_wn kind c.stack none c.rootsRev hc.1 rfl hc.2

theorem closeTo_wn {α} (kind : α → Kind) (k fuel : Nat) (c : Ctx α) (hc : c.wnC kind = true) :
    (Build.closeTo k fuel c).wnC kind = true := by
  induction fuel generalizing c with
  | zero => exact hc
  | succ n ih =>
    simp only [Build.closeTo]
    split
    · exact hc
    · simp only [Ctx.wnC, Bool.and_eq_true] at hc
      split
      · simpa [Ctx.wnC] using hc
      · rename_i f hst
        apply ih
        rw [hst] at hc
        obtain ⟨hf, ha, _⟩ := stackWn_tail kind f [] hc.1
        simp only [Ctx.wnC, Bool.and_eq_true]
        exact ⟨rfl, by simp [Tree.wnList, Frame.close_wn kind f none hf ha, hc.2]⟩
      · rename_i f g rest hst
        apply ih
        rw [hst] at hc
        obtain ⟨hf, ha, hrest⟩ := stackWn_tail kind f (g :: rest) hc.1
        obtain ⟨hg, hga, hrr⟩ := stackWn_tail kind g rest hrest
        simp only [Ctx.wnC, Bool.and_eq_true]
        refine ⟨stackWn_cons kind _ rest (Frame.absorb_wn kind g _ hg (Frame.close_wn kind f _ hf ha)) ?_ hrr, hc.2⟩
        rw [Frame.absorb_d]; exact hga

end JsightVerif.Model
