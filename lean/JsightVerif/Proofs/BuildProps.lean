import JsightVerif.Proofs.TreeInv
/-
  Facts about the build model (Model/Build.lean) that the property theorems of C02, C03, C05, C10,
  C19 are stated with: how each directive changes the list of interaction ids, that new ids are
  fresh, that the ban set is constant and checked at every directive, and which stages a successful
  `build` went through.
-/
namespace JsightVerif.Model.Build
open JsightVerif.Gen JsightVerif.Model

/-- the interaction ids of a catalog, in catalog order -/
def ids (c : Cat) : List Bytes := c.inters.map Inter.id

@[simp] theorem ids_updHttp (c : Cat) (id : Bytes) (f : HttpI → HttpI) : ids (c.updHttp id f) = ids c := by
  simp only [ids, Cat.updHttp, List.map_map]
  apply List.map_congr_left
  intro i _
  cases i with
  | http h => simp only [Function.comp]; split <;> rfl
  | rpc r => rfl

@[simp] theorem ids_updRpc (c : Cat) (id : Bytes) (f : RpcI → RpcI) : ids (c.updRpc id f) = ids c := by
  simp only [ids, Cat.updRpc, List.map_map]
  apply List.map_congr_left
  intro i _
  cases i with
  | rpc h => simp only [Function.comp]; split <;> rfl
  | http r => rfl

@[simp] theorem ids_markRequest (c : Cat) (d : Dir) (id : Bytes) : ids (markRequest c d id) = ids c := by
  unfold markRequest; split <;> simp

@[simp] theorem ids_markResponse (c : Cat) (d : Dir) (id : Bytes) : ids (markResponse c d id) = ids c := by
  unfold markResponse; split <;> simp

theorem setRequestBody_ids (c : Cat) (d : Dir) (id : Bytes) (f n : String) (c' : Cat)
    (h : setRequestBody c d id f n = .ok c') : ids c' = ids c := by
  unfold setRequestBody at h
  repeat' split at h
  all_goals cases h
  all_goals simp

theorem setResponseBody_ids (c : Cat) (d : Dir) (id : Bytes) (f n : String) (c' : Cat)
    (h : setResponseBody c d id f n = .ok c') : ids c' = ids c := by
  unfold setResponseBody at h
  repeat' split at h
  all_goals cases h
  all_goals simp

theorem addRequest_ids (s : BSt) (d : Dir) (anc : List Dir) (s' : BSt) (h : addRequest s d anc = .ok s') :
    ids s'.cat = ids s.cat := by
  unfold addRequest at h
  repeat' split at h
  all_goals cases h
  all_goals first | (simp; done) | (rename_i hb; simpa using setRequestBody_ids _ _ _ _ _ _ hb)

theorem addResponse_ids (s : BSt) (d : Dir) (anc : List Dir) (s' : BSt) (h : addResponse s d anc = .ok s') :
    ids s'.cat = ids s.cat := by
  unfold addResponse at h
  repeat' split at h
  all_goals cases h
  all_goals first | (simp; done) | (rename_i hb; simpa using setResponseBody_ids _ _ _ _ _ _ hb)

/-- last resort of `simp`: look at the list itself -/
@[simp low] theorem ids_eq (c : Cat) : ids c = c.inters.map Inter.id := rfl

/-- the interaction a directive declares -/
def newIds (d : Dir) (anc : List Dir) : List Bytes :=
  if isHTTPMethod d.kind then
    (match httpId (d :: anc) with
     | .ok (id, _) => [id]
     | .error _ => [])
  else if d.kind == .Method then
    (match rpcId (d :: anc) with
     | .ok (id, _) => [id]
     | .error _ => [])
  else []

theorem isHTTPMethod_iff (k : Kind) : isHTTPMethod k = (k == .Get || k == .Post || k == .Put || k == .Patch || k == .Delete) := by
  cases k <;> decide

set_option maxHeartbeats 3200000 in
theorem addDirective_ids (s : BSt) (d : Dir) (kids : List DT) (anc : List Dir) (pk before : List DT) (s' : BSt)
    (h : addDirective s d kids anc pk before = .ok s') :
    ids s'.cat = ids s.cat ++ newIds d anc := by
  simp only [addDirective] at h
  split at h
  · cases h
  · split at h
    all_goals (rename_i hk)
    all_goals (repeat' split at h)
    all_goals (try cases h)
    all_goals (try (simp [newIds, isHTTPMethod_iff, hk, Inter.id, *]; done))
    all_goals (try (rw [addRequest_ids _ _ _ _ h]; simp [newIds, isHTTPMethod_iff, hk]; done))
    all_goals (try (rw [addResponse_ids _ _ _ _ h]; simp [newIds, isHTTPMethod_iff, hk]; done))
    · have : newIds d anc = [] := by
        simp only [newIds, isHTTPMethod_iff]
        cases hkk : d.kind <;> simp_all
      simp [this]

theorem addDescriptionText_ids (s : BSt) (d : Dir) (anc : List Dir) (content : Bytes → Bytes) (s' : BSt)
    (h : addDescriptionText s d anc content = .ok s') : ids s'.cat = ids s.cat := by
  simp only [addDescriptionText] at h
  repeat' split at h
  all_goals cases h
  all_goals simp

mutual
  /-- the interactions declared by a tree, in document order -/
  def idsOfNode : DT → List Dir → List Bytes
    | .node d kids, anc => newIds d anc ++ idsOfList kids (d :: anc)
  def idsOfList : List DT → List Dir → List Bytes
    | [], _ => []
    | t :: rest, anc => idsOfNode t anc ++ idsOfList rest anc
end

mutual
  theorem addNode_ids (content : Bytes → Bytes) (t : DT) (anc : List Dir) (all before : List DT) (s s' : BSt)
      (h : addNode content t anc all before s = .ok s') : ids s'.cat = ids s.cat ++ idsOfNode t anc := by
    match t with
    | .node d kids =>
      simp only [addNode] at h
      cases h1 : addDirective s d kids anc all before with
      | error e => simp [h1] at h
      | ok s1 =>
        simp only [h1] at h
        have e1 := addDirective_ids _ _ _ _ _ _ _ h1
        by_cases hc : (d.kind == Kind.Description && !s.banned.contains d.kind) = true
        · simp only [hc, if_true] at h
          cases h2 : addDescriptionText s1 d anc content with
          | error e => simp [h2] at h
          | ok s2 =>
            simp only [h2] at h
            have e2 := addDescriptionText_ids _ _ _ _ _ h2
            have e3 := addList_ids content kids (d :: anc) kids [] s2 s' h
            rw [e3, e2, e1, idsOfNode, List.append_assoc]
        · simp only [hc, Bool.false_eq_true, if_false] at h
          have e3 := addList_ids content kids (d :: anc) kids [] s1 s' h
          rw [e3, e1, idsOfNode, List.append_assoc]
  theorem addList_ids (content : Bytes → Bytes) (ts : List DT) (anc : List Dir) (all before : List DT) (s s' : BSt)
      (h : addList content ts anc all before s = .ok s') : ids s'.cat = ids s.cat ++ idsOfList ts anc := by
    match ts with
    | [] => simp only [addList] at h; cases h; simp [idsOfList]
    | t :: rest =>
      simp only [addList] at h
      cases h1 : addNode content t anc all before s with
      | error e => simp [h1] at h
      | ok s1 =>
        simp only [h1] at h
        have e1 := addNode_ids content t anc all before s s1 h1
        have e2 := addList_ids content rest anc all (before ++ [t]) s1 s' h
        rw [e2, e1, idsOfList, List.append_assoc]
end

/-! ### uniqueness of interaction ids -/

theorem findInter_none (c : Cat) (id : Bytes) (h : (c.findInter id).isSome = false) : id ∉ ids c := by
  simp only [Cat.findInter, Option.isSome_eq_false_iff, Option.isNone_iff_eq_none, List.find?_eq_none] at h
  intro hm
  simp only [ids, List.mem_map] at hm
  obtain ⟨i, hi, rfl⟩ := hm
  have := h i hi
  simp at this

set_option maxHeartbeats 3200000 in
theorem addDirective_fresh (s : BSt) (d : Dir) (kids : List DT) (anc : List Dir) (pk before : List DT) (s' : BSt)
    (h : addDirective s d kids anc pk before = .ok s') : ∀ id ∈ newIds d anc, id ∉ ids s.cat := by
  simp only [addDirective] at h
  split at h
  · cases h
  · split at h
    all_goals (rename_i hk)
    all_goals (try (simp [newIds, isHTTPMethod_iff, hk]; done))
    all_goals (repeat' split at h)
    all_goals (try cases h)
    all_goals (try (
      intro id hid
      simp only [newIds, isHTTPMethod_iff, hk] at hid
      apply findInter_none
      simp_all; done))

theorem addDirective_nodup (s : BSt) (d : Dir) (kids : List DT) (anc : List Dir) (pk before : List DT) (s' : BSt)
    (hn : (ids s.cat).Nodup) (h : addDirective s d kids anc pk before = .ok s') : (ids s'.cat).Nodup := by
  rw [addDirective_ids _ _ _ _ _ _ _ h]
  have hf := addDirective_fresh _ _ _ _ _ _ _ h
  have hl : (newIds d anc).Nodup := by
    unfold newIds
    repeat' split
    all_goals simp
  exact List.nodup_append.mpr ⟨hn, hl, fun a ha b hb hab => hf b hb (hab ▸ ha)⟩

mutual
  theorem addNode_nodup (content : Bytes → Bytes) (t : DT) (anc : List Dir) (all before : List DT) (s s' : BSt)
      (hn : (ids s.cat).Nodup) (h : addNode content t anc all before s = .ok s') : (ids s'.cat).Nodup := by
    match t with
    | .node d kids =>
      simp only [addNode] at h
      cases h1 : addDirective s d kids anc all before with
      | error e => simp [h1] at h
      | ok s1 =>
        simp only [h1] at h
        have n1 := addDirective_nodup _ _ _ _ _ _ _ hn h1
        by_cases hc : (d.kind == Kind.Description && !s.banned.contains d.kind) = true
        · simp only [hc, if_true] at h
          cases h2 : addDescriptionText s1 d anc content with
          | error e => simp [h2] at h
          | ok s2 =>
            simp only [h2] at h
            have n2 : (ids s2.cat).Nodup := by rw [addDescriptionText_ids _ _ _ _ _ h2]; exact n1
            exact addList_nodup content kids (d :: anc) kids [] s2 s' n2 h
        · simp only [hc, Bool.false_eq_true, if_false] at h
          exact addList_nodup content kids (d :: anc) kids [] s1 s' n1 h
  theorem addList_nodup (content : Bytes → Bytes) (ts : List DT) (anc : List Dir) (all before : List DT) (s s' : BSt)
      (hn : (ids s.cat).Nodup) (h : addList content ts anc all before s = .ok s') : (ids s'.cat).Nodup := by
    match ts with
    | [] => simp only [addList] at h; cases h; exact hn
    | t :: rest =>
      simp only [addList] at h
      cases h1 : addNode content t anc all before s with
      | error e => simp [h1] at h
      | ok s1 =>
        simp only [h1] at h
        exact addList_nodup content rest anc all (before ++ [t]) s1 s' (addNode_nodup content t anc all before s s1 hn h1) h
end

/-! ### banned kinds -/

theorem addRequest_banned (s : BSt) (d : Dir) (anc : List Dir) (s' : BSt) (h : addRequest s d anc = .ok s') :
    s'.banned = s.banned := by
  unfold addRequest at h
  repeat' split at h
  all_goals cases h
  all_goals rfl

theorem addResponse_banned (s : BSt) (d : Dir) (anc : List Dir) (s' : BSt) (h : addResponse s d anc = .ok s') :
    s'.banned = s.banned := by
  unfold addResponse at h
  repeat' split at h
  all_goals cases h
  all_goals rfl

theorem addDescriptionText_banned (s : BSt) (d : Dir) (anc : List Dir) (content : Bytes → Bytes) (s' : BSt)
    (h : addDescriptionText s d anc content = .ok s') : s'.banned = s.banned := by
  simp only [addDescriptionText] at h
  repeat' split at h
  all_goals cases h
  all_goals rfl

set_option maxHeartbeats 3200000 in
theorem addDirective_banned (s : BSt) (d : Dir) (kids : List DT) (anc : List Dir) (pk before : List DT) (s' : BSt)
    (h : addDirective s d kids anc pk before = .ok s') : s'.banned = s.banned ∧ s.banned.contains d.kind = false := by
  simp only [addDirective] at h
  split at h
  · cases h
  · rename_i hb
    refine ⟨?_, by simpa using hb⟩
    split at h
    all_goals (repeat' split at h)
    all_goals (try cases h)
    all_goals (try rfl)
    all_goals first | exact addRequest_banned _ _ _ _ h | exact addResponse_banned _ _ _ _ h

/-- no directive of the forest has a banned kind -/
def notBanned (banned : List Kind) (d : Dir) : Bool := !banned.contains d.kind

mutual
  theorem addNode_banned (content : Bytes → Bytes) (t : DT) (anc : List Dir) (all before : List DT) (s s' : BSt)
      (h : addNode content t anc all before s = .ok s') : s'.banned = s.banned ∧ t.all (notBanned s.banned) = true := by
    match t with
    | .node d kids =>
      simp only [addNode] at h
      cases h1 : addDirective s d kids anc all before with
      | error e => simp [h1] at h
      | ok s1 =>
        simp only [h1] at h
        obtain ⟨b1, nb⟩ := addDirective_banned _ _ _ _ _ _ _ h1
        by_cases hc : (d.kind == Kind.Description && !s.banned.contains d.kind) = true
        · simp only [hc, if_true] at h
          cases h2 : addDescriptionText s1 d anc content with
          | error e => simp [h2] at h
          | ok s2 =>
            simp only [h2] at h
            have b2 := addDescriptionText_banned _ _ _ _ _ h2
            obtain ⟨b3, hk⟩ := addList_banned content kids (d :: anc) kids [] s2 s' h
            rw [b2, b1] at b3 hk
            exact ⟨b3, by simp only [Tree.all, notBanned, nb, hk]; rfl⟩
        · simp only [hc, Bool.false_eq_true, if_false] at h
          obtain ⟨b3, hk⟩ := addList_banned content kids (d :: anc) kids [] s1 s' h
          rw [b1] at b3 hk
          exact ⟨b3, by simp only [Tree.all, notBanned, nb, hk]; rfl⟩
  theorem addList_banned (content : Bytes → Bytes) (ts : List DT) (anc : List Dir) (all before : List DT) (s s' : BSt)
      (h : addList content ts anc all before s = .ok s') :
      s'.banned = s.banned ∧ Tree.allList (notBanned s.banned) ts = true := by
    match ts with
    | [] => simp only [addList] at h; cases h; exact ⟨rfl, rfl⟩
    | t :: rest =>
      simp only [addList] at h
      cases h1 : addNode content t anc all before s with
      | error e => simp [h1] at h
      | ok s1 =>
        simp only [h1] at h
        obtain ⟨b1, k1⟩ := addNode_banned content t anc all before s s1 h1
        obtain ⟨b2, k2⟩ := addList_banned content rest anc all (before ++ [t]) s1 s' h
        rw [b1] at b2 k2
        exact ⟨b2, by simp [Tree.allList, k1, k2]⟩
end

/-! ### the stages of a successful build -/

theorem build_stages (roots : List DT) (rootFile : Bytes) (banned : List Kind)
    (content : Bytes → Bytes) (b : Built) (h : build roots rootFile banned content = .ok b) :
    ∃ ms dirs fuel ps tags enums s, collectMacro roots [] [] = .ok (ms, dirs) ∧ pasteList ms fuel dirs {} = .ok ps ∧
      b.expanded = ps.ctx.forest ∧ collectTags b.expanded [] = .ok tags ∧
      addList content b.expanded [] b.expanded []
        { cat := { tags := tags, enums := enums }, banned := banned, raw := collectRawTypes b.expanded [] } = .ok s ∧
      b.cat = s.cat := by
  unfold build at h
  cases hcm : collectMacro roots [] [] with
  | error e => simp [hcm] at h
  | ok r =>
    obtain ⟨ms, dirs⟩ := r
    simp only [hcm] at h
    cases hrec : checkRecursion ms with
    | error e => simp [hrec] at h
    | ok u =>
      simp only [hrec] at h
      cases hp : pasteList ms ((ms.length + 2) * (sizeList roots + 2) * (sizeList roots + 2) + 16) dirs {} with
      | error e => simp [hp] at h
      | ok ps =>
        simp only [hp] at h
        repeat' split at h
        all_goals first | (cases h; done) | skip
        all_goals (cases h)
        all_goals exact ⟨ms, dirs, _, ps, _, _, _, rfl, hp, rfl, by assumption, by assumption, rfl⟩

end JsightVerif.Model.Build
