import JsightVerif.Proofs.TreeNest
import JsightVerif.Proofs.BuildClosure
/-
  The build model never takes one of its nil-dereference branches (`c.Info.Title` with no INFO,
  `d.Parent.Type()` at root level): the forest the catalog is built from went through `attach`, so it
  is nested as the regenerated context table says, and the table puts Title/Version only under INFO
  and keeps Headers/Body/Description/Title/Version away from the root level.
-/
namespace JsightVerif.Model.Build
open JsightVerif.Gen JsightVerif.Model

/-! ### what the context table has to guarantee (re-checked whenever directive/enumeration.go changes) -/

theorem methods_allowed_at_root : ∀ k, isHTTPMethod k = true → allowedRoot k = true := by
  intro k; cases k <;> decide

theorem title_version_only_in_info : ∀ p, (allowedIn p .Title = true ∨ allowedIn p .Version = true) → p = .Info ∨ p = .Macro := by
  intro p; cases p <;> decide

/-- a MACRO is never admitted below the root level -/
theorem macro_only_at_root : ∀ p, allowedIn p .Macro = false := by
  intro p; cases p <;> decide

theorem not_at_root : allowedRoot .Title = false ∧ allowedRoot .Version = false ∧ allowedRoot .Headers = false ∧
    allowedRoot .Body = false ∧ allowedRoot .Description = false := by decide

/-! ### PASTE expansion yields a well nested forest -/

theorem paste_keeps_wn (ms : List (Bytes × DT)) (n : Nat) :
    (∀ ts s s', s.ctx.wnC Dir.kind = true → pasteList ms n ts s = .ok s' → s'.ctx.wnC Dir.kind = true) ∧
    (∀ t s s', s.ctx.wnC Dir.kind = true → pasteNode ms n t s = .ok s' → s'.ctx.wnC Dir.kind = true) := by
  induction n with
  | zero =>
    constructor
    · intro ts s s' hs h; simp only [pasteList] at h; cases h; exact hs
    · intro t s s' hs h; simp only [pasteNode] at h; cases h; exact hs
  | succ n ih =>
    constructor
    · intro ts s s' hs h
      cases ts with
      | nil => simp only [pasteList] at h; cases h; exact hs
      | cons t rest =>
        simp only [pasteList] at h
        cases ht : pasteNode ms n t s with
        | error e => simp [ht] at h
        | ok s1 =>
          simp only [ht] at h
          exact ih.1 rest s1 s' (ih.2 t s s1 hs ht) h
    · intro t s s' hs h
      obtain ⟨d, kids⟩ := t
      simp only [pasteNode] at h
      by_cases hk : (d.kind == Kind.Paste) = true
      · simp only [hk, if_true] at h
        split at h
        · cases h
        · rename_i s'' hin
          cases h
          split at hin
          · cases hin
          · split at hin
            · cases hin
            · split at hin
              · cases hin
              · split at hin
                · cases hin
                · rename_i enums _
                  exact ih.1 _ { ctx := s.ctx, enums := enums } _ hs hin
      · simp only [hk, Bool.false_eq_true, if_false] at h
        cases ha : attach s.ctx d d.head with
        | error e => simp [ha] at h
        | ok ctx' =>
          simp only [ha] at h
          have hc' : ctx'.wnC Dir.kind = true := attach_wn Dir.kind methods_allowed_at_root s.ctx d d.head rfl ctx' hs ha
          cases hp : pasteList ms n kids { s with ctx := ctx' } with
          | error e => simp [hp] at h
          | ok s1 =>
            simp only [hp] at h
            have h1 := ih.1 kids { s with ctx := ctx' } s1 hc' hp
            split at h
            · cases h; exact closeTo_wn Dir.kind _ _ _ h1
            · cases h; exact h1

/-! ### no MACRO directive reaches the catalog construction -/

def notMacro (d : Dir) : Bool := d.kind != .Macro

theorem lookup_mem {β} (l : List (Bytes × β)) (k : Bytes) (v : β) (h : l.lookup k = some v) : (k, v) ∈ l := by
  induction l with
  | nil => simp [List.lookup] at h
  | cons e rest ih =>
    obtain ⟨k', v'⟩ := e
    simp only [List.lookup] at h
    split at h
    · rename_i heq
      simp only [Option.some.injEq] at h
      subst h
      have : k = k' := by simpa using heq
      subst this
      exact List.mem_cons_self
    · exact List.mem_cons_of_mem _ (ih h)

theorem paste_keeps_notMacro (ms : List (Bytes × DT)) (hms : ∀ m ∈ ms, Tree.allList notMacro m.2.kids = true) (n : Nat) :
    (∀ ts s s', Tree.allList notMacro ts = true → s.ctx.allC notMacro = true → pasteList ms n ts s = .ok s' →
        s'.ctx.allC notMacro = true) ∧
    (∀ t s s', t.all notMacro = true → s.ctx.allC notMacro = true → pasteNode ms n t s = .ok s' →
        s'.ctx.allC notMacro = true) := by
  induction n with
  | zero =>
    constructor
    · intro ts s s' _ hs h; simp only [pasteList] at h; cases h; exact hs
    · intro t s s' _ hs h; simp only [pasteNode] at h; cases h; exact hs
  | succ n ih =>
    constructor
    · intro ts s s' hts hs h
      cases ts with
      | nil => simp only [pasteList] at h; cases h; exact hs
      | cons t rest =>
        simp only [Tree.allList, Bool.and_eq_true] at hts
        simp only [pasteList] at h
        cases ht : pasteNode ms n t s with
        | error e => simp [ht] at h
        | ok s1 =>
          simp only [ht] at h
          exact ih.1 rest s1 s' hts.2 (ih.2 t s s1 hts.1 hs ht) h
    · intro t s s' htree hs h
      obtain ⟨d, kids⟩ := t
      simp only [Tree.all, Bool.and_eq_true] at htree
      simp only [pasteNode] at h
      by_cases hk : (d.kind == Kind.Paste) = true
      · simp only [hk, if_true] at h
        split at h
        · cases h
        · rename_i s'' hin
          cases h
          split at hin
          · cases hin
          · split at hin
            · cases hin
            · split at hin
              · cases hin
              · rename_i m hlk
                split at hin
                · cases hin
                · rename_i enums _
                  exact ih.1 _ { ctx := s.ctx, enums := enums } _ (hms _ (lookup_mem _ _ _ hlk)) hs hin
      · simp only [hk, Bool.false_eq_true, if_false] at h
        cases ha : attach s.ctx d d.head with
        | error e => simp [ha] at h
        | ok ctx' =>
          simp only [ha] at h
          have hc' : ctx'.allC notMacro = true := attach_all notMacro s.ctx d d.head ctx' htree.1 hs ha
          cases hp : pasteList ms n kids { s with ctx := ctx' } with
          | error e => simp [hp] at h
          | ok s1 =>
            simp only [hp] at h
            have h1 := ih.1 kids { s with ctx := ctx' } s1 htree.2 hc' hp
            split at h
            · cases h; exact closeTo_all notMacro _ _ _ h1
            · cases h; exact h1

/-- MACRO occurs at root level only (what the scanning stage guarantees: no parent admits it) -/
def macrosAtRoot (roots : List DT) : Prop := ∀ t ∈ roots, Tree.allList notMacro t.kids = true

theorem collectMacro_notMacro (roots : List DT) (ms0 : List (Bytes × DT)) (acc : List DT) (ms : List (Bytes × DT)) (dirs : List DT)
    (hr : macrosAtRoot roots) (hm0 : ∀ m ∈ ms0, Tree.allList notMacro m.2.kids = true)
    (ha : Tree.allList notMacro acc = true) (h : collectMacro roots ms0 acc = .ok (ms, dirs)) :
    (∀ m ∈ ms, Tree.allList notMacro m.2.kids = true) ∧ Tree.allList notMacro dirs = true := by
  induction roots generalizing ms0 acc with
  | nil =>
    simp only [collectMacro] at h
    cases h
    exact ⟨hm0, by rw [Tree.allList_reverse]; exact ha⟩
  | cons t rest ih =>
    have hrest : macrosAtRoot rest := fun x hx => hr x (List.mem_cons_of_mem _ hx)
    have htk := hr t List.mem_cons_self
    simp only [collectMacro] at h
    split at h
    · repeat' split at h
      all_goals first | (cases h; done) | skip
      refine ih _ _ hrest ?_ ha h
      intro m hm
      rcases List.mem_append.mp hm with h' | h'
      · exact hm0 m h'
      · simp only [List.mem_singleton] at h'; subst h'; exact htk
    · rename_i hk
      refine ih _ _ hrest hm0 ?_ h
      obtain ⟨d, kids⟩ := t
      simp only [Tree.allList, Tree.all, Bool.and_eq_true]
      exact ⟨⟨by simpa [notMacro, Tree.dir] using hk, htk⟩, ha⟩

/-! ### errors of the catalog construction are error values, not crashes -/

theorem resolveTags_noPanic (tags : List TagE) (td : Dir) (e : PErr) (h : resolveTags tags td = .error e) : e.panic = false := by
  unfold resolveTags at h
  split at h
  · cases h; rfl
  · split at h
    · cases h; rfl
    · have key : ∀ (l used : List Bytes), resolveTags.go tags td l used = .error e → e.panic = false := by
        intro l
        induction l with
        | nil => intro used hgo; simp [resolveTags.go] at hgo
        | cons x rest ih =>
          intro used hgo
          simp only [resolveTags.go] at hgo
          repeat' split at hgo
          all_goals first | (cases hgo; rfl) | exact ih _ hgo
      exact key _ _ h

theorem tagNames_noPanic (c : Cat) (kids : List DT) (anc : List Dir) (pk : List DT) (id path : Bytes) (b : Bool) (e : PErr)
    (h : tagNames c kids anc pk id path b = .error e) : e.panic = false := by
  unfold tagNames at h
  repeat' split at h
  all_goals first
    | (cases h; done)
    | (unfold tagsFromDir at h; split at h
       · rename_i hr; cases h; exact resolveTags_noPanic _ _ _ hr
       · cases h)

theorem bodySpec_noPanic (d : Dir) (e : PErr) (h : bodySpec d = .error e) : e.panic = false := by
  unfold bodySpec at h; split at h <;> cases h; rfl

theorem setRequestBody_noPanic (c : Cat) (d : Dir) (id : Bytes) (f n : String) (e : PErr)
    (h : setRequestBody c d id f n = .error e) : e.panic = false := by
  unfold setRequestBody at h
  repeat' split at h
  all_goals cases h
  all_goals rfl

theorem setResponseBody_noPanic (c : Cat) (d : Dir) (id : Bytes) (f n : String) (e : PErr)
    (h : setResponseBody c d id f n = .error e) : e.panic = false := by
  unfold setResponseBody at h
  repeat' split at h
  all_goals cases h
  all_goals rfl

theorem addRequest_noPanic (s : BSt) (d : Dir) (anc : List Dir) (e : PErr) (h : addRequest s d anc = .error e) :
    e.panic = false := by
  unfold addRequest at h
  repeat' split at h
  all_goals (first | (cases h; done) | (cases h; rfl) | skip)
  all_goals (rename_i hb; cases h; first | exact bodySpec_noPanic _ _ hb | exact setRequestBody_noPanic _ _ _ _ _ _ hb)

theorem addResponse_noPanic (s : BSt) (d : Dir) (anc : List Dir) (e : PErr) (h : addResponse s d anc = .error e) :
    e.panic = false := by
  unfold addResponse at h
  repeat' split at h
  all_goals (first | (cases h; done) | (cases h; rfl) | skip)
  all_goals (rename_i hb; cases h; first | exact bodySpec_noPanic _ _ hb | exact setResponseBody_noPanic _ _ _ _ _ _ hb)

theorem checkUrlKids_noPanic (kids : List DT) (e : PErr) (h : checkUrlKids kids = .error e) : e.panic = false := by
  unfold checkUrlKids at h
  repeat' split at h
  all_goals cases h
  all_goals rfl

set_option maxHeartbeats 3200000 in
theorem addDirective_noPanic (s : BSt) (d : Dir) (kids : List DT) (anc : List Dir) (pk before : List DT) (e : PErr)
    (h : addDirective s d kids anc pk before = .error e)
    (hinfo : (d.kind = .Title ∨ d.kind = .Version) → s.cat.info.isSome = true)
    (hanc : (d.kind = .Headers ∨ d.kind = .Body) → anc ≠ []) : e.panic = false := by
  simp only [addDirective] at h
  split at h
  · cases h; rfl
  · split at h
    all_goals (rename_i hk)
    all_goals (repeat' split at h)
    all_goals (first | (cases h; done) | (cases h; rfl) | skip)
    all_goals (try (exact addRequest_noPanic _ _ _ _ h))
    all_goals (try (exact addResponse_noPanic _ _ _ _ h))
    all_goals (try (cases h))
    all_goals (try (
      rename_i hsub
      first
        | exact checkUrlKids_noPanic _ _ hsub
        | exact tagNames_noPanic _ _ _ _ _ _ _ _ hsub
        | (have := hinfo (Or.inl hk); simp [hsub] at this)
        | (have := hinfo (Or.inr hk); simp [hsub] at this)
        | (exact absurd rfl (hanc (Or.inl hk)))
        | (exact absurd rfl (hanc (Or.inr hk)))))

theorem addDescriptionText_noPanic (s : BSt) (d : Dir) (anc : List Dir) (content : Bytes → Bytes) (e : PErr)
    (h : addDescriptionText s d anc content = .error e) (hanc : anc ≠ [])
    (hinfo : ∀ a rest, anc = a :: rest → a.kind = .Info → s.cat.info.isSome = true) : e.panic = false := by
  simp only [addDescriptionText] at h
  repeat' split at h
  all_goals (first | (cases h; done) | (cases h; rfl) | skip)
  all_goals (try (exact absurd rfl hanc))
  all_goals first
    | (cases h; unfold bodyErr; repeat' split
       all_goals rfl)
    | (rename_i hk _ hnone
       have := hinfo _ _ rfl (by simpa using hk)
       simp [hnone] at this)

/-! ### INFO, once seen, stays -/

theorem addRequest_info (s : BSt) (d : Dir) (anc : List Dir) (s' : BSt) (h : addRequest s d anc = .ok s') :
    s'.cat.info = s.cat.info := by
  unfold addRequest at h
  repeat' split at h
  all_goals cases h
  all_goals first
    | (unfold markRequest; split <;> rfl)
    | (rename_i hb; unfold setRequestBody at hb; repeat' split at hb
       all_goals cases hb
       all_goals (unfold markRequest; split <;> rfl))

theorem addResponse_info (s : BSt) (d : Dir) (anc : List Dir) (s' : BSt) (h : addResponse s d anc = .ok s') :
    s'.cat.info = s.cat.info := by
  unfold addResponse at h
  repeat' split at h
  all_goals cases h
  all_goals first
    | (unfold markResponse; split <;> rfl)
    | (rename_i hb; unfold setResponseBody at hb; repeat' split at hb
       all_goals cases hb
       all_goals (unfold markResponse; split <;> rfl))

set_option maxHeartbeats 3200000 in
theorem addDirective_info (s : BSt) (d : Dir) (kids : List DT) (anc : List Dir) (pk before : List DT) (s' : BSt)
    (h : addDirective s d kids anc pk before = .ok s') :
    (s.cat.info.isSome = true → s'.cat.info.isSome = true) ∧ (d.kind = .Info → s'.cat.info.isSome = true) := by
  simp only [addDirective] at h
  split at h
  · cases h
  · split at h
    all_goals (rename_i hk)
    all_goals (repeat' split at h)
    all_goals (try cases h)
    all_goals (try (simp_all [Cat.updHttp, Cat.updRpc]; done))
    all_goals (try (rw [addRequest_info _ _ _ _ h]; simp [hk]; done))
    all_goals (try (rw [addResponse_info _ _ _ _ h]; simp [hk]; done))

theorem addDescriptionText_info (s : BSt) (d : Dir) (anc : List Dir) (content : Bytes → Bytes) (s' : BSt)
    (h : addDescriptionText s d anc content = .ok s') : s.cat.info.isSome = true → s'.cat.info.isSome = true := by
  simp only [addDescriptionText] at h
  repeat' split at h
  all_goals cases h
  all_goals (try (simp_all [Cat.updHttp, Cat.updRpc]; done))

/-! ### the depth-first pass over a well nested, macro-free forest never crashes -/

def parentKind (anc : List Dir) : Option Kind := anc.head?.map (·.kind)

/-- what the pass knows about the enclosing directive when it reaches a node -/
structure AncOk (anc : List Dir) (s : BSt) : Prop where
  notMacro : ∀ a rest, anc = a :: rest → a.kind ≠ .Macro
  info : ∀ a rest, anc = a :: rest → a.kind = .Info → s.cat.info.isSome = true

def Outcome (s : BSt) : Except PErr BSt → Prop
  | .ok s' => s.cat.info.isSome = true → s'.cat.info.isSome = true
  | .error e => e.panic = false

mutual
  theorem addNode_noPanic (content : Bytes → Bytes) (t : DT) (anc : List Dir) (all before : List DT) (s : BSt)
      (hw : t.wn Dir.kind (parentKind anc) = true) (hm : t.all notMacro = true) (ha : AncOk anc s) :
      Outcome s (addNode content t anc all before s) := by
    match t with
    | .node d kids =>
      simp only [Tree.wn, Bool.and_eq_true] at hw
      simp only [Tree.all, Bool.and_eq_true] at hm
      have hdm : d.kind ≠ .Macro := by simpa [notMacro] using hm.1
      -- the parent, as far as the handlers of this directive need it
      have hTV : (d.kind = .Title ∨ d.kind = .Version) → s.cat.info.isSome = true := by
        intro htv
        cases hanc : anc with
        | nil =>
          have := hw.1; simp only [hanc, parentKind, List.head?, Option.map, admits] at this
          rcases htv with h | h <;> rw [h] at this <;> simp [not_at_root] at this
        | cons a rest =>
          have := hw.1; simp only [hanc, parentKind, List.head?, Option.map, admits] at this
          have hp : a.kind = .Info ∨ a.kind = .Macro := by
            apply title_version_only_in_info
            rcases htv with h | h <;> rw [h] at this
            · exact Or.inl this
            · exact Or.inr this
          rcases hp with hp | hp
          · exact ha.info a rest hanc hp
          · exact absurd hp (ha.notMacro a rest hanc)
      have hHB : (d.kind = .Headers ∨ d.kind = .Body ∨ d.kind = .Description) → anc ≠ [] := by
        intro hk hnil
        have := hw.1; simp only [hnil, parentKind, List.head?, Option.map, admits] at this
        rcases hk with h | h | h <;> rw [h] at this <;> simp [not_at_root] at this
      simp only [addNode]
      cases h1 : addDirective s d kids anc all before with
      | error e =>
        exact addDirective_noPanic _ _ _ _ _ _ _ h1 hTV (fun hk => hHB (hk.elim Or.inl (fun h => Or.inr (Or.inl h))))
      | ok s1 =>
        obtain ⟨mono1, set1⟩ := addDirective_info _ _ _ _ _ _ _ h1
        have kidsOk : ∀ s2 : BSt, (s1.cat.info.isSome = true → s2.cat.info.isSome = true) → AncOk (d :: anc) s2 := by
          intro s2 mono2
          exact ⟨fun a rest h => by cases h; exact hdm, fun a rest h hk => by cases h; exact mono2 (set1 hk)⟩
        dsimp only
        by_cases hc : (d.kind == Kind.Description && !s.banned.contains d.kind) = true
        · simp only [hc, if_true]
          cases h2 : addDescriptionText s1 d anc content with
          | error e =>
            have hk : d.kind = .Description := by simp only [Bool.and_eq_true, beq_iff_eq] at hc; exact hc.1
            exact addDescriptionText_noPanic _ _ _ _ _ h2 (hHB (Or.inr (Or.inr hk)))
              (fun a rest h hi => mono1 (ha.info a rest h hi))
          | ok s2 =>
            have mono2 := addDescriptionText_info _ _ _ _ _ h2
            have := addList_noPanic content kids (d :: anc) kids [] s2
              (by simpa [parentKind] using hw.2) hm.2 (kidsOk s2 mono2)
            dsimp only
            revert this
            cases addList content kids (d :: anc) kids [] s2 with
            | error e => exact id
            | ok s3 => intro h3 hs; exact h3 (mono2 (mono1 hs))
        · simp only [hc, Bool.false_eq_true, if_false]
          have := addList_noPanic content kids (d :: anc) kids [] s1
            (by simpa [parentKind] using hw.2) hm.2 (kidsOk s1 id)
          revert this
          cases addList content kids (d :: anc) kids [] s1 with
          | error e => exact id
          | ok s3 => intro h3 hs; exact h3 (mono1 hs)
  theorem addList_noPanic (content : Bytes → Bytes) (ts : List DT) (anc : List Dir) (all before : List DT) (s : BSt)
      (hw : Tree.wnList Dir.kind (parentKind anc) ts = true) (hm : Tree.allList notMacro ts = true) (ha : AncOk anc s) :
      Outcome s (addList content ts anc all before s) := by
    match ts with
    | [] => simp only [addList, Outcome]; exact id
    | t :: rest =>
      simp only [Tree.wnList, Bool.and_eq_true] at hw
      simp only [Tree.allList, Bool.and_eq_true] at hm
      simp only [addList]
      have h1 := addNode_noPanic content t anc all before s hw.1 hm.1 ha
      revert h1
      cases addNode content t anc all before s with
      | error e => exact id
      | ok s1 =>
        intro mono1
        have := addList_noPanic content rest anc all (before ++ [t]) s1 hw.2 hm.2
          ⟨ha.notMacro, fun a r h hi => mono1 (ha.info a r h hi)⟩
        dsimp only
        revert this
        cases addList content rest anc all (before ++ [t]) s1 with
        | error e => exact id
        | ok s2 => intro h2 hs; exact h2 (mono1 hs)
end

/-! ### the other stages only ever fail with error values -/

theorem collectMacro_noPanic (roots : List DT) (ms : List (Bytes × DT)) (acc : List DT) (e : PErr)
    (h : collectMacro roots ms acc = .error e) : e.panic = false := by
  induction roots generalizing ms acc with
  | nil => simp [collectMacro] at h
  | cons t rest ih =>
    simp only [collectMacro] at h
    repeat' split at h
    all_goals first | (cases h; rfl) | exact ih _ _ h

mutual
  theorem findPaste_noPanic (ms : List (Bytes × DT)) (name : Bytes) (n : Nat) (t : DT) (v : List Bytes) (e : PErr)
      (h : findPaste ms name n t v = .error e) : e.panic = false := by
    match n, t with
    | 0, _ => simp [findPaste] at h
    | n + 1, .node d kids =>
      simp only [findPaste] at h
      repeat' split at h
      all_goals first
        | (cases h; rfl)
        | (cases h; done)
        | exact findPasteList_noPanic ms name n _ _ e h
  theorem findPasteList_noPanic (ms : List (Bytes × DT)) (name : Bytes) (n : Nat) (ts : List DT) (v : List Bytes) (e : PErr)
      (h : findPasteList ms name n ts v = .error e) : e.panic = false := by
    match n, ts with
    | 0, _ => simp [findPasteList] at h
    | _ + 1, [] => simp [findPasteList] at h
    | n + 1, t :: rest =>
      simp only [findPasteList] at h
      split at h
      · rename_i h1; cases h; exact findPaste_noPanic ms name n t v _ h1
      · exact findPasteList_noPanic ms name n rest _ e h
end

theorem checkRecursion_noPanic (ms : List (Bytes × DT)) (e : PErr) (h : checkRecursion ms = .error e) : e.panic = false := by
  unfold checkRecursion at h
  have key : ∀ (fuel : Nat) (l : List Bytes), checkRecursion.go ms fuel l = .error e → e.panic = false := by
    intro fuel l
    induction l with
    | nil => intro hgo; simp [checkRecursion.go] at hgo
    | cons x rest ih =>
      intro hgo
      simp only [checkRecursion.go] at hgo
      repeat' split at hgo
      all_goals first
        | exact ih hgo
        | (rename_i h1; cases hgo; exact findPaste_noPanic _ _ _ _ _ _ h1)
  exact key _ _ h

theorem collectRules_noPanic (ts : List DT) (enums : List (Bytes × Bytes)) (e : PErr)
    (h : collectRules ts enums = .error e) : e.panic = false := by
  induction ts generalizing enums with
  | nil => simp [collectRules] at h
  | cons t rest ih =>
    simp only [collectRules] at h
    repeat' split at h
    all_goals first | (cases h; rfl) | exact ih _ h

theorem paste_noPanic (ms : List (Bytes × DT)) (n : Nat) :
    (∀ ts s e, pasteList ms n ts s = .error e → e.panic = false) ∧
    (∀ t s e, pasteNode ms n t s = .error e → e.panic = false) := by
  induction n with
  | zero =>
    constructor
    · intro ts s e h; simp [pasteList] at h
    · intro t s e h; simp [pasteNode] at h
  | succ n ih =>
    constructor
    · intro ts s e h
      cases ts with
      | nil => simp [pasteList] at h
      | cons t rest =>
        simp only [pasteList] at h
        split at h
        · rename_i h1; cases h; exact ih.2 _ _ _ h1
        · exact ih.1 _ _ _ h
    · intro t s e h
      obtain ⟨d, kids⟩ := t
      simp only [pasteNode] at h
      repeat' split at h
      all_goals first
        | (cases h; rfl)
        | (cases h; done)
        | exact ih.1 _ _ _ h
        | (rename_i h1; cases h; exact ih.1 _ _ _ h1)

theorem collectTags_noPanic (ts : List DT) (acc : List TagE) (e : PErr) (h : collectTags ts acc = .error e) : e.panic = false := by
  induction ts generalizing acc with
  | nil => simp [collectTags] at h
  | cons t rest ih =>
    simp only [collectTags] at h
    repeat' split at h
    all_goals first | (cases h; rfl) | exact ih _ h

theorem checkRawTypes_noPanic (l : List (Bytes × Dir)) (e : PErr) (h : checkRawTypes l = .error e) : e.panic = false := by
  induction l with
  | nil => simp [checkRawTypes] at h
  | cons x rest ih =>
    obtain ⟨n, d⟩ := x
    simp only [checkRawTypes] at h
    split at h
    · cases h; rfl
    · exact ih h

mutual
  theorem collectPaths_noPanic (ts : List DT) (anc : List Dir) (last : Option (Nat × Int)) (e : PErr)
      (h : collectPaths ts anc last = .error e) : e.panic = false := by
    match ts with
    | [] => simp [collectPaths] at h
    | t :: rest =>
      simp only [collectPaths] at h
      split at h
      · rename_i h1; cases h; exact collectPathNode_noPanic t anc last _ h1
      · exact collectPaths_noPanic rest anc _ e h
  theorem collectPathNode_noPanic (t : DT) (anc : List Dir) (last : Option (Nat × Int)) (e : PErr)
      (h : collectPathNode t anc last = .error e) : e.panic = false := by
    match t with
    | .node d kids =>
      simp only [collectPathNode] at h
      repeat' split at h
      all_goals first
        | (cases h; rfl)
        | (cases h; done)
        | exact collectPaths_noPanic kids (d :: anc) _ e h
        | (rename_i hh; cases h; repeat' split at hh
           all_goals first | (cases hh; rfl) | (cases hh; done))
end

theorem addMissed_noPanic (ts : List DT) (e : PErr) (h : addMissed ts = .error e) : e.panic = false := by
  induction ts with
  | nil => simp [addMissed] at h
  | cons t rest ih =>
    simp only [addMissed] at h
    repeat' split at h
    all_goals first | (cases h; rfl) | exact ih h

theorem validate_noPanic (c : Cat) (e : PErr) (h : validate c = .error e) : e.panic = false := by
  unfold validate at h
  repeat' split at h
  all_goals first | (cases h; rfl) | (cases h; done)

theorem validateRequests_noPanic (l : List Inter) (e : PErr) (h : validateRequests l = .error e) : e.panic = false := by
  induction l with
  | nil => simp [validateRequests] at h
  | cons x rest ih =>
    cases x with
    | http hh =>
      simp only [validateRequests] at h
      repeat' split at h
      all_goals first | (cases h; rfl) | exact ih h
    | rpc r => simp only [validateRequests] at h; exact ih h

theorem validateResponses_noPanic (l : List Inter) (e : PErr) (h : validateResponses l = .error e) : e.panic = false := by
  induction l with
  | nil => simp [validateResponses] at h
  | cons x rest ih =>
    cases x with
    | http hh =>
      simp only [validateResponses] at h
      repeat' split at h
      all_goals first | (cases h; rfl) | exact ih h
    | rpc r => simp only [validateResponses] at h; exact ih h

theorem ancOk_nil (s : BSt) : AncOk [] s :=
  ⟨fun _ _ hh => (by cases hh), fun _ _ hh _ => (by cases hh)⟩

theorem addList_error_noPanic (content : Bytes → Bytes) (ts : List DT) (s : BSt) (e : PErr)
    (hw : Tree.wnList Dir.kind none ts = true) (hm : Tree.allList notMacro ts = true)
    (h : addList content ts [] ts [] s = .error e) : e.panic = false := by
  have := addList_noPanic content ts [] ts [] s (by simpa [parentKind] using hw) hm (ancOk_nil s)
  rw [h] at this; exact this

/-! ### the whole build -/

/-- **no nil dereference in the build stage**: if MACRO occurs at root level only, every failure of
    `build` is an error value (`panic = false`), never one of the model's nil-dereference branches. -/
theorem build_noPanic (roots : List DT) (rootFile : Bytes) (banned : List Kind) (content : Bytes → Bytes) (e : PErr)
    (hroots : macrosAtRoot roots) (h : build roots rootFile banned content = .error e) : e.panic = false := by
  unfold build at h
  cases hcm : collectMacro roots [] [] with
  | error e1 => simp only [hcm] at h; cases h; exact collectMacro_noPanic _ _ _ _ hcm
  | ok r =>
    obtain ⟨ms, dirs⟩ := r
    simp only [hcm] at h
    obtain ⟨hms, hdirs⟩ := collectMacro_notMacro roots [] [] ms dirs hroots (by intro m hm; cases hm) rfl hcm
    cases hrec : checkRecursion ms with
    | error e1 => simp only [hrec] at h; cases h; exact checkRecursion_noPanic _ _ hrec
    | ok u =>
      simp only [hrec] at h
      cases hp : pasteList ms ((ms.length + 2) * (sizeList roots + 2) * (sizeList roots + 2) + 16) dirs {} with
      | error e1 => simp only [hp] at h; cases h; exact (paste_noPanic ms _).1 _ _ _ hp
      | ok ps =>
        simp only [hp] at h
        have hwn : Tree.wnList Dir.kind none ps.ctx.forest = true :=
          forest_wn Dir.kind ps.ctx ((paste_keeps_wn ms _).1 dirs {} ps rfl hp)
        have hnm : Tree.allList notMacro ps.ctx.forest = true :=
          forest_all notMacro ps.ctx ((paste_keeps_notMacro ms hms _).1 dirs {} ps hdirs rfl hp)
        repeat' split at h
        all_goals first
          | (cases h; rfl)
          | (cases h; done)
          | (rename_i hs; cases h; first
              | exact collectRules_noPanic _ _ _ hs
              | exact collectTags_noPanic _ _ _ hs
              | exact checkRawTypes_noPanic _ _ hs
              | exact collectPaths_noPanic _ _ _ _ hs
              | exact addMissed_noPanic _ _ hs
              | exact validate_noPanic _ _ hs
              | exact validateRequests_noPanic _ _ hs
              | exact validateResponses_noPanic _ _ hs
              | exact addList_error_noPanic _ _ _ _ hwn hnm hs)

end JsightVerif.Model.Build
