import JsightVerif.Proofs.BuildRegs
/-
  Reference closure of the build model's catalog: every tag an interaction names exists and lists the
  interaction (`Closed`), and every interaction a tag lists exists and names the tag (`ClosedBack`);
  both are invariants of every step of the catalog construction.
-/
namespace JsightVerif.Model.Build
open JsightVerif.Gen JsightVerif.Model

/-! ### closure: every tag an interaction names exists and lists the interaction -/

def Inter.tags : Inter → List Bytes
  | .http h => h.tags
  | .rpc r => r.tags

def TagE.members (t : TagE) : List Bytes := t.http ++ t.rpc

/-- `ts'` has every tag of `ts`, with at least its members -/
def TagsGrow (ts ts' : List TagE) : Prop :=
  ∀ te ∈ ts, ∃ te' ∈ ts', te'.name = te.name ∧ ∀ x ∈ te.members, x ∈ te'.members

theorem TagsGrow.refl (ts : List TagE) : TagsGrow ts ts := fun te h => ⟨te, h, rfl, fun _ hx => hx⟩

theorem TagsGrow.trans {a b c : List TagE} (h1 : TagsGrow a b) (h2 : TagsGrow b c) : TagsGrow a c := by
  intro te hte
  obtain ⟨t1, ht1, hn1, hm1⟩ := h1 te hte
  obtain ⟨t2, ht2, hn2, hm2⟩ := h2 t1 ht1
  exact ⟨t2, ht2, hn2.trans hn1, fun x hx => hm2 x (hm1 x hx)⟩

theorem appendToTag_grow (ts : List TagE) (n id : Bytes) (b : Bool) : TagsGrow ts (appendToTag ts n id b) := by
  intro te hte
  refine ⟨if te.name == n then (if b then { te with http := te.http ++ [id] } else { te with rpc := te.rpc ++ [id] }) else te,
    List.mem_map.mpr ⟨te, hte, rfl⟩, ?_, ?_⟩
  · split
    · split <;> rfl
    · rfl
  · intro x hx
    split
    · split <;> simp only [TagE.members, List.mem_append] at hx ⊢ <;> rcases hx with h | h <;> simp [h]
    · exact hx

theorem appendToTag_has (ts : List TagE) (n id : Bytes) (b : Bool) (h : ∃ te ∈ ts, te.name = n) :
    ∃ te' ∈ appendToTag ts n id b, te'.name = n ∧ id ∈ te'.members := by
  obtain ⟨te, hte, hn⟩ := h
  refine ⟨if te.name == n then (if b then { te with http := te.http ++ [id] } else { te with rpc := te.rpc ++ [id] }) else te,
    List.mem_map.mpr ⟨te, hte, rfl⟩, ?_, ?_⟩
  · simp only [hn, beq_self_eq_true, if_true]; split <;> rfl
  · simp only [hn, beq_self_eq_true, if_true]; split <;> simp [TagE.members]

theorem foldl_append_grow (names : List Bytes) (ts : List TagE) (id : Bytes) (b : Bool) :
    TagsGrow ts (names.foldl (fun acc n => appendToTag acc n id b) ts) := by
  induction names generalizing ts with
  | nil => exact TagsGrow.refl ts
  | cons n rest ih => exact (appendToTag_grow ts n id b).trans (ih _)

theorem foldl_append_has (names : List Bytes) (ts : List TagE) (id : Bytes) (b : Bool)
    (h : ∀ n ∈ names, ∃ te ∈ ts, te.name = n) :
    ∀ n ∈ names, ∃ te ∈ names.foldl (fun acc n => appendToTag acc n id b) ts, te.name = n ∧ id ∈ te.members := by
  induction names generalizing ts with
  | nil => intro n hn; cases hn
  | cons m rest ih =>
    intro n hn
    simp only [List.foldl_cons]
    have hrest : ∀ n ∈ rest, ∃ te ∈ appendToTag ts m id b, te.name = n := by
      intro n' hn'
      obtain ⟨te, hte, hname⟩ := h n' (List.mem_cons_of_mem _ hn')
      obtain ⟨te', hte', hn'', _⟩ := appendToTag_grow ts m id b te hte
      exact ⟨te', hte', hn''.trans hname⟩
    rcases List.mem_cons.mp hn with rfl | hn'
    · obtain ⟨te', hte', hname, hmem⟩ := appendToTag_has ts n id b (h n (List.mem_cons_self))
      obtain ⟨te'', hte'', hn'', hm''⟩ := foldl_append_grow rest _ id b te' hte'
      exact ⟨te'', hte'', hn''.trans hname, hm'' id hmem⟩
    · exact ih _ hrest n hn'

/-- every tag an interaction names exists and lists the interaction -/
def Closed (c : Cat) : Prop :=
  ∀ i ∈ c.inters, ∀ t ∈ i.tags, ∃ te ∈ c.tags, te.name = t ∧ i.id ∈ te.members

/-- `l'` has no interaction that `l` does not have (by id and tag list) -/
def SameKeys (l l' : List Inter) : Prop := ∀ i' ∈ l', ∃ i ∈ l, i.id = i'.id ∧ i.tags = i'.tags

theorem SameKeys.refl (l : List Inter) : SameKeys l l := fun i h => ⟨i, h, rfl, rfl⟩

theorem updHttp_sameKeys (c : Cat) (id : Bytes) (f : HttpI → HttpI) : SameKeys c.inters (c.updHttp id f).inters := by
  intro i' hi'
  simp only [Cat.updHttp, List.mem_map] at hi'
  obtain ⟨i, hi, rfl⟩ := hi'
  refine ⟨i, hi, ?_⟩
  cases i with
  | http h => dsimp only; split <;> exact ⟨rfl, rfl⟩
  | rpc r => exact ⟨rfl, rfl⟩

theorem updRpc_sameKeys (c : Cat) (id : Bytes) (f : RpcI → RpcI) : SameKeys c.inters (c.updRpc id f).inters := by
  intro i' hi'
  simp only [Cat.updRpc, List.mem_map] at hi'
  obtain ⟨i, hi, rfl⟩ := hi'
  refine ⟨i, hi, ?_⟩
  cases i with
  | rpc h => dsimp only; split <;> exact ⟨rfl, rfl⟩
  | http r => exact ⟨rfl, rfl⟩

theorem closed_step (c c' : Cat) (hk : SameKeys c.inters c'.inters) (hg : TagsGrow c.tags c'.tags) (h : Closed c) :
    Closed c' := by
  intro i' hi' t ht
  obtain ⟨i, hi, hid, htags⟩ := hk i' hi'
  obtain ⟨te, hte, hn, hm⟩ := h i hi t (htags ▸ ht)
  obtain ⟨te', hte', hn', hm'⟩ := hg te hte
  exact ⟨te', hte', hn'.trans hn, hid ▸ hm' _ hm⟩

/-- a new interaction whose tags are all present and list it -/
theorem closed_add (c : Cat) (tags' : List TagE) (i : Inter) (hg : TagsGrow c.tags tags')
    (hi : ∀ t ∈ i.tags, ∃ te ∈ tags', te.name = t ∧ i.id ∈ te.members) (h : Closed c) :
    Closed { c with tags := tags', inters := c.inters ++ [i] } := by
  intro i' hi' t ht
  rcases List.mem_append.mp hi' with hold | hnew
  · obtain ⟨te, hte, hn, hm⟩ := h i' hold t ht
    obtain ⟨te', hte', hn', hm'⟩ := hg te hte
    exact ⟨te', hte', hn'.trans hn, hm' _ hm⟩
  · simp only [List.mem_singleton] at hnew
    subst hnew
    exact hi t ht

theorem resolveTags_names (tags : List TagE) (td : Dir) (names : List Bytes) (h : resolveTags tags td = .ok names) :
    ∀ n ∈ names, ∃ te ∈ tags, te.name = n := by
  unfold resolveTags at h
  split at h
  · cases h
  · split at h
    · cases h
    · -- the loop
      have key : ∀ (l used out : List Bytes), resolveTags.go tags td l used = .ok out →
          (∀ n ∈ used, ∃ te ∈ tags, te.name = n) → ∀ n ∈ out, ∃ te ∈ tags, te.name = n := by
        intro l
        induction l with
        | nil =>
          intro used out hgo hu n hn
          simp only [resolveTags.go] at hgo
          cases hgo
          exact hu n (by simpa using hn)
        | cons x rest ih =>
          intro used out hgo hu
          simp only [resolveTags.go] at hgo
          split at hgo
          · cases hgo
          · split at hgo
            · cases hgo
            · rename_i hany _
              refine ih (x :: used) out hgo ?_
              intro n hn
              rcases List.mem_cons.mp hn with rfl | hn'
              · simp only [Bool.not_eq_true', Bool.not_eq_false] at hany
                obtain ⟨te, hte, hname⟩ := List.any_eq_true.mp hany
                exact ⟨te, hte, by simpa using hname⟩
              · exact hu n hn'
      exact key _ _ _ h (by intro n hn; cases hn)

theorem tagsFromDir_ok (c : Cat) (td : Dir) (id : Bytes) (b : Bool) (names : List Bytes) (tags' : List TagE)
    (h : tagsFromDir c td id b = .ok (names, tags')) :
    TagsGrow c.tags tags' ∧ ∀ n ∈ names, ∃ te ∈ tags', te.name = n ∧ id ∈ te.members := by
  unfold tagsFromDir at h
  split at h
  · cases h
  · rename_i ns hr
    cases h
    exact ⟨foldl_append_grow _ _ _ _, foldl_append_has _ _ _ _ (resolveTags_names _ _ _ hr)⟩

theorem pathTagFor_ok (c : Cat) (id path : Bytes) (b : Bool) :
    TagsGrow c.tags (pathTagFor c id path b).2 ∧
      ∀ n ∈ (pathTagFor c id path b).1, ∃ te ∈ (pathTagFor c id path b).2, te.name = n ∧ id ∈ te.members := by
  simp only [pathTagFor]
  constructor
  · refine TagsGrow.trans ?_ (appendToTag_grow _ _ _ _)
    split
    · exact TagsGrow.refl _
    · intro te hte; exact ⟨te, List.mem_append_left _ hte, rfl, fun _ h => h⟩
  · intro n hn
    simp only [List.mem_singleton] at hn
    subst hn
    apply appendToTag_has
    split
    · rename_i hany
      obtain ⟨te, hte, hname⟩ := List.any_eq_true.mp hany
      exact ⟨te, hte, by simpa using hname⟩
    · exact ⟨_, List.mem_append_right _ (List.mem_singleton.mpr rfl), rfl⟩

theorem tagNames_ok (c : Cat) (kids : List DT) (anc : List Dir) (pk : List DT) (id path : Bytes) (b : Bool)
    (names : List Bytes) (tags' : List TagE) (h : tagNames c kids anc pk id path b = .ok (names, tags')) :
    TagsGrow c.tags tags' ∧ ∀ n ∈ names, ∃ te ∈ tags', te.name = n ∧ id ∈ te.members := by
  unfold tagNames at h
  split at h
  · exact tagsFromDir_ok _ _ _ _ _ _ h
  · split at h
    · exact tagsFromDir_ok _ _ _ _ _ _ h
    · cases h; exact pathTagFor_ok c id path b

theorem setDesc_grow (ts : List TagE) (name text : Bytes) :
    TagsGrow ts (ts.map fun t => if t.name == name then { t with desc := some text } else t) := by
  intro te hte
  refine ⟨_, List.mem_map.mpr ⟨te, hte, rfl⟩, ?_, ?_⟩
  · split <;> rfl
  · intro x hx; split <;> exact hx

theorem markRequest_closed (c : Cat) (d : Dir) (id : Bytes) (h : Closed c) : Closed (markRequest c d id) := by
  unfold markRequest; split
  · exact closed_step _ _ (updHttp_sameKeys _ _ _) (TagsGrow.refl _) h
  · exact h

theorem markResponse_closed (c : Cat) (d : Dir) (id : Bytes) (h : Closed c) : Closed (markResponse c d id) := by
  unfold markResponse; split
  · exact closed_step _ _ (updHttp_sameKeys _ _ _) (TagsGrow.refl _) h
  · exact h

theorem setRequestBody_closed (c : Cat) (d : Dir) (id : Bytes) (f n : String) (c' : Cat)
    (hc : Closed c) (h : setRequestBody c d id f n = .ok c') : Closed c' := by
  unfold setRequestBody at h
  repeat' split at h
  all_goals cases h
  exact closed_step _ _ (updHttp_sameKeys _ _ _) (TagsGrow.refl _) hc

theorem setResponseBody_closed (c : Cat) (d : Dir) (id : Bytes) (f n : String) (c' : Cat)
    (hc : Closed c) (h : setResponseBody c d id f n = .ok c') : Closed c' := by
  unfold setResponseBody at h
  repeat' split at h
  all_goals cases h
  exact closed_step _ _ (updHttp_sameKeys _ _ _) (TagsGrow.refl _) hc

theorem addRequest_closed (s : BSt) (d : Dir) (anc : List Dir) (s' : BSt) (hc : Closed s.cat)
    (h : addRequest s d anc = .ok s') : Closed s'.cat := by
  unfold addRequest at h
  repeat' split at h
  all_goals cases h
  all_goals first
    | exact markRequest_closed _ _ _ hc
    | (rename_i hb; exact setRequestBody_closed _ _ _ _ _ _ (markRequest_closed _ _ _ hc) hb)

theorem addResponse_closed (s : BSt) (d : Dir) (anc : List Dir) (s' : BSt) (hc : Closed s.cat)
    (h : addResponse s d anc = .ok s') : Closed s'.cat := by
  unfold addResponse at h
  repeat' split at h
  all_goals cases h
  all_goals first
    | exact markResponse_closed _ _ _ hc
    | (rename_i hb; exact setResponseBody_closed _ _ _ _ _ _ (markResponse_closed _ _ _ hc) hb)

theorem closed_of_eq (c c' : Cat) (hi : c'.inters = c.inters) (ht : c'.tags = c.tags) (h : Closed c) : Closed c' := by
  unfold Closed at *; rw [hi, ht]; exact h

set_option maxHeartbeats 3200000 in
theorem addDirective_closed (s : BSt) (d : Dir) (kids : List DT) (anc : List Dir) (pk before : List DT) (s' : BSt)
    (hc : Closed s.cat) (h : addDirective s d kids anc pk before = .ok s') : Closed s'.cat := by
  simp only [addDirective] at h
  split at h
  · cases h
  · split at h
    all_goals (repeat' split at h)
    all_goals (try cases h)
    all_goals (try (exact closed_of_eq _ _ rfl rfl hc))
    all_goals (try (exact closed_step _ _ (updHttp_sameKeys _ _ _) (TagsGrow.refl _) hc))
    all_goals (try (exact closed_step _ _ (updRpc_sameKeys _ _ _) (TagsGrow.refl _) hc))
    all_goals (try (exact addRequest_closed _ _ _ _ hc h))
    all_goals (try (exact addResponse_closed _ _ _ _ hc h))
    all_goals (
      rename_i htn
      obtain ⟨hg, hn⟩ := tagNames_ok _ _ _ _ _ _ _ _ _ htn
      exact closed_add s.cat _ _ hg hn hc)

theorem addDescriptionText_closed (s : BSt) (d : Dir) (anc : List Dir) (content : Bytes → Bytes) (s' : BSt)
    (hc : Closed s.cat) (h : addDescriptionText s d anc content = .ok s') : Closed s'.cat := by
  simp only [addDescriptionText] at h
  repeat' split at h
  all_goals cases h
  all_goals first
    | exact hc
    | exact closed_of_eq s.cat _ rfl rfl hc
    | exact closed_step s.cat _ (updHttp_sameKeys _ _ _) (TagsGrow.refl _) hc
    | exact closed_step s.cat _ (updRpc_sameKeys _ _ _) (TagsGrow.refl _) hc
    | exact closed_step s.cat _ (SameKeys.refl _) (setDesc_grow _ _ _) hc

mutual
  theorem addNode_closed (content : Bytes → Bytes) (t : DT) (anc : List Dir) (all before : List DT) (s s' : BSt)
      (hc : Closed s.cat) (h : addNode content t anc all before s = .ok s') : Closed s'.cat := by
    match t with
    | .node d kids =>
      simp only [addNode] at h
      cases h1 : addDirective s d kids anc all before with
      | error e => simp [h1] at h
      | ok s1 =>
        simp only [h1] at h
        have c1 := addDirective_closed _ _ _ _ _ _ _ hc h1
        by_cases hcond : (d.kind == Kind.Description && !s.banned.contains d.kind) = true
        · simp only [hcond, if_true] at h
          cases h2 : addDescriptionText s1 d anc content with
          | error e => simp [h2] at h
          | ok s2 =>
            simp only [h2] at h
            exact addList_closed content kids (d :: anc) kids [] s2 s' (addDescriptionText_closed _ _ _ _ _ c1 h2) h
        · simp only [hcond, Bool.false_eq_true, if_false] at h
          exact addList_closed content kids (d :: anc) kids [] s1 s' c1 h
  theorem addList_closed (content : Bytes → Bytes) (ts : List DT) (anc : List Dir) (all before : List DT) (s s' : BSt)
      (hc : Closed s.cat) (h : addList content ts anc all before s = .ok s') : Closed s'.cat := by
    match ts with
    | [] => simp only [addList] at h; cases h; exact hc
    | t :: rest =>
      simp only [addList] at h
      cases h1 : addNode content t anc all before s with
      | error e => simp [h1] at h
      | ok s1 =>
        simp only [h1] at h
        exact addList_closed content rest anc all (before ++ [t]) s1 s' (addNode_closed content t anc all before s s1 hc h1) h
end

/-! ### and vice versa: every interaction a tag lists exists and names the tag -/

def ClosedBack (c : Cat) : Prop :=
  ∀ te ∈ c.tags, ∀ x ∈ te.members, ∃ i ∈ c.inters, i.id = x ∧ te.name ∈ i.tags

/-- members of `ts'` come from `ts` or are the new id under one of the given names -/
def TagsBack (ts ts' : List TagE) (id : Bytes) (names : List Bytes) : Prop :=
  ∀ te' ∈ ts', ∀ x ∈ te'.members, (∃ te ∈ ts, te.name = te'.name ∧ x ∈ te.members) ∨ (x = id ∧ te'.name ∈ names)

theorem TagsBack.refl (ts : List TagE) (id : Bytes) (names : List Bytes) : TagsBack ts ts id names :=
  fun te h x hx => Or.inl ⟨te, h, rfl, hx⟩

theorem appendToTag_back (ts : List TagE) (n id : Bytes) (b : Bool) : TagsBack ts (appendToTag ts n id b) id [n] := by
  intro te' hte' x hx
  simp only [appendToTag, List.mem_map] at hte'
  obtain ⟨te, hte, rfl⟩ := hte'
  by_cases hn : (te.name == n) = true
  · simp only [hn, if_true] at hx ⊢
    cases b
    · simp only [Bool.false_eq_true, if_false, TagE.members, List.mem_append, List.mem_singleton] at hx ⊢
      rcases hx with h | h | h
      · exact Or.inl ⟨te, hte, rfl, Or.inl h⟩
      · exact Or.inl ⟨te, hte, rfl, Or.inr h⟩
      · exact Or.inr ⟨h, by simpa using hn⟩
    · simp only [if_true, TagE.members, List.mem_append, List.mem_singleton] at hx ⊢
      rcases hx with (h | h) | h
      · exact Or.inl ⟨te, hte, rfl, Or.inl h⟩
      · exact Or.inr ⟨h, by simpa using hn⟩
      · exact Or.inl ⟨te, hte, rfl, Or.inr h⟩
  · simp only [hn, Bool.false_eq_true, if_false] at hx ⊢
    exact Or.inl ⟨te, hte, rfl, hx⟩

theorem TagsBack.trans {a b c : List TagE} {id : Bytes} {n1 n2 : List Bytes}
    (h1 : TagsBack a b id n1) (h2 : TagsBack b c id n2) : TagsBack a c id (n1 ++ n2) := by
  intro te' hte' x hx
  rcases h2 te' hte' x hx with ⟨te, hte, hn, hm⟩ | ⟨hx', hn⟩
  · rcases h1 te hte x hm with ⟨t0, ht0, hn0, hm0⟩ | ⟨hx', hn'⟩
    · exact Or.inl ⟨t0, ht0, hn0.trans hn, hm0⟩
    · exact Or.inr ⟨hx', List.mem_append_left _ (hn ▸ hn')⟩
  · exact Or.inr ⟨hx', List.mem_append_right _ hn⟩

theorem foldl_append_back (names : List Bytes) (ts : List TagE) (id : Bytes) (b : Bool) :
    TagsBack ts (names.foldl (fun acc n => appendToTag acc n id b) ts) id names := by
  induction names generalizing ts with
  | nil => exact TagsBack.refl ts id []
  | cons n rest ih =>
    have := TagsBack.trans (appendToTag_back ts n id b) (ih (appendToTag ts n id b))
    simpa using this

theorem tagsFromDir_back (c : Cat) (td : Dir) (id : Bytes) (b : Bool) (names : List Bytes) (tags' : List TagE)
    (h : tagsFromDir c td id b = .ok (names, tags')) : TagsBack c.tags tags' id names := by
  unfold tagsFromDir at h
  split at h
  · cases h
  · cases h; exact foldl_append_back _ _ _ _

theorem pathTagFor_back (c : Cat) (id path : Bytes) (b : Bool) :
    TagsBack c.tags (pathTagFor c id path b).2 id (pathTagFor c id path b).1 := by
  simp only [pathTagFor]
  have h1 : TagsBack c.tags
      (if (c.tags.any fun x => x.name == tagName (pathTagTitle path)) = true then c.tags
       else c.tags ++ [{ name := tagName (pathTagTitle path), title := pathTagTitle path }]) id [] := by
    split
    · exact TagsBack.refl _ _ _
    · intro te' hte' x hx
      rcases List.mem_append.mp hte' with h | h
      · exact Or.inl ⟨te', h, rfl, hx⟩
      · simp only [List.mem_singleton] at h; subst h; simp [TagE.members] at hx
  simpa using TagsBack.trans h1 (appendToTag_back _ _ id b)

theorem tagNames_back (c : Cat) (kids : List DT) (anc : List Dir) (pk : List DT) (id path : Bytes) (b : Bool)
    (names : List Bytes) (tags' : List TagE) (h : tagNames c kids anc pk id path b = .ok (names, tags')) :
    TagsBack c.tags tags' id names := by
  unfold tagNames at h
  split at h
  · exact tagsFromDir_back _ _ _ _ _ _ h
  · split at h
    · exact tagsFromDir_back _ _ _ _ _ _ h
    · cases h; exact pathTagFor_back c id path b

/-- `l'` keeps every interaction of `l` (by id and tag list) -/
def KeepsKeys (l l' : List Inter) : Prop := ∀ i ∈ l, ∃ i' ∈ l', i'.id = i.id ∧ i'.tags = i.tags

theorem KeepsKeys.refl (l : List Inter) : KeepsKeys l l := fun i h => ⟨i, h, rfl, rfl⟩

theorem updHttp_keepsKeys (c : Cat) (id : Bytes) (f : HttpI → HttpI) : KeepsKeys c.inters (c.updHttp id f).inters := by
  intro i hi
  refine ⟨_, List.mem_map.mpr ⟨i, hi, rfl⟩, ?_⟩
  cases i with
  | http h => dsimp only; split <;> exact ⟨rfl, rfl⟩
  | rpc r => exact ⟨rfl, rfl⟩

theorem updRpc_keepsKeys (c : Cat) (id : Bytes) (f : RpcI → RpcI) : KeepsKeys c.inters (c.updRpc id f).inters := by
  intro i hi
  refine ⟨_, List.mem_map.mpr ⟨i, hi, rfl⟩, ?_⟩
  cases i with
  | rpc h => dsimp only; split <;> exact ⟨rfl, rfl⟩
  | http r => exact ⟨rfl, rfl⟩

/-- the tags of `ts'` are those of `ts` with the same members -/
def SameMembers (ts ts' : List TagE) : Prop := ∀ te' ∈ ts', ∃ te ∈ ts, te.name = te'.name ∧ te.members = te'.members

theorem SameMembers.refl (ts : List TagE) : SameMembers ts ts := fun te h => ⟨te, h, rfl, rfl⟩

theorem setDesc_same (ts : List TagE) (name text : Bytes) :
    SameMembers ts (ts.map fun t => if t.name == name then { t with desc := some text } else t) := by
  intro te' hte'
  obtain ⟨te, hte, rfl⟩ := List.mem_map.mp hte'
  exact ⟨te, hte, by split <;> rfl, by split <;> rfl⟩

theorem back_step (c c' : Cat) (hk : KeepsKeys c.inters c'.inters) (hm : SameMembers c.tags c'.tags) (h : ClosedBack c) :
    ClosedBack c' := by
  intro te' hte' x hx
  obtain ⟨te, hte, hn, hmem⟩ := hm te' hte'
  obtain ⟨i, hi, hid, ht⟩ := h te hte x (hmem ▸ hx)
  obtain ⟨i', hi', hid', ht'⟩ := hk i hi
  exact ⟨i', hi', hid'.trans hid, by rw [ht', ← hn]; exact ht⟩

theorem back_add (c : Cat) (tags' : List TagE) (i : Inter) (hb : TagsBack c.tags tags' i.id i.tags) (h : ClosedBack c) :
    ClosedBack { c with tags := tags', inters := c.inters ++ [i] } := by
  intro te' hte' x hx
  rcases hb te' hte' x hx with ⟨te, hte, hn, hm⟩ | ⟨hx', hn⟩
  · obtain ⟨j, hj, hid, ht⟩ := h te hte x hm
    exact ⟨j, List.mem_append_left _ hj, hid, hn ▸ ht⟩
  · exact ⟨i, List.mem_append_right _ (List.mem_singleton.mpr rfl), hx'.symm, hn⟩

theorem back_of_eq (c c' : Cat) (hi : c'.inters = c.inters) (ht : c'.tags = c.tags) (h : ClosedBack c) : ClosedBack c' := by
  unfold ClosedBack at *; rw [hi, ht]; exact h

theorem markRequest_back (c : Cat) (d : Dir) (id : Bytes) (h : ClosedBack c) : ClosedBack (markRequest c d id) := by
  unfold markRequest; split
  · exact back_step c _ (updHttp_keepsKeys _ _ _) (SameMembers.refl _) h
  · exact h

theorem markResponse_back (c : Cat) (d : Dir) (id : Bytes) (h : ClosedBack c) : ClosedBack (markResponse c d id) := by
  unfold markResponse; split
  · exact back_step c _ (updHttp_keepsKeys _ _ _) (SameMembers.refl _) h
  · exact h

theorem setRequestBody_back (c : Cat) (d : Dir) (id : Bytes) (f n : String) (c' : Cat)
    (hc : ClosedBack c) (h : setRequestBody c d id f n = .ok c') : ClosedBack c' := by
  unfold setRequestBody at h
  repeat' split at h
  all_goals cases h
  exact back_step c _ (updHttp_keepsKeys _ _ _) (SameMembers.refl _) hc

theorem setResponseBody_back (c : Cat) (d : Dir) (id : Bytes) (f n : String) (c' : Cat)
    (hc : ClosedBack c) (h : setResponseBody c d id f n = .ok c') : ClosedBack c' := by
  unfold setResponseBody at h
  repeat' split at h
  all_goals cases h
  exact back_step c _ (updHttp_keepsKeys _ _ _) (SameMembers.refl _) hc

theorem addRequest_back (s : BSt) (d : Dir) (anc : List Dir) (s' : BSt) (hc : ClosedBack s.cat)
    (h : addRequest s d anc = .ok s') : ClosedBack s'.cat := by
  unfold addRequest at h
  repeat' split at h
  all_goals cases h
  all_goals first
    | exact markRequest_back _ _ _ hc
    | (rename_i hb; exact setRequestBody_back _ _ _ _ _ _ (markRequest_back _ _ _ hc) hb)

theorem addResponse_back (s : BSt) (d : Dir) (anc : List Dir) (s' : BSt) (hc : ClosedBack s.cat)
    (h : addResponse s d anc = .ok s') : ClosedBack s'.cat := by
  unfold addResponse at h
  repeat' split at h
  all_goals cases h
  all_goals first
    | exact markResponse_back _ _ _ hc
    | (rename_i hb; exact setResponseBody_back _ _ _ _ _ _ (markResponse_back _ _ _ hc) hb)

set_option maxHeartbeats 3200000 in
theorem addDirective_back (s : BSt) (d : Dir) (kids : List DT) (anc : List Dir) (pk before : List DT) (s' : BSt)
    (hc : ClosedBack s.cat) (h : addDirective s d kids anc pk before = .ok s') : ClosedBack s'.cat := by
  simp only [addDirective] at h
  split at h
  · cases h
  · split at h
    all_goals (repeat' split at h)
    all_goals (try cases h)
    all_goals (try (exact back_of_eq s.cat _ rfl rfl hc))
    all_goals (try (exact back_step s.cat _ (updHttp_keepsKeys _ _ _) (SameMembers.refl _) hc))
    all_goals (try (exact back_step s.cat _ (updRpc_keepsKeys _ _ _) (SameMembers.refl _) hc))
    all_goals (try (exact addRequest_back _ _ _ _ hc h))
    all_goals (try (exact addResponse_back _ _ _ _ hc h))
    all_goals (
      rename_i htn
      exact back_add s.cat _ _ (tagNames_back _ _ _ _ _ _ _ _ _ htn) hc)

theorem addDescriptionText_back (s : BSt) (d : Dir) (anc : List Dir) (content : Bytes → Bytes) (s' : BSt)
    (hc : ClosedBack s.cat) (h : addDescriptionText s d anc content = .ok s') : ClosedBack s'.cat := by
  simp only [addDescriptionText] at h
  repeat' split at h
  all_goals cases h
  all_goals first
    | exact hc
    | exact back_of_eq s.cat _ rfl rfl hc
    | exact back_step s.cat _ (updHttp_keepsKeys _ _ _) (SameMembers.refl _) hc
    | exact back_step s.cat _ (updRpc_keepsKeys _ _ _) (SameMembers.refl _) hc
    | exact back_step s.cat _ (KeepsKeys.refl _) (setDesc_same _ _ _) hc

mutual
  theorem addNode_back (content : Bytes → Bytes) (t : DT) (anc : List Dir) (all before : List DT) (s s' : BSt)
      (hc : ClosedBack s.cat) (h : addNode content t anc all before s = .ok s') : ClosedBack s'.cat := by
    match t with
    | .node d kids =>
      simp only [addNode] at h
      cases h1 : addDirective s d kids anc all before with
      | error e => simp [h1] at h
      | ok s1 =>
        simp only [h1] at h
        have c1 := addDirective_back _ _ _ _ _ _ _ hc h1
        by_cases hcond : (d.kind == Kind.Description && !s.banned.contains d.kind) = true
        · simp only [hcond, if_true] at h
          cases h2 : addDescriptionText s1 d anc content with
          | error e => simp [h2] at h
          | ok s2 =>
            simp only [h2] at h
            exact addList_back content kids (d :: anc) kids [] s2 s' (addDescriptionText_back _ _ _ _ _ c1 h2) h
        · simp only [hcond, Bool.false_eq_true, if_false] at h
          exact addList_back content kids (d :: anc) kids [] s1 s' c1 h
  theorem addList_back (content : Bytes → Bytes) (ts : List DT) (anc : List Dir) (all before : List DT) (s s' : BSt)
      (hc : ClosedBack s.cat) (h : addList content ts anc all before s = .ok s') : ClosedBack s'.cat := by
    match ts with
    | [] => simp only [addList] at h; cases h; exact hc
    | t :: rest =>
      simp only [addList] at h
      cases h1 : addNode content t anc all before s with
      | error e => simp [h1] at h
      | ok s1 =>
        simp only [h1] at h
        exact addList_back content rest anc all (before ++ [t]) s1 s' (addNode_back content t anc all before s s1 hc h1) h
end

/-- the tags collected before the catalog is built list no interaction yet -/
theorem collectTags_empty (ts : List DT) (acc out : List TagE) (ha : ∀ te ∈ acc, te.members = [])
    (h : collectTags ts acc = .ok out) : ∀ te ∈ out, te.members = [] := by
  induction ts generalizing acc with
  | nil => simp only [collectTags] at h; cases h; exact ha
  | cons t rest ih =>
    simp only [collectTags] at h
    repeat' split at h
    all_goals first
      | (cases h; done)
      | exact ih _ ha h
      | (refine ih _ ?_ h
         intro te hte
         rcases List.mem_append.mp hte with h' | h'
         · exact ha te h'
         · simp only [List.mem_singleton] at h'; subst h'; rfl)

end JsightVerif.Model.Build
