import JsightVerif.Proofs.BuildNoNil
/-
  The scanning stage (Model/Project.lean) only ever puts a directive into the tree through `attach`
  and closes contexts through `closeExplicit`: the forest it hands to the build stage is nested as the
  context table says; in particular MACRO occurs at root level only.
-/
namespace JsightVerif.Model
open JsightVerif.Gen JsightVerif.Model.Build

theorem closeExplicitStack_wn {α} (kind : α → Kind) (st : List (Frame α)) (c : Option (Tree α)) (roots : List (Tree α))
    (r : Ctx α) (hs : stackWn kind st = true) (hc : optWn kind (parentOf kind st) c = true)
    (hr : Tree.wnList kind none roots = true) (hres : closeExplicitStack st c roots = .ok r) : r.wnC kind = true := by
  induction st generalizing c with
  | nil => simp [closeExplicitStack] at hres
  | cons f rest ih =>
    obtain ⟨hf, ha, hrest⟩ := stackWn_tail kind f rest hs
    have hfa := Frame.absorb_wn kind f c hf hc
    have hcl : (f.absorb c).close.wn kind (parentOf kind rest) = true :=
      Frame.close_wn kind _ _ hfa (by rw [Frame.absorb_d]; exact ha)
    cases rest with
    | nil =>
      simp only [closeExplicitStack] at hres
      split at hres
      · cases hres
        simp only [Ctx.wnC, Bool.and_eq_true]
        exact ⟨rfl, by simpa [Tree.wnList, hr, parentOf] using hcl⟩
      · exact ih (some (f.absorb c).close) hrest hcl hres
    | cons g rest' =>
      simp only [closeExplicitStack] at hres
      split at hres
      · cases hres
        obtain ⟨hg, hga, hrr⟩ := stackWn_tail kind g rest' hrest
        simp only [Ctx.wnC, Bool.and_eq_true]
        refine ⟨stackWn_cons kind _ rest' (Frame.absorb_wn kind g _ hg (by simpa [optWn, parentOf] using hcl)) ?_ hrr, hr⟩
        rw [Frame.absorb_d]; exact hga
      · exact ih (some (f.absorb c).close) hrest hcl hres

theorem closeExplicit_wn {α} (kind : α → Kind) (c r : Ctx α) (hc : c.wnC kind = true)
    (hres : closeExplicit c = .ok r) : r.wnC kind = true := by
  simp only [Ctx.wnC, Bool.and_eq_true] at hc
  exact closeExplicitStack_wn kind c.stack none c.rootsRev r hc.1 rfl hc.2 hres

theorem processCurrent_wn (c c' : Core) (hc : c.ctx.wnC Dir.kind = true) (h : c.processCurrent = .ok c') :
    c'.ctx.wnC Dir.kind = true := by
  unfold Core.processCurrent at h
  split at h
  · cases h; exact hc
  · split at h
    · rename_i ctx' ha
      cases h
      exact attach_wn Dir.kind methods_allowed_at_root c.ctx _ _ rfl ctx' hc ha
    · cases h

theorem tracerFor_ctx (c : Core) : c.tracerFor.2.ctx = c.ctx := by
  unfold Core.tracerFor
  repeat' split
  all_goals rfl

theorem onLexeme_wn (c c' : Core) (l : Lexeme) (hc : c.ctx.wnC Dir.kind = true) (h : c.onLexeme l = .ok c') :
    c'.ctx.wnC Dir.kind = true := by
  unfold Core.onLexeme at h
  split at h
  · -- Keyword
    split at h
    · cases h
    · rename_i c1 hp
      have h1 := processCurrent_wn _ _ hc hp
      repeat' split at h
      all_goals first
        | (cases h; done)
        | (rename_i htf; cases h; dsimp only; have := tracerFor_ctx c1; rw [htf] at this; rw [this]; exact h1)
  all_goals (repeat' split at h)
  all_goals first
    | (cases h; done)
    | (cases h; exact hc)
    | skip
  all_goals (rename_i hp _ _ hce; cases h; exact closeExplicit_wn Dir.kind _ _ (processCurrent_wn _ _ hc hp) hce)

theorem onEOF_wn (c c' : Core) (hc : c.ctx.wnC Dir.kind = true) (h : c.onEOF = .ok c') : c'.ctx.wnC Dir.kind = true := by
  unfold Core.onEOF at h
  split at h
  · cases h
  · rename_i c1 hp
    split at h
    · cases h
    · cases h; exact processCurrent_wn _ _ hc hp

theorem processInclude_ctx (c c' : Core) (fsys : FileSys) (kw : Lexeme) (h : c.processInclude fsys kw = .ok c') :
    c'.ctx = c.ctx := by
  simp only [Core.processInclude] at h
  repeat' split at h
  all_goals first | (cases h; done) | (cases h; rfl)

theorem run_wn (fsys : FileSys) (n : Nat) (c c' : Core) (hc : c.ctx.wnC Dir.kind = true)
    (h : Core.run fsys n c = .ok c') : c'.ctx.wnC Dir.kind = true := by
  induction n generalizing c with
  | zero => simp [Core.run] at h
  | succ n ih =>
    simp only [Core.run] at h
    split at h
    · cases h
    · -- a lexeme
      repeat' split at h
      all_goals first
        | (cases h; done)
        | exact ih _ (by rw [processInclude_ctx _ _ _ _ ‹_›]; exact hc) h
        | (refine ih _ (onLexeme_wn _ _ _ ?_ ‹_›) h; exact hc)
    · -- end of a file
      repeat' split at h
      all_goals first
        | (cases h; done)
        | (cases h; refine onEOF_wn _ _ ?_ ‹_›; exact hc)
        | (refine ih _ (onEOF_wn _ _ ?_ ‹_›) h; exact hc)
        | (refine ih _ ?_ h; dsimp only; refine onEOF_wn _ _ ?_ ‹_›; exact hc)

/-! ### MACRO occurs at root level only -/

mutual
  theorem wn_notMacro (t : DT) (p : Kind) (h : t.wn Dir.kind (some p) = true) : t.all notMacro = true := by
    match t with
    | .node d kids =>
      simp only [Tree.wn, Bool.and_eq_true] at h
      simp only [Tree.all, Bool.and_eq_true]
      refine ⟨?_, wnList_notMacro kids d.kind h.2⟩
      simp only [notMacro, bne_iff_ne, ne_eq]
      intro hk
      have := h.1
      simp only [admits, hk, macro_only_at_root] at this
      cases this
  theorem wnList_notMacro (ts : List DT) (p : Kind) (h : Tree.wnList Dir.kind (some p) ts = true) :
      Tree.allList notMacro ts = true := by
    match ts with
    | [] => rfl
    | t :: rest =>
      simp only [Tree.wnList, Bool.and_eq_true] at h
      simp only [Tree.allList, Bool.and_eq_true]
      exact ⟨wn_notMacro t p h.1, wnList_notMacro rest p h.2⟩
end

theorem wn_macrosAtRoot (roots : List DT) (h : Tree.wnList Dir.kind none roots = true) : macrosAtRoot roots := by
  induction roots with
  | nil => intro t ht; cases ht
  | cons t rest ih =>
    simp only [Tree.wnList, Bool.and_eq_true] at h
    intro x hx
    rcases List.mem_cons.mp hx with rfl | hx'
    · obtain ⟨d, kids⟩ := x
      simp only [Tree.wn, Bool.and_eq_true] at h
      exact wnList_notMacro kids d.kind h.1.2
    · exact ih h.2 x hx'

/-- the forest the scanning stage produces is nested as the context table says -/
theorem scan_forest_wn (fsys : FileSys) (n : Nat) (c c' : Core) (hc : c.ctx = Ctx.empty)
    (h : Core.run fsys n c = .ok c') : Tree.wnList Dir.kind none c'.ctx.forest = true :=
  forest_wn Dir.kind c'.ctx (run_wn fsys n c c' (by rw [hc]; rfl) h)

end JsightVerif.Model
