import JsightVerif.Proofs.BuildProps
/-
  Registries of the build model: servers and user types of an accepted catalog are exactly the declared
  ones, in document order, pairwise distinct; a generic lemma lifts a per-directive fact to the whole
  depth-first pass.
-/
namespace JsightVerif.Model.Build
open JsightVerif.Gen JsightVerif.Model

/-! ### servers and user types: exactly the declared ones, in order, pairwise distinct -/

def serverNames (c : Cat) : List Bytes := c.servers.map (·.1)
def typeNames (c : Cat) : List Bytes := c.types.map (·.1)

@[simp] theorem serverNames_updHttp (c : Cat) (id : Bytes) (f : HttpI → HttpI) : serverNames (c.updHttp id f) = serverNames c := rfl
@[simp] theorem serverNames_updRpc (c : Cat) (id : Bytes) (f : RpcI → RpcI) : serverNames (c.updRpc id f) = serverNames c := rfl
@[simp] theorem typeNames_updHttp (c : Cat) (id : Bytes) (f : HttpI → HttpI) : typeNames (c.updHttp id f) = typeNames c := rfl
@[simp] theorem typeNames_updRpc (c : Cat) (id : Bytes) (f : RpcI → RpcI) : typeNames (c.updRpc id f) = typeNames c := rfl

theorem markRequest_regs (c : Cat) (d : Dir) (id : Bytes) :
    serverNames (markRequest c d id) = serverNames c ∧ typeNames (markRequest c d id) = typeNames c := by
  unfold markRequest; split <;> exact ⟨rfl, rfl⟩

theorem markResponse_regs (c : Cat) (d : Dir) (id : Bytes) :
    serverNames (markResponse c d id) = serverNames c ∧ typeNames (markResponse c d id) = typeNames c := by
  unfold markResponse; split <;> exact ⟨rfl, rfl⟩

theorem setRequestBody_regs (c : Cat) (d : Dir) (id : Bytes) (f n : String) (c' : Cat)
    (h : setRequestBody c d id f n = .ok c') : serverNames c' = serverNames c ∧ typeNames c' = typeNames c := by
  unfold setRequestBody at h
  repeat' split at h
  all_goals cases h
  all_goals exact ⟨rfl, rfl⟩

theorem setResponseBody_regs (c : Cat) (d : Dir) (id : Bytes) (f n : String) (c' : Cat)
    (h : setResponseBody c d id f n = .ok c') : serverNames c' = serverNames c ∧ typeNames c' = typeNames c := by
  unfold setResponseBody at h
  repeat' split at h
  all_goals cases h
  all_goals exact ⟨rfl, rfl⟩

theorem addRequest_regs (s : BSt) (d : Dir) (anc : List Dir) (s' : BSt) (h : addRequest s d anc = .ok s') :
    serverNames s'.cat = serverNames s.cat ∧ typeNames s'.cat = typeNames s.cat := by
  unfold addRequest at h
  repeat' split at h
  all_goals cases h
  all_goals first
    | exact markRequest_regs _ _ _
    | (rename_i hb; have := setRequestBody_regs _ _ _ _ _ _ hb; exact ⟨this.1.trans (markRequest_regs _ _ _).1, this.2.trans (markRequest_regs _ _ _).2⟩)

theorem addResponse_regs (s : BSt) (d : Dir) (anc : List Dir) (s' : BSt) (h : addResponse s d anc = .ok s') :
    serverNames s'.cat = serverNames s.cat ∧ typeNames s'.cat = typeNames s.cat := by
  unfold addResponse at h
  repeat' split at h
  all_goals cases h
  all_goals first
    | exact markResponse_regs _ _ _
    | (rename_i hb; have := setResponseBody_regs _ _ _ _ _ _ hb; exact ⟨this.1.trans (markResponse_regs _ _ _).1, this.2.trans (markResponse_regs _ _ _).2⟩)

/-- the server a directive declares -/
def newServers (d : Dir) : List Bytes := if d.kind == .Server then [d.namedParam "Name"] else []
/-- the user type a directive declares -/
def newTypes (d : Dir) : List Bytes := if d.kind == .Type then [d.namedParam "Name"] else []

theorem map_fst_update (l : List (Bytes × Bytes × Bytes)) (n p : Bytes) :
    (l.map fun e => if e.1 == n then (e.1, e.2.1, p) else e).map (·.1) = l.map (·.1) := by
  induction l with
  | nil => rfl
  | cons e rest ih => simp only [List.map_cons, ih]; split <;> rfl

set_option maxHeartbeats 3200000 in
theorem addDirective_regs (s : BSt) (d : Dir) (kids : List DT) (anc : List Dir) (pk before : List DT) (s' : BSt)
    (h : addDirective s d kids anc pk before = .ok s') :
    serverNames s'.cat = serverNames s.cat ++ newServers d ∧ typeNames s'.cat = typeNames s.cat ++ newTypes d ∧
      (∀ n ∈ newServers d, n ∉ serverNames s.cat) ∧ (∀ n ∈ newTypes d, n ∉ typeNames s.cat) := by
  simp only [addDirective] at h
  split at h
  · cases h
  · split at h
    all_goals (rename_i hk)
    all_goals (repeat' split at h)
    all_goals (try cases h)
    all_goals (try (simp_all [newServers, newTypes, serverNames, typeNames, map_fst_update, Cat.updHttp, Cat.updRpc]; done))
    all_goals (try (
      obtain ⟨r1, r2⟩ := addRequest_regs _ _ _ _ h
      simp [newServers, newTypes, hk, r1, r2]; done))
    all_goals (try (
      obtain ⟨r1, r2⟩ := addResponse_regs _ _ _ _ h
      simp [newServers, newTypes, hk, r1, r2]; done))
    all_goals (try (
      refine ⟨?_, by simp [newTypes, hk, typeNames], by simp [newServers, hk], by simp [newTypes, hk]⟩
      have e : newServers d = [] := by simp [newServers, hk]
      rw [e, List.append_nil]
      exact map_fst_update _ _ _))

theorem addDescriptionText_regs (s : BSt) (d : Dir) (anc : List Dir) (content : Bytes → Bytes) (s' : BSt)
    (h : addDescriptionText s d anc content = .ok s') :
    serverNames s'.cat = serverNames s.cat ∧ typeNames s'.cat = typeNames s.cat := by
  simp only [addDescriptionText] at h
  repeat' split at h
  all_goals cases h
  all_goals exact ⟨rfl, rfl⟩

/-! ### a measure of the catalog that every directive extends by what it declares -/

mutual
  def collectNode (new : Dir → List Dir → List Bytes) : DT → List Dir → List Bytes
    | .node d kids, anc => new d anc ++ collectList new kids (d :: anc)
  def collectList (new : Dir → List Dir → List Bytes) : List DT → List Dir → List Bytes
    | [], _ => []
    | t :: rest, anc => collectNode new t anc ++ collectList new rest anc
end

section Generic
variable (m : Cat → List Bytes) (new : Dir → List Dir → List Bytes)
  (hdir : ∀ (s : BSt) d kids anc pk before s', addDirective s d kids anc pk before = .ok s' →
      m s'.cat = m s.cat ++ new d anc ∧ ∀ n ∈ new d anc, n ∉ m s.cat)
  (hnew : ∀ d anc, (new d anc).Nodup)
  (hdesc : ∀ (s : BSt) d anc content s', addDescriptionText s d anc content = .ok s' → m s'.cat = m s.cat)
include hdir hnew hdesc

mutual
  theorem addNode_collect (content : Bytes → Bytes) (t : DT) (anc : List Dir) (all before : List DT) (s s' : BSt)
      (h : addNode content t anc all before s = .ok s') :
      m s'.cat = m s.cat ++ collectNode new t anc ∧ ((m s.cat).Nodup → (m s'.cat).Nodup) := by
    match t with
    | .node d kids =>
      simp only [addNode] at h
      cases h1 : addDirective s d kids anc all before with
      | error e => simp [h1] at h
      | ok s1 =>
        simp only [h1] at h
        obtain ⟨e1, f1⟩ := hdir _ _ _ _ _ _ _ h1
        have n1 : (m s.cat).Nodup → (m s1.cat).Nodup := fun hn => by
          rw [e1]; exact List.nodup_append.mpr ⟨hn, hnew d anc, fun a ha b hb hab => f1 b hb (hab ▸ ha)⟩
        by_cases hc : (d.kind == Kind.Description && !s.banned.contains d.kind) = true
        · simp only [hc, if_true] at h
          cases h2 : addDescriptionText s1 d anc content with
          | error e => simp [h2] at h
          | ok s2 =>
            simp only [h2] at h
            have e2 := hdesc _ _ _ _ _ h2
            obtain ⟨e3, n3⟩ := addList_collect content kids (d :: anc) kids [] s2 s' h
            exact ⟨by rw [e3, e2, e1, collectNode, List.append_assoc], fun hn => n3 (e2 ▸ n1 hn)⟩
        · simp only [hc, Bool.false_eq_true, if_false] at h
          obtain ⟨e3, n3⟩ := addList_collect content kids (d :: anc) kids [] s1 s' h
          exact ⟨by rw [e3, e1, collectNode, List.append_assoc], fun hn => n3 (n1 hn)⟩
  theorem addList_collect (content : Bytes → Bytes) (ts : List DT) (anc : List Dir) (all before : List DT) (s s' : BSt)
      (h : addList content ts anc all before s = .ok s') :
      m s'.cat = m s.cat ++ collectList new ts anc ∧ ((m s.cat).Nodup → (m s'.cat).Nodup) := by
    match ts with
    | [] => simp only [addList] at h; cases h; exact ⟨by simp [collectList], id⟩
    | t :: rest =>
      simp only [addList] at h
      cases h1 : addNode content t anc all before s with
      | error e => simp [h1] at h
      | ok s1 =>
        simp only [h1] at h
        obtain ⟨e1, n1⟩ := addNode_collect content t anc all before s s1 h1
        obtain ⟨e2, n2⟩ := addList_collect content rest anc all (before ++ [t]) s1 s' h
        exact ⟨by rw [e2, e1, collectList, List.append_assoc], fun hn => n2 (n1 hn)⟩
end
end Generic

/-- the servers / user types of an accepted catalog: exactly the declared ones, in document order, pairwise distinct -/
theorem addList_servers (content : Bytes → Bytes) (ts : List DT) (s s' : BSt)
    (h : addList content ts [] ts [] s = .ok s') :
    serverNames s'.cat = serverNames s.cat ++ collectList (fun d _ => newServers d) ts [] ∧
      ((serverNames s.cat).Nodup → (serverNames s'.cat).Nodup) :=
  addList_collect serverNames (fun d _ => newServers d)
    (fun s d kids anc pk before s' h => let r := addDirective_regs s d kids anc pk before s' h; ⟨r.1, r.2.2.1⟩)
    (fun d _ => by unfold newServers; split <;> simp)
    (fun s d anc content s' h => (addDescriptionText_regs s d anc content s' h).1) content ts [] ts [] s s' h

theorem addList_types (content : Bytes → Bytes) (ts : List DT) (s s' : BSt)
    (h : addList content ts [] ts [] s = .ok s') :
    typeNames s'.cat = typeNames s.cat ++ collectList (fun d _ => newTypes d) ts [] ∧
      ((typeNames s.cat).Nodup → (typeNames s'.cat).Nodup) :=
  addList_collect typeNames (fun d _ => newTypes d)
    (fun s d kids anc pk before s' h => let r := addDirective_regs s d kids anc pk before s' h; ⟨r.2.1, r.2.2.2⟩)
    (fun d _ => by unfold newTypes; split <;> simp)
    (fun s d anc content s' h => (addDescriptionText_regs s d anc content s' h).2) content ts [] ts [] s s' h

end JsightVerif.Model.Build
