import JsightVerif.Proofs.StackSafe
/-
  L0 safety, part 2 (progress): the byte loop of `Scanner.Next` terminates.

  The scanner moves its cursor backwards in two places (`curIndex -= 2` when a `/` turns out not to
  start an annotation, `curIndex--` when a Description text is ended by a directive keyword), and
  forwards over schema and enum bodies.  The abstract interpreter of Proofs/StackSafe.lean also
  tracks, per abstract state, how far the cursor is behind the *high-water mark* (the furthest
  position a step function has been run at: `lag`) and whether the mark has advanced since the last
  rewind (`fresh`); it refuses a rewind anywhere else.  Under a closed reach certificate this gives
  a potential `mu` that strictly decreases with every iteration of the byte loop, so that the loop
  never runs out of the fuel `4·|file| + 16` the executable model gives it — for every file, every
  oracle answer.  (In the Go code the loop has no fuel: running out of fuel in the model is a hang.)
-/
namespace JsightVerif.Model

/-- potential of a covered scanner state: four units per position the high-water mark
    (`cur + lag`) still has to travel up to `|file| + 2`, plus the rewind bookkeeping -/
def mu {σ} (env : Env) (a : Abs σ) (s : Sc σ) : Nat :=
  ((env.size : Int) + 2 - (s.cur + a.lag)).toNat * 4 + (if a.fresh then 3 else a.lag)

theorem mu_congr {σ} (env : Env) (a : Abs σ) (s s' : Sc σ) (h : s'.cur = s.cur) : mu env a s' = mu env a s := by
  simp only [mu, h]

/-- the same potential counted in calls of `Next`: every queued event is one more call -/
def bigM {σ} (env : Env) (a : Abs σ) (s : Sc σ) : Nat := (findCap + 1) * mu env a s + s.finds.length

/-- covered by the reach set with potentials at most `Bm` / `B`, or the file has been read to its end -/
def GoodP {σ} [DecidableEq σ] (env : Env) (reachAt : σ → List (RKey σ)) (Bm B : Nat) (s : Sc σ) : Prop :=
  (∃ a, memR reachAt a = true ∧ Conc a s ∧ ExtRel env.size a s ∧ mu env a s ≤ Bm ∧ bigM env a s ≤ B) ∨
    (s.cur > env.size ∧ (∃ a, Conc a s ∧ ExtRel env.size a s) ∧ s.finds.length ≤ B)

theorem GoodP.mono {σ} [DecidableEq σ] {env : Env} {reachAt : σ → List (RKey σ)} {Bm Bm' B B' : Nat} {s : Sc σ}
    (h : GoodP env reachAt Bm B s) (hm : Bm ≤ Bm') (hb : B ≤ B') : GoodP env reachAt Bm' B' s := by
  rcases h with ⟨a, ha, hc, hx, h1, h2⟩ | ⟨h1, h2, h3⟩
  · exact Or.inl ⟨a, ha, hc, hx, Nat.le_trans h1 hm, Nat.le_trans h2 hb⟩
  · exact Or.inr ⟨h1, h2, Nat.le_trans h3 hb⟩

theorem GoodP.good {σ} [DecidableEq σ] {env : Env} {reachAt : σ → List (RKey σ)} {Bm B : Nat} {s : Sc σ}
    (h : GoodP env reachAt Bm B s) : Good env reachAt s := by
  rcases h with ⟨a, ha, hc, hx, _⟩ | ⟨h1, h2, _⟩
  · exact Or.inl ⟨a, ha, hc, hx⟩
  · exact Or.inr ⟨h1, h2⟩

/-- outcome of a call: never exhausted fuel; a call that returns a lexeme has lowered the call potential -/
def ProgOk {σ} [DecidableEq σ] (env : Env) (reachAt : σ → List (RKey σ)) (Bm B : Nat) :
    Except Fault (Option Lexeme × Sc σ) → Prop
  | .ok (some _, s') => ∃ B', B' < B ∧ GoodP env reachAt Bm B' s'
  | .ok (none, s') => GoodP env reachAt Bm B s'
  | .error f => f ≠ .fuel

theorem ProgOk.mono {σ} [DecidableEq σ] {env : Env} {reachAt : σ → List (RKey σ)} {Bm Bm' B B' : Nat}
    {r : Except Fault (Option Lexeme × Sc σ)} (h : ProgOk env reachAt Bm B r) (hm : Bm ≤ Bm') (hb : B ≤ B') :
    ProgOk env reachAt Bm' B' r := by
  cases r with
  | error f => exact h
  | ok p =>
    obtain ⟨lex, s'⟩ := p
    cases lex with
    | none => exact GoodP.mono h hm hb
    | some l =>
      obtain ⟨B1, h1, hg⟩ := h
      exact ⟨B1, by omega, GoodP.mono hg hm (Nat.le_refl _)⟩

/-- a step-function body never reports exhausted fuel (its faults are errors and crashes) -/
theorem runProg_ne_fuel {σ} (env : Env) (c : UInt8) (p : Prog σ) (s : Sc σ) : runProg env c p s ≠ .fault .fuel := by
  induction p generalizing s with
  | setStep t k ih => simp only [runProg]; exact ih _
  | push t k ih => simp only [runProg]; exact ih _
  | pushCur k ih => simp only [runProg]; exact ih _
  | popToStep k ih =>
    simp only [runProg]
    split
    · simp
    · exact ih _
  | found e back k ih => simp only [runProg]; exact ih _
  | curSub n k ih =>
    simp only [runProg]
    split
    · simp
    · exact ih _
  | readLen kind k ih =>
    simp only [runProg]
    split
    · simp
    · split
      · simp
      · split
        · simp
        · exact ih _
  | ite cnd t e iht ihe =>
    simp only [runProg]
    split
    · simp
    · exact iht _
    · exact ihe _
  | ok => simp [runProg]
  | redispatch => simp [runProg]
  | call t => simp [runProg]
  | failChar w e => simp only [runProg, ucErr]; split <;> simp
  | failBasic m => simp [runProg]

theorem stepFuel_ne_fuel {σ} (env : Env) (prog : σ → Prog σ) (c : UInt8) (n : Nat) (st : σ) (s : Sc σ) :
    stepFuel env prog c n st s ≠ .error .fuel := by
  induction n generalizing st s with
  | zero => simp [stepFuel]
  | succ n ih =>
    simp only [stepFuel]
    have := runProg_ne_fuel env c (prog st) s
    split
    · simp
    · rename_i f hf
      intro h
      simp only [Except.error.injEq] at h
      subst h
      exact this hf
    · exact ih _ _
    · exact ih _ _

/-- one iteration of the byte loop strictly lowers the potential -/
theorem mu_step {σ} (env : Env) (a a' : Abs σ) (s s1 : Sc σ)
    (h0 : 0 ≤ s.cur) (hsz : s.cur ≤ env.size) (hlag : a.lag ≤ rewCap)
    (sz : Int) (eo : Bool) (hr : CurRel ⟨s.cur, s.finds.length, a.lag, a.fresh, sz, eo⟩ a' s1) :
    mu env a'.next ({ s1 with cur := s1.cur + 1 } : Sc σ) < mu env a s := by
  obtain ⟨hnoJmp, hjmp, _, _, hl, hf, hrewOk, hjmpOk⟩ := hr
  simp only at hnoJmp hjmp hl hf hrewOk hjmpOk
  simp only [mu, Abs.next, rewCap] at *
  by_cases hrew : a'.rew = 0
  · by_cases hj : a'.jmp = true
    · -- forward jump over a body
      have := (hjmp hj).1
      have hl0 := hjmpOk hj
      simp only [hrew, hj, bne_self_eq_false, Bool.false_eq_true, if_false, if_true]
      simp only [hl0] at *
      split <;> omega
    · have hj' : a'.jmp = false := by simpa using hj
      have hc := hnoJmp hj'
      simp only [hrew, hj', bne_self_eq_false, Bool.false_eq_true, if_false]
      rw [hl]
      by_cases hz : a.lag = 0
      · simp only [hz, beq_self_eq_true, if_true] at *
        split <;> omega
      · have : (a.lag == 0) = false := by simpa using hz
        simp only [this, Bool.false_eq_true, if_false]
        split <;> omega
  · -- a rewind: only at the mark, after it has advanced
    obtain ⟨hl0, hfr, hcap⟩ := hrewOk hrew
    have hj' : a'.jmp = false := by
      cases hjj : a'.jmp with
      | false => rfl
      | true => exact absurd (hjmp hjj).2 hrew
    have hc := hnoJmp hj'
    have hne : (a'.rew != 0) = true := by simpa using hrew
    simp only [hne, if_true, Bool.false_eq_true, if_false, hfr, hl0] at *
    omega

/-- one iteration also lowers the call potential: at most `findCap` events are queued per byte -/
theorem bigM_step {σ} (env : Env) (a a' : Abs σ) (s s1 : Sc σ)
    (h0 : 0 ≤ s.cur) (hsz : s.cur ≤ env.size) (hlag : a.lag ≤ rewCap)
    (sz : Int) (eo : Bool) (hr : CurRel ⟨s.cur, s.finds.length, a.lag, a.fresh, sz, eo⟩ a' s1) :
    bigM env a'.next ({ s1 with cur := s1.cur + 1 } : Sc σ) < bigM env a s := by
  have hmu := mu_step env a a' s s1 h0 hsz hlag sz eo hr
  have h1 := hr.nf
  have h2 := hr.nfCap
  simp only at h1
  simp only [bigM, h1, findCap] at *
  omega

theorem nextLoop_prog {σ} [DecidableEq σ] (env : Env) (prog : σ → Prog σ) (inputs : List UInt8)
    (reachAt : σ → List (RKey σ)) (ht : TableOk prog inputs reachAt) (n : Nat) :
    ∀ (Bm B : Nat) (s : Sc σ), GoodP env reachAt Bm B s → Bm < n → ProgOk env reachAt Bm B (nextLoop env prog n s) := by
  induction n with
  | zero => intro Bm B s _ hb; omega
  | succ n ih =>
    intro Bm B s hg hb
    simp only [nextLoop]
    by_cases hneg : s.cur < 0
    · simp [hneg, ProgOk]
    · simp only [hneg, if_false]
      by_cases hgt : s.cur > env.size
      · simp only [hgt, if_true]; exact hg
      · simp only [hgt, if_false]
        have hlive : ∃ a, memR reachAt a = true ∧ Conc a s ∧ ExtRel env.size a s ∧ mu env a s ≤ Bm ∧ bigM env a s ≤ B := by
          rcases hg with h | ⟨hbig, _⟩
          · exact h
          · exact absurd hbig hgt
        obtain ⟨a, ha, hc, hx, hm, hM⟩ := hlive
        obtain ⟨⟨eouts, heo, heall⟩, hlag, hsucc⟩ := okAt_spec prog inputs reachAt a ht.closed_ ha
        have hst : s.step = a.st := hc.1
        have hcc := concC_start env.size a s hc hx (by omega)
        have h0 : 0 ≤ s.cur := by omega
        have hsz : s.cur ≤ env.size := by omega
        have after : ∀ (s1 : Sc σ) (a' : Abs σ), ConcC ⟨s.cur, s.finds.length, a.lag, a.fresh, env.size, s.cur == env.size⟩ a' s1 →
            (memR reachAt a'.next = true ∨ s1.cur + 1 > env.size) →
            ProgOk env reachAt Bm B
              (match drain ({ s1 with cur := s1.cur + 1 } : Sc σ).finds.length { s1 with cur := s1.cur + 1 } with
               | .error f => .error f
               | .ok (some lex, s3) => .ok (some lex, s3)
               | .ok (none, s3) => nextLoop env prog n s3) := by
          intro s1 a' hcc1 hor
          have hc1 : Conc a' s1 := hcc1.1
          have hc2 : Conc a'.next ({ s1 with cur := s1.cur + 1 } : Sc σ) := hc1
          have hx2 := extRel_next env.size a' s1 hcc1.2.2.2.1
          obtain ⟨lex, s3, hd, hc3, hx3, hcur3, hlen3, _, _⟩ := drain_sound env.size a'.next _ _ (Nat.le_refl _) hc2 hx2
          rw [hd]
          have hlt := mu_step env a a' s s1 h0 hsz hlag _ _ hcc1.2.2.1
          have hLt := bigM_step env a a' s s1 h0 hsz hlag _ _ hcc1.2.2.1
          have hmu3 : mu env a'.next s3 < mu env a s := by rw [mu_congr env a'.next _ s3 hcur3]; exact hlt
          have hM3 : bigM env a'.next s3 < bigM env a s := by
            have e : mu env a'.next s3 = mu env a'.next ({ s1 with cur := s1.cur + 1 } : Sc σ) := mu_congr env a'.next _ s3 hcur3
            have : bigM env a'.next s3 ≤ bigM env a'.next ({ s1 with cur := s1.cur + 1 } : Sc σ) := by
              simp only [bigM, e]
              exact Nat.add_le_add_left hlen3 _
            omega
          have hg3 : GoodP env reachAt (mu env a'.next s3) (bigM env a'.next s3) s3 := by
            rcases hor with hmem | hp
            · exact Or.inl ⟨a'.next, hmem, hc3, hx3, Nat.le_refl _, Nat.le_refl _⟩
            · exact Or.inr ⟨by rw [hcur3]; exact hp, ⟨a'.next, hc3, hx3⟩, by simp only [bigM]; omega⟩
          cases lex with
          | some l => exact ⟨bigM env a'.next s3, by omega, GoodP.mono hg3 (by omega) (Nat.le_refl _)⟩
          | none => exact ProgOk.mono (ih _ _ s3 hg3 (by omega)) (by omega) (by omega)
        by_cases hend : (s.cur == (env.size : Int)) = true
        · simp only [hend, if_true, Bool.not_true, Bool.false_and, Bool.false_eq_true, if_false]
          have hs := stepFuel_sound env prog 0 ⟨s.cur, s.finds.length, a.lag, a.fresh, env.size, s.cur == env.size⟩ rfl (by simp [hend]) chainFuel s.step a.norm s eouts hcc (by rw [hst]; exact heo)
          revert hs
          cases hsf : stepFuel env prog 0 chainFuel s.step s with
          | error f =>
            intro _
            simp only [ProgOk]
            intro hf; subst hf; exact stepFuel_ne_fuel env prog 0 chainFuel s.step s hsf
          | ok s1 =>
            rintro ⟨a', ha', hc'⟩
            refine after s1 a' hc' ?_
            rcases heall a' ha' with hmv | hmem
            · right
              have : s1.cur = s.cur := hc'.2.1 hmv
              have hsz' : s.cur = env.size := by simpa using hend
              omega
            · exact Or.inl hmem
        · simp only [hend, Bool.not_false, Bool.true_and, Bool.false_eq_true, if_false]
          generalize hcdef : env.data.getD s.cur.toNat 0 = c
          by_cases hz : (c == 0) = true
          · rw [if_pos hz]
            simp [ProgOk]
          · rw [if_neg hz]
            have hc0 : c ≠ 0 := by simpa using hz
            obtain ⟨r, hr, hagn⟩ := ht.rep c hc0
            rw [stepFuel_agnostic env prog c r hagn chainFuel s.step s]
            obtain ⟨outs, houts, hall⟩ := hsucc r hr
            have hrz : (r == 0) = false := by simpa using ht.nz r hr
            have hs := stepFuel_sound env prog r ⟨s.cur, s.finds.length, a.lag, a.fresh, env.size, s.cur == env.size⟩ rfl (by simp only [hrz]; simpa using hend) chainFuel s.step a.norm s outs hcc (by rw [hst]; exact houts)
            revert hs
            cases hsf : stepFuel env prog r chainFuel s.step s with
            | error f =>
              intro _
              simp only [ProgOk]
              intro hf; subst hf; exact stepFuel_ne_fuel env prog r chainFuel s.step s hsf
            | ok s1 =>
              rintro ⟨a', ha', hc'⟩
              exact after s1 a' hc' (Or.inl (hall a' ha'))

theorem processEvent_ne_fuel {σ} (s : Sc σ) (ev : Ev × Int) : processEvent s ev ≠ .error .fuel := by
  unfold processEvent
  split
  · simp
  · split
    · split
      · simp
      · split <;> simp
    · simp

/-- one call of `Scanner.Next` with fuel above the byte-loop potential -/
theorem next_prog {σ} [DecidableEq σ] (env : Env) (prog : σ → Prog σ) (inputs : List UInt8)
    (reachAt : σ → List (RKey σ)) (ht : TableOk prog inputs reachAt) (fuel : Nat)
    (Bm B : Nat) (s : Sc σ) (hg : GoodP env reachAt Bm B s) (hb : Bm < fuel) :
    ProgOk env reachAt Bm B (next env prog fuel s) := by
  unfold next
  cases hfs : s.finds with
  | nil => exact nextLoop_prog env prog inputs reachAt ht fuel Bm B s hg hb
  | cons ev rest =>
    dsimp only
    have step : ∀ a, Conc a s → ExtRel env.size a s → ∃ lex s', processEvent { s with finds := rest } ev = .ok (lex, s') ∧ Conc a s' ∧
        ExtRel env.size a s' ∧ s'.cur = s.cur ∧ s'.finds = rest := by
      intro a hc hx
      obtain ⟨lex, s', hp, hc', hx', hrest, hcur, _, _, _⟩ := processEvent_sound env.size a s ev rest hfs hc hx
      exact ⟨lex, s', hp, hc', hx', hcur, hrest⟩
    have : ∃ lex s', processEvent { s with finds := rest } ev = .ok (lex, s') ∧ ∃ B', B' < B ∧ GoodP env reachAt Bm B' s' := by
      rcases hg with ⟨a, ha, hc, hx, hm, hM⟩ | ⟨hbig, ⟨a, hc, hx⟩, hlen⟩
      · obtain ⟨lex, s', hp, hc', hx', hcur, hrest⟩ := step a hc hx
        refine ⟨lex, s', hp, bigM env a s', ?_, Or.inl ⟨a, ha, hc', hx', by rw [mu_congr env a s s' hcur]; exact hm, Nat.le_refl _⟩⟩
        simp only [bigM, mu_congr env a s s' hcur, hrest] at hM ⊢
        simp only [hfs, List.length_cons] at hM
        omega
      · obtain ⟨lex, s', hp, hc', hx', hcur, hrest⟩ := step a hc hx
        simp only [hfs, List.length_cons] at hlen
        exact ⟨lex, s', hp, B - 1, by omega, Or.inr ⟨by rw [hcur]; exact hbig, ⟨a, hc', hx'⟩, by rw [hrest]; omega⟩⟩
    obtain ⟨lex, s', hp, B', hB', hg'⟩ := this
    rw [hp]
    cases lex with
    | some l => exact ⟨B', hB', hg'⟩
    | none => exact ProgOk.mono (nextLoop_prog env prog inputs reachAt ht fuel Bm B' s' hg' hb) (Nat.le_refl _) (by omega)

/-- a whole scan: with byte-loop fuel above `Bm` and more than `B` calls allowed, it never ends
    for lack of fuel -/
theorem scanFrom_prog {σ} [DecidableEq σ] (env : Env) (prog : σ → Prog σ) (inputs : List UInt8)
    (reachAt : σ → List (RKey σ)) (ht : TableOk prog inputs reachAt) (fuel : Nat) (Bm : Nat)
    (hb : Bm < fuel) (n : Nat) :
    ∀ (B : Nat) (s : Sc σ) (acc : List Lexeme), GoodP env reachAt Bm B s → B < n →
      (scanFrom env prog fuel n s acc).2.1 ≠ .fault .fuel := by
  induction n with
  | zero => intro B s acc _ h; omega
  | succ n ih =>
    intro B s acc hg hB
    simp only [scanFrom]
    have hn := next_prog env prog inputs reachAt ht fuel Bm B s hg hb
    revert hn
    cases next env prog fuel s with
    | error f =>
      intro hn
      simp only [ProgOk] at hn
      simp only [ne_eq, End.fault.injEq]
      exact hn
    | ok r =>
      obtain ⟨lex, s'⟩ := r
      cases lex with
      | none => intro _; simp
      | some l =>
        rintro ⟨B', hB', hg'⟩
        exact ih B' s' (l :: acc) hg' (by omega)

/-- the initial state: potentials `4·|file| + 11` and `(findCap + 1)` times that -/
theorem goodP_init {σ} [DecidableEq σ] (env : Env) (reachAt : σ → List (RKey σ)) (root : σ)
    (h : (reachAt root).contains ([], [], 0, true, [], 0, false, 1) = true) :
    GoodP env reachAt (4 * env.size + 11) ((findCap + 1) * (4 * env.size + 11)) (Sc.init root) := by
  refine Or.inl ⟨{ st := root, stk := [], evk := [] }, h, ⟨rfl, ⟨[], rfl⟩, rfl⟩,
    ⟨⟨[], rfl, trivial⟩, by simp [Sc.init], by simp [Sc.init], by simp [Sc.init], rfl,
      ⟨([], -1), rfl, by simp [Sc.init]⟩, by simp [Sc.init], by simp [Sc.init]⟩, ?_, ?_⟩
  · simp [mu, Sc.init]
    omega
  · simp [bigM, mu, Sc.init, findCap]
    omega

end JsightVerif.Model
