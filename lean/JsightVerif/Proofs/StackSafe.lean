import JsightVerif.Proofs.Simple
import JsightVerif.Proofs.Agnostic
/-
  L0 safety, part 1 (stacks): an abstract interpreter over step programs that tracks
    * the current step function,
    * the known top of the step stack (the rest is an arbitrary, never touched base),
    * the kinds of the lexeme events that are begun and not yet ended, in emission order,
  its soundness with respect to the real interpreter (`runProg`, `stepFuel`) and the driver
  (`drain`, `nextLoop`, `next`, `scanFrom`), for every environment and every input.
  A table is *closed* under the abstract interpreter on a finite set of abstract states when
  a decidable check succeeds; then the scanner never pops an empty step stack, never pops an
  empty event stack and never ends a lexeme of another kind than the one begun.
-/
namespace JsightVerif.Model

/-- abstract state -/
structure Abs (σ : Type) where
  st : σ
  stk : List σ
  evk : List Ev
  /-- the cursor was moved by the step function (`curIndex -= n`, schema extent) during this byte -/
  mv : Bool := false
  /-- progress part (Proofs/Progress.lean).  At the start of a byte: how far the cursor is behind the
      furthest position a step function has been run at (the high-water mark) -/
  lag : Nat := 0
  /-- the high-water mark has advanced since the last rewind (a rewind is only accepted then) -/
  fresh : Bool := true
  /-- during a byte: by how much the step function has rewound the cursor (`curIndex -= n`) -/
  rew : Nat := 0
  /-- during a byte: the cursor jumped forward over a schema / enum body -/
  jmp : Bool := false
  /-- during a byte: number of lexeme events queued -/
  nf : Nat := 0
  deriving DecidableEq, Repr

/-- the largest rewind of the cursor the progress analysis accepts -/
def rewCap : Nat := 2

/-- the largest number of lexeme events one byte may queue -/
def findCap : Nat := 4

def mismatchMsg : String := "Ending lexeme event does not match beginning event"

/-- effect of one event on the kinds of the open (begun, not ended) lexemes; `none` = the
    driver would pop an empty event stack or report a mismatch -/
def applyK (stk : List Ev) (e : Ev) : Option (List Ev) :=
  if e.isBeginning then some (e :: stk)
  else if e.isEnding then
    match stk with
    | b :: rest => if Ev.matches b e then some rest else none
    | [] => none
  else some stk

def applyKs : List Ev → List Ev → Option (List Ev)
  | stk, [] => some stk
  | stk, e :: rest =>
    match applyK stk e with
    | some stk' => applyKs stk' rest
    | none => none

/-- how many entries of the step stack the abstraction remembers -/
def stkCap : Nat := 2

def capStk {σ} (l : List σ) : List σ := l.take stkCap

/-- abstract run of one step-function body; `none` = a stack panic (or mismatch) cannot be excluded.
    Returns what the body asks its caller to do, for every way the non-byte conditions may go. -/
inductive ATail (σ : Type) where
  | done (a : Abs σ)
  | call (t : σ) (a : Abs σ)
  | redispatch (a : Abs σ)
  deriving DecidableEq, Repr

def absProg {σ} (c : UInt8) : Prog σ → Abs σ → Option (List (ATail σ))
  | .setStep t k, a => absProg c k { a with st := t }
  | .push t k, a => absProg c k { a with stk := capStk (t :: a.stk) }
  | .pushCur k, a => absProg c k { a with stk := capStk (a.st :: a.stk) }
  | .popToStep k, a =>
    match a.stk with
    | [] => none
    | t :: rest => absProg c k { a with st := t, stk := rest }
  | .found e _ k, a =>
    match applyK a.evk e with
    | none => none
    | some evk' => if a.nf < findCap then absProg c k { a with evk := evk', nf := a.nf + 1 } else none
  | .curSub n k, a =>
    -- a rewind is accepted only at the high-water mark, after it has advanced since the last rewind,
    -- once per byte, by 1..rewCap (otherwise termination of the byte loop is not shown)
    if a.lag == 0 && a.fresh && a.rew == 0 && !a.jmp && 1 ≤ n && n ≤ rewCap then
      absProg c k { a with mv := true, rew := n }
    else none
  | .readLen _ k, a =>
    if a.lag == 0 && a.rew == 0 then absProg c k { a with mv := true, jmp := true } else none
  | .ite cnd t e, a =>
    match simpleCond c cnd with
    | some true => absProg c t a
    | some false => absProg c e a
    | none =>
      match absProg c t a, absProg c e a with
      | some x, some y => some (x ++ y)
      | _, _ => none
  | .ok, a => some [.done a]
  | .redispatch, a => some [.redispatch a]
  | .call t, a => some [.call t a]
  | .failChar _ _, _ => some []
  | .failBasic m, _ => if m == mismatchMsg then none else some []

/-- all results, provided none is `none` -/
def joinAll {α} : List (Option (List α)) → Option (List α)
  | [] => some []
  | none :: _ => none
  | some x :: rest =>
    match joinAll rest with
    | some y => some (x ++ y)
    | none => none

/-- follow tail calls (same fuel discipline as `stepFuel`) -/
def absStepFuel {σ} (prog : σ → Prog σ) (c : UInt8) : Nat → σ → Abs σ → Option (List (Abs σ))
  | 0, _, _ => none
  | n + 1, st, a =>
    match absProg c (prog st) a with
    | none => none
    | some tails =>
      joinAll (tails.map fun t =>
        match t with
        | .done a' => some [a']
        | .call t' a' => absStepFuel prog c n t' a'
        | .redispatch a' => absStepFuel prog c n a'.st a')

/-- reset what is recorded during one byte (states are stored in this form) -/
def Abs.norm {σ} (a : Abs σ) : Abs σ := { a with mv := false, rew := 0, jmp := false, nf := 0 }

/-- the abstract state at the start of the next byte: the cursor has advanced by one from where the
    step function left it -/
def Abs.next {σ} (a : Abs σ) : Abs σ :=
  { a with mv := false, rew := 0, jmp := false, nf := 0,
           lag := if a.rew != 0 then a.rew - 1 else if a.jmp then 0 else a.lag - 1,
           fresh := if a.rew != 0 then false else if a.jmp then true else a.lag == 0 }

/-- one byte, from the abstract state's own step function -/
def absByte {σ} (prog : σ → Prog σ) (a : Abs σ) (c : UInt8) : Option (List (Abs σ)) :=
  absStepFuel prog c chainFuel a.st a.norm

def succsAll {σ} (prog : σ → Prog σ) (inputs : List UInt8) (a : Abs σ) : Option (List (Abs σ)) :=
  joinAll (inputs.map (absByte prog a))

/-- membership in a reach set given per step function (`mv` is not part of the stored states) -/
def memR {σ} [DecidableEq σ] (reachAt : σ → List (List σ × List Ev × Nat × Bool)) (a : Abs σ) : Bool :=
  (reachAt a.st).contains (a.stk, a.evk, a.lag, a.fresh)

/-- one abstract state is fine: every input byte is safe and leads into the set; the end-of-file
    pseudo byte is safe, and it is the last thing a scanner sees unless the step function moved the
    cursor (stateAnnotationSign2 rewinds by two even at the end of file), in which case the
    successor must be in the set like any other -/
def okAt {σ} [DecidableEq σ] (prog : σ → Prog σ) (inputs : List UInt8)
    (reachAt : σ → List (List σ × List Ev × Nat × Bool)) (a : Abs σ) : Bool :=
  (match absByte prog a 0 with
   | none => false
   | some outs => outs.all fun o => !o.mv || memR reachAt o.next) &&
  decide (a.lag ≤ rewCap) &&
  inputs.all fun c =>
    match absByte prog a c with
    | none => false
    | some outs => outs.all fun o => memR reachAt o.next

/-- the set is closed at step function `st` -/
def closedAt {σ} [DecidableEq σ] (prog : σ → Prog σ) (inputs : List UInt8)
    (reachAt : σ → List (List σ × List Ev × Nat × Bool)) (st : σ) : Bool :=
  (reachAt st).all fun p => okAt prog inputs reachAt { st := st, stk := p.1, evk := p.2.1, lag := p.2.2.1, fresh := p.2.2.2 }

/-! bytes that occur in byte tests of a program -/
def condBytes : Cond → List Nat
  | .byteEq b => [b]
  | .byteLe b => [b]
  | .byteGe b => [b]
  | .not c => condBytes c
  | .and a b => condBytes a ++ condBytes b
  | .or a b => condBytes a ++ condBytes b
  | _ => []

def progBytes {σ} : Prog σ → List Nat
  | .setStep _ k | .push _ k | .pushCur k | .popToStep k | .found _ _ k | .curSub _ k | .readLen _ k => progBytes k
  | .ite c t e => condBytes c ++ progBytes t ++ progBytes e
  | _ => []


/-! ## Soundness -/

def kindsOf (l : List (Ev × Int)) : List Ev := l.map (·.1)

/-- the faults this analysis excludes -/
def StackFault : Fault → Prop
  | .panic site => site = "stepStack.Pop: Reading from empty stack" ∨ site = "eventStack.Pop: Reading from empty stack"
      ∨ site = "shiftFound: Empty set of found lexemes" ∨ site = "step function recursion deeper than chainFuel"
  | .err (.basic m) _ => m = mismatchMsg
  | _ => False

/-- concretisation -/
def Conc {σ} (a : Abs σ) (s : Sc σ) : Prop :=
  s.step = a.st ∧ (∃ base, s.stack = a.stk ++ base) ∧ applyKs (kindsOf s.evs) (kindsOf s.finds) = some a.evk

/-- what the scanner looked like when the current byte began: cursor, number of queued events, and
    the progress part of the abstract state -/
structure Snap where
  cur : Int
  nfinds : Nat
  lag : Nat
  fresh : Bool

/-- the cursor and the event queue during a byte that began at `c0`: rewound by exactly `rew`, or
    jumped forward; `nf` more events queued; a rewind or a jump happened only where the abstract
    interpreter accepts one -/
structure CurRelF (c0 : Snap) (ajmp : Bool) (arew anf alag : Nat) (afresh : Bool) (cur : Int) (nfinds : Nat) : Prop where
  noJmp : ajmp = false → cur + arew = c0.cur
  jmp : ajmp = true → c0.cur ≤ cur ∧ arew = 0
  nf : nfinds = c0.nfinds + anf
  nfCap : anf ≤ findCap
  lag : alag = c0.lag
  fresh : afresh = c0.fresh
  rewOk : arew ≠ 0 → c0.lag = 0 ∧ c0.fresh = true ∧ arew ≤ rewCap
  jmpOk : ajmp = true → c0.lag = 0

/-- (stated over the fields it depends on, so that it is preserved definitionally by updates of the others) -/
abbrev CurRel {σ} (c0 : Snap) (a : Abs σ) (s : Sc σ) : Prop :=
  CurRelF c0 a.jmp a.rew a.nf a.lag a.fresh s.cur s.finds.length

/-- concretisation that also tracks the cursor: unmoved means still at `c0` -/
def ConcC {σ} (c0 : Snap) (a : Abs σ) (s : Sc σ) : Prop :=
  Conc a s ∧ (a.mv = false → s.cur = c0.cur) ∧ CurRel c0 a s

theorem applyKs_append (stk : List Ev) (l : List Ev) (e : Ev) :
    applyKs stk (l ++ [e]) = (applyKs stk l).bind (fun k => applyK k e) := by
  induction l generalizing stk with
  | nil =>
    simp only [List.nil_append, applyKs, Option.bind]
    cases h : applyK stk e <;> simp
  | cons x rest ih =>
    simp only [List.cons_append, applyKs]
    cases applyK stk x with
    | none => rfl
    | some k => exact ih k

theorem capStk_suffix {σ} (l base : List σ) : ∃ base', l ++ base = capStk l ++ base' :=
  ⟨l.drop stkCap ++ base, by simp [capStk, ← List.append_assoc, List.take_append_drop]⟩

theorem joinAll_mem {α} (l : List (Option (List α))) (r : List α) (h : joinAll l = some r) :
    ∀ o ∈ l, ∃ x, o = some x ∧ ∀ y ∈ x, y ∈ r := by
  induction l generalizing r with
  | nil => intro o ho; simp at ho
  | cons o rest ih =>
    cases o with
    | none => simp [joinAll] at h
    | some x =>
      simp only [joinAll] at h
      cases hr : joinAll rest with
      | none => simp [hr] at h
      | some y =>
        simp only [hr, Option.some.injEq] at h
        subst h
        intro o' ho'
        rcases List.mem_cons.mp ho' with rfl | ho'
        · exact ⟨x, rfl, fun z hz => List.mem_append_left _ hz⟩
        · obtain ⟨x', hx', hsub⟩ := ih y hr o' ho'
          exact ⟨x', hx', fun z hz => List.mem_append_right _ (hsub z hz)⟩

/-- at the start of a byte -/
theorem concC_start {σ} (a : Abs σ) (s : Sc σ) (hc : Conc a s) :
    ConcC ⟨s.cur, s.finds.length, a.lag, a.fresh⟩ a.norm s :=
  ⟨hc, fun _ => rfl, ⟨fun _ => by simp [Abs.norm], fun h => by simp [Abs.norm] at h, by simp [Abs.norm], by simp [Abs.norm], rfl, rfl,
    fun h => by simp [Abs.norm] at h, fun h => by simp [Abs.norm] at h⟩⟩

/-- what the real body does, in terms of the abstract tails -/
def TailOk {σ} (c0 : Snap) (tails : List (ATail σ)) : Tail σ → Prop
  | .done s' => ∃ a', ATail.done a' ∈ tails ∧ ConcC c0 a' s'
  | .call t s' => ∃ a', ATail.call t a' ∈ tails ∧ ConcC c0 a' s'
  | .redispatch s' => ∃ a', ATail.redispatch a' ∈ tails ∧ ConcC c0 a' s'
  | .fault f => ¬ StackFault f

theorem tailOk_mono {σ} (c0 : Snap) (x y : List (ATail σ)) (t : Tail σ) (h : TailOk c0 x t) (hs : ∀ z ∈ x, z ∈ y) : TailOk c0 y t := by
  cases t with
  | done s' => obtain ⟨a', ha, hc⟩ := h; exact ⟨a', hs _ ha, hc⟩
  | call t' s' => obtain ⟨a', ha, hc⟩ := h; exact ⟨a', hs _ ha, hc⟩
  | redispatch s' => obtain ⟨a', ha, hc⟩ := h; exact ⟨a', hs _ ha, hc⟩
  | fault f => exact h

theorem ucErr_not_stack {σ} (env : Env) (s : Sc σ) (w e : String) : ¬ StackFault (ucErr env s w e) := by
  unfold ucErr; split <;> simp [StackFault]

theorem runProg_sound {σ} (env : Env) (c : UInt8) (c0 : Snap) (p : Prog σ) (a : Abs σ) (s : Sc σ) (tails : List (ATail σ))
    (hc : ConcC c0 a s) (h : absProg c p a = some tails) : TailOk c0 tails (runProg env c p s) := by
  induction p generalizing a s tails with
  | setStep t k ih =>
    simp only [absProg] at h
    simp only [runProg]
    exact ih { a with st := t } _ _ ⟨⟨rfl, hc.1.2.1, hc.1.2.2⟩, hc.2⟩ h
  | push t k ih =>
    simp only [absProg] at h
    simp only [runProg]
    obtain ⟨base, hb⟩ := hc.1.2.1
    refine ih { a with stk := capStk (t :: a.stk) } _ _ ⟨⟨hc.1.1, ?_, hc.1.2.2⟩, hc.2⟩ h
    obtain ⟨b', hb'⟩ := capStk_suffix (t :: a.stk) base
    exact ⟨b', by simp only [hb]; simpa using hb'⟩
  | pushCur k ih =>
    simp only [absProg] at h
    simp only [runProg]
    obtain ⟨base, hb⟩ := hc.1.2.1
    refine ih { a with stk := capStk (a.st :: a.stk) } _ _ ⟨⟨hc.1.1, ?_, hc.1.2.2⟩, hc.2⟩ h
    obtain ⟨b', hb'⟩ := capStk_suffix (a.st :: a.stk) base
    exact ⟨b', by simp only [hb, hc.1.1]; simpa using hb'⟩
  | popToStep k ih =>
    simp only [absProg] at h
    obtain ⟨base, hb⟩ := hc.1.2.1
    cases hs : a.stk with
    | nil => simp [hs] at h
    | cons t rest =>
      simp only [hs] at h
      have : s.stack = t :: (rest ++ base) := by rw [hb, hs]; rfl
      simp only [runProg, this]
      exact ih { a with st := t, stk := rest } _ _ ⟨⟨rfl, ⟨base, rfl⟩, hc.1.2.2⟩, hc.2⟩ h
  | found e back k ih =>
    simp only [absProg] at h
    cases hk : applyK a.evk e with
    | none => simp [hk] at h
    | some evk' =>
      simp only [hk] at h
      by_cases hnf : a.nf < findCap
      · simp only [hnf, if_true] at h
        simp only [runProg]
        have hr := hc.2.2
        refine ih { a with evk := evk', nf := a.nf + 1 } _ _
          ⟨⟨hc.1.1, hc.1.2.1, ?_⟩, hc.2.1, ⟨hr.noJmp, hr.jmp, ?_, by simp only; omega, hr.lag, hr.fresh, hr.rewOk, hr.jmpOk⟩⟩ h
        · simp only [kindsOf, List.map_append, List.map_cons, List.map_nil]
          have := hc.1.2.2
          simp only [kindsOf] at this
          rw [applyKs_append, this]
          exact hk
        · have := hr.nf
          simp only [List.length_append, List.length_cons, List.length_nil]
          omega
      · simp [hnf] at h
  | curSub n k ih =>
    simp only [absProg] at h
    by_cases hg : (a.lag == 0 && a.fresh && a.rew == 0 && !a.jmp && decide (1 ≤ n) && decide (n ≤ rewCap)) = true
    · simp only [hg, if_true] at h
      simp only [Bool.and_eq_true, beq_iff_eq, Bool.not_eq_true', decide_eq_true_eq] at hg
      obtain ⟨⟨⟨⟨⟨hlag, hfresh⟩, hrew⟩, hjmp⟩, _⟩, hcap⟩ := hg
      have hr := hc.2.2
      simp only [runProg]
      split
      · simp [TailOk, StackFault]
      · refine ih { a with mv := true, rew := n } _ _ ⟨⟨hc.1.1, hc.1.2.1, hc.1.2.2⟩, by simp,
          ⟨?_, ?_, hr.nf, hr.nfCap, hr.lag, hr.fresh, ?_, ?_⟩⟩ h
        · intro _
          have := hr.noJmp hjmp
          simp only [hrew] at this
          simp only
          omega
        · intro hj
          simp only [hjmp] at hj
          exact absurd hj (by simp)
        · intro _
          exact ⟨by rw [← hr.lag]; exact hlag, by rw [← hr.fresh]; exact hfresh, hcap⟩
        · intro hj
          simp only [hjmp] at hj
          exact absurd hj (by simp)
    · simp [hg] at h
  | readLen kind k ih =>
    simp only [absProg] at h
    by_cases hg : (a.lag == 0 && a.rew == 0) = true
    · simp only [hg, if_true] at h
      simp only [Bool.and_eq_true, beq_iff_eq] at hg
      obtain ⟨hlag, hrew⟩ := hg
      have hr := hc.2.2
      have hge : c0.cur ≤ s.cur := by
        by_cases hj : a.jmp = true
        · exact (hr.jmp hj).1
        · have := hr.noJmp (by simpa using hj)
          omega
      have hrel : ∀ s' : Sc σ, c0.cur ≤ s'.cur → s'.finds = s.finds →
          CurRel c0 { a with mv := true, jmp := true } s' := by
        intro s' hle hf
        refine ⟨by simp, fun _ => ⟨hle, hrew⟩, by rw [hf]; exact hr.nf, hr.nfCap, hr.lag, hr.fresh, ?_, ?_⟩
        · intro hne; exact absurd hrew hne
        · intro _; rw [← hr.lag]; exact hlag
      simp only [runProg]
      split
      · simp [TailOk, StackFault]
      · split
        · simp [TailOk, StackFault]
        · rename_i n _
          by_cases hn : n > 0
          · simp only [hn, if_true]
            refine ih { a with mv := true, jmp := true } _ _ ⟨⟨hc.1.1, hc.1.2.1, hc.1.2.2⟩, by simp, hrel _ ?_ rfl⟩ h
            simp only
            omega
          · simp only [hn, if_false]
            exact ih { a with mv := true, jmp := true } _ _ ⟨⟨hc.1.1, hc.1.2.1, hc.1.2.2⟩, by simp, hrel _ hge rfl⟩ h
    · simp [hg] at h
  | ite cnd t e iht ihe =>
    simp only [absProg] at h
    simp only [runProg]
    cases hsc : simpleCond c cnd with
    | some b =>
      cases b with
      | true => simp only [hsc] at h; simp only [evalCond_simple env s c cnd true hsc]; exact iht _ _ _ hc h
      | false => simp only [hsc] at h; simp only [evalCond_simple env s c cnd false hsc]; exact ihe _ _ _ hc h
    | none =>
      simp only [hsc] at h
      cases hx : absProg c t a with
      | none => simp [hx] at h
      | some x =>
        cases hy : absProg c e a with
        | none => simp [hx, hy] at h
        | some y =>
          simp only [hx, hy, Option.some.injEq] at h
          subst h
          cases evalCond env s c cnd with
          | none => simp [TailOk, StackFault]
          | some b =>
            cases b with
            | true => exact tailOk_mono c0 x _ _ (iht _ _ _ hc hx) (fun z hz => List.mem_append_left _ hz)
            | false => exact tailOk_mono c0 y _ _ (ihe _ _ _ hc hy) (fun z hz => List.mem_append_right _ hz)
  | ok => simp only [absProg, Option.some.injEq] at h; subst h; exact ⟨a, by simp, hc⟩
  | redispatch => simp only [absProg, Option.some.injEq] at h; subst h; exact ⟨a, by simp, hc⟩
  | call t => simp only [absProg, Option.some.injEq] at h; subst h; exact ⟨a, by simp, hc⟩
  | failChar w e => simp only [runProg, TailOk]; exact ucErr_not_stack env s w e
  | failBasic m =>
    simp only [absProg] at h
    by_cases hm : (m == mismatchMsg) = true
    · simp [hm] at h
    · simp only [runProg, TailOk, StackFault]
      simpa using hm

/-- the whole byte step, following tail calls -/
theorem stepFuel_sound {σ} (env : Env) (prog : σ → Prog σ) (c : UInt8) (c0 : Snap) (n : Nat) (st : σ) (a : Abs σ) (s : Sc σ)
    (outs : List (Abs σ)) (hc : ConcC c0 a s) (h : absStepFuel prog c n st a = some outs) :
    match stepFuel env prog c n st s with
    | .ok s' => ∃ a' ∈ outs, ConcC c0 a' s'
    | .error f => ¬ StackFault f := by
  induction n generalizing st a s outs with
  | zero => simp [absStepFuel] at h
  | succ n ih =>
    simp only [absStepFuel] at h
    cases hp : absProg c (prog st) a with
    | none => simp [hp] at h
    | some tails =>
      simp only [hp] at h
      have hsound := runProg_sound env c c0 (prog st) a s tails hc hp
      have hj := joinAll_mem _ _ h
      simp only [stepFuel]
      cases hr : runProg env c (prog st) s with
      | done s' =>
        rw [hr] at hsound
        obtain ⟨a', ha', hc'⟩ := hsound
        obtain ⟨x, hx, hsub⟩ := hj _ (List.mem_map.mpr ⟨_, ha', rfl⟩)
        simp only [Option.some.injEq] at hx
        subst hx
        exact ⟨a', hsub a' (by simp), hc'⟩
      | fault f => rw [hr] at hsound; dsimp only; exact hsound
      | call t s' =>
        rw [hr] at hsound
        obtain ⟨a', ha', hc'⟩ := hsound
        obtain ⟨x, hx, hsub⟩ := hj _ (List.mem_map.mpr ⟨_, ha', rfl⟩)
        have := ih t a' s' x hc' hx
        dsimp only
        revert this
        cases stepFuel env prog c n t s' with
        | ok s'' => rintro ⟨a'', ha'', hc''⟩; exact ⟨a'', hsub a'' ha'', hc''⟩
        | error f => exact id
      | redispatch s' =>
        rw [hr] at hsound
        obtain ⟨a', ha', hc'⟩ := hsound
        obtain ⟨x, hx, hsub⟩ := hj _ (List.mem_map.mpr ⟨_, ha', rfl⟩)
        have hst : s'.step = a'.st := hc'.1.1
        have := ih a'.st a' s' x hc' hx
        dsimp only
        rw [hst]
        revert this
        cases stepFuel env prog c n a'.st s' with
        | ok s'' => rintro ⟨a'', ha'', hc''⟩; exact ⟨a'', hsub a'' ha'', hc''⟩
        | error f => exact id


/-! ### the driver: event processing never pops an empty stack, never mismatches -/

theorem processEvent_sound {σ} (a : Abs σ) (s : Sc σ) (ev : Ev × Int) (rest : List (Ev × Int))
    (hf : s.finds = ev :: rest) (hc : Conc a s) :
    ∃ lex s', processEvent { s with finds := rest } ev = .ok (lex, s') ∧ Conc a s' ∧ s'.finds = rest ∧ s'.cur = s.cur := by
  obtain ⟨hstep, hstack, hk⟩ := hc
  simp only [hf, kindsOf, List.map_cons, applyKs] at hk
  unfold processEvent
  by_cases hb : ev.1.isBeginning = true
  · simp only [hb, if_true]
    refine ⟨_, _, rfl, ⟨hstep, hstack, ?_⟩, rfl, rfl⟩
    simp only [applyK, hb, if_true] at hk
    simpa [kindsOf] using hk
  · simp only [hb, Bool.false_eq_true, if_false]
    by_cases he : ev.1.isEnding = true
    · simp only [he, if_true]
      simp only [applyK, hb, Bool.false_eq_true, if_false, he, if_true] at hk
      cases hev : s.evs with
      | nil => simp [hev] at hk
      | cons st restEvs =>
        simp only [hev, List.map_cons] at hk
        by_cases hm : Ev.matches st.1 ev.1 = true
        · simp only [hm, if_true] at hk ⊢
          exact ⟨_, _, rfl, ⟨hstep, hstack, by simpa [kindsOf] using hk⟩, rfl, rfl⟩
        · simp [hm] at hk
    · simp only [he, Bool.false_eq_true, if_false]
      simp only [applyK, hb, Bool.false_eq_true, if_false, he] at hk
      exact ⟨_, _, rfl, ⟨hstep, hstack, by simpa [kindsOf] using hk⟩, rfl, rfl⟩

theorem drain_sound {σ} (a : Abs σ) (n : Nat) (s : Sc σ) (hn : n ≤ s.finds.length) (hc : Conc a s) :
    ∃ lex s', drain n s = .ok (lex, s') ∧ Conc a s' ∧ s'.cur = s.cur ∧ s'.finds.length ≤ s.finds.length := by
  induction n generalizing s with
  | zero => exact ⟨none, s, rfl, hc, rfl, Nat.le_refl _⟩
  | succ n ih =>
    cases hfs : s.finds with
    | nil => simp [hfs] at hn
    | cons ev rest =>
      obtain ⟨lex, s', hp, hc', hrest, hcur⟩ := processEvent_sound a s ev rest hfs hc
      simp only [drain, hfs, hp]
      cases lex with
      | none =>
        have hn' : n ≤ s'.finds.length := by rw [hrest]; simp [hfs] at hn; omega
        obtain ⟨lex2, s2, h2, hc2, hcur2, hlen2⟩ := ih s' hn' hc'
        exact ⟨lex2, s2, h2, hc2, by rw [hcur2, hcur], by rw [hrest] at hlen2; simp only [hfs, List.length_cons]; omega⟩
      | some l =>
        refine ⟨some l, _, rfl, ?_, ?_, ?_⟩
        · obtain ⟨h1, h2, h3⟩ := hc'
          cases l.ty <;> exact ⟨h1, h2, h3⟩
        · cases l.ty <;> exact hcur
        · have : s'.finds.length ≤ (ev :: rest).length := by rw [hrest]; simp
          cases l.ty <;> exact this

/-- what the closure check needs from the table and the input alphabet -/
structure TableOk {σ} [DecidableEq σ] (prog : σ → Prog σ) (inputs : List UInt8)
    (reachAt : σ → List (List σ × List Ev × Nat × Bool)) : Prop where
  closed_ : ∀ st, closedAt prog inputs reachAt st = true
  /-- every non-zero byte behaves like one of the inputs in every step function -/
  rep : ∀ c : UInt8, c ≠ 0 → ∃ r ∈ inputs, ∀ st, progAgn c r (prog st) = true

/-- the scanner state is covered by the reach set, or the file has been read to its end -/
def Good {σ} [DecidableEq σ] (env : Env) (reachAt : σ → List (List σ × List Ev × Nat × Bool)) (s : Sc σ) : Prop :=
  (∃ a, memR reachAt a = true ∧ Conc a s) ∨ (s.cur > env.size ∧ ∃ a, Conc a s)

def ResOk {σ} [DecidableEq σ] (env : Env) (reachAt : σ → List (List σ × List Ev × Nat × Bool)) :
    Except Fault (Option Lexeme × Sc σ) → Prop
  | .ok (_, s') => Good env reachAt s'
  | .error f => ¬ StackFault f

theorem okAt_spec {σ} [DecidableEq σ] (prog : σ → Prog σ) (inputs : List UInt8)
    (reachAt : σ → List (List σ × List Ev × Nat × Bool)) (a : Abs σ) (ht : ∀ st, closedAt prog inputs reachAt st = true)
    (ha : memR reachAt a = true) :
    (∃ outs, absByte prog a 0 = some outs ∧ ∀ o ∈ outs, o.mv = false ∨ memR reachAt o.next = true) ∧
    a.lag ≤ rewCap ∧
    (∀ r ∈ inputs, ∃ outs, absByte prog a r = some outs ∧ ∀ o ∈ outs, memR reachAt o.next = true) := by
  have h := ht a.st
  simp only [closedAt, List.all_eq_true] at h
  simp only [memR, List.contains_iff_mem] at ha
  have hok := h _ ha
  have hb : ∀ c, absByte prog { st := a.st, stk := a.stk, evk := a.evk, lag := a.lag, fresh := a.fresh } c = absByte prog a c := fun _ => rfl
  simp only [okAt, Bool.and_eq_true, List.all_eq_true, hb, decide_eq_true_eq] at hok
  obtain ⟨⟨h0, hlag⟩, hin⟩ := hok
  refine ⟨?_, hlag, ?_⟩
  · cases hx : absByte prog a 0 with
    | none => simp [hx] at h0
    | some outs =>
      refine ⟨outs, rfl, ?_⟩
      simp only [hx, List.all_eq_true, Bool.or_eq_true, Bool.not_eq_true'] at h0
      exact h0
  · intro r hr
    have := hin r hr
    cases hx : absByte prog a r with
    | none => simp [hx] at this
    | some outs =>
      refine ⟨outs, rfl, ?_⟩
      simpa [hx] using this

theorem zeroMsg_ne : ("File cannot contain byte zero" == mismatchMsg) = false := by decide

theorem nextLoop_sound {σ} [DecidableEq σ] (env : Env) (prog : σ → Prog σ) (inputs : List UInt8)
    (reachAt : σ → List (List σ × List Ev × Nat × Bool)) (ht : TableOk prog inputs reachAt) (n : Nat) (s : Sc σ)
    (hg : Good env reachAt s) : ResOk env reachAt (nextLoop env prog n s) := by
  induction n generalizing s with
  | zero => simp [nextLoop, ResOk, StackFault]
  | succ n ih =>
    simp only [nextLoop]
    by_cases hneg : s.cur < 0
    · simp [hneg, ResOk, StackFault]
    · simp only [hneg, if_false]
      by_cases hgt : s.cur > env.size
      · simp only [hgt, if_true]; exact hg
      · simp only [hgt, if_false]
        have hlive : ∃ a, memR reachAt a = true ∧ Conc a s := by
          rcases hg with h | ⟨hbig, _⟩
          · exact h
          · exact absurd hbig hgt
        obtain ⟨a, ha, hc⟩ := hlive
        obtain ⟨⟨eouts, heo, heall⟩, _, hsucc⟩ := okAt_spec prog inputs reachAt a ht.closed_ ha
        have hst : s.step = a.st := hc.1
        have hcc : ConcC ⟨s.cur, s.finds.length, a.lag, a.fresh⟩ a.norm s := concC_start a s hc
        -- what follows a safe byte step
        have after : ∀ (s1 : Sc σ) (a' : Abs σ), Conc a' s1 →
            (memR reachAt a'.next = true ∨ s1.cur + 1 > env.size) →
            ResOk env reachAt
              (match drain ({ s1 with cur := s1.cur + 1 } : Sc σ).finds.length { s1 with cur := s1.cur + 1 } with
               | .error f => .error f
               | .ok (some lex, s3) => .ok (some lex, s3)
               | .ok (none, s3) => nextLoop env prog n s3) := by
          intro s1 a' hc1 hor
          have hc2 : Conc a' ({ s1 with cur := s1.cur + 1 } : Sc σ) := hc1
          obtain ⟨lex, s3, hd, hc3, hcur3, _⟩ := drain_sound a' _ _ (Nat.le_refl _) hc2
          rw [hd]
          have hg3 : Good env reachAt s3 := by
            rcases hor with hm | hp
            · exact Or.inl ⟨a'.next, hm, hc3⟩
            · exact Or.inr ⟨by rw [hcur3]; exact hp, a', hc3⟩
          cases lex with
          | some l => exact hg3
          | none => exact ih s3 hg3
        by_cases hend : (s.cur == (env.size : Int)) = true
        · -- end of file: the pseudo byte 0
          simp only [hend, if_true, Bool.not_true, Bool.false_and, Bool.false_eq_true, if_false]
          have hs := stepFuel_sound env prog 0 ⟨s.cur, s.finds.length, a.lag, a.fresh⟩ chainFuel s.step a.norm s eouts hcc (by rw [hst]; exact heo)
          revert hs
          cases stepFuel env prog 0 chainFuel s.step s with
          | error f => exact id
          | ok s1 =>
            rintro ⟨a', ha', hc', hcur', _⟩
            refine after s1 a' hc' ?_
            rcases heall a' ha' with hmv | hm
            · right
              have : s1.cur = s.cur := hcur' hmv
              have hsz : s.cur = env.size := by simpa using hend
              omega
            · exact Or.inl hm
        · simp only [hend, Bool.not_false, Bool.true_and, Bool.false_eq_true, if_false]
          generalize hcdef : env.data.getD s.cur.toNat 0 = c
          by_cases hz : (c == 0) = true
          · rw [if_pos hz]
            simp only [ResOk, StackFault]
            simpa using zeroMsg_ne
          · rw [if_neg hz]
            have hc0 : c ≠ 0 := by simpa using hz
            obtain ⟨r, hr, hagn⟩ := ht.rep c hc0
            rw [stepFuel_agnostic env prog c r hagn chainFuel s.step s]
            obtain ⟨outs, houts, hall⟩ := hsucc r hr
            have hs := stepFuel_sound env prog r ⟨s.cur, s.finds.length, a.lag, a.fresh⟩ chainFuel s.step a.norm s outs hcc (by rw [hst]; exact houts)
            revert hs
            cases stepFuel env prog r chainFuel s.step s with
            | error f => exact id
            | ok s1 =>
              rintro ⟨a', ha', hc', _⟩
              exact after s1 a' hc' (Or.inl (hall a' ha'))

theorem next_sound {σ} [DecidableEq σ] (env : Env) (prog : σ → Prog σ) (inputs : List UInt8)
    (reachAt : σ → List (List σ × List Ev × Nat × Bool)) (ht : TableOk prog inputs reachAt) (fuel : Nat) (s : Sc σ)
    (hg : Good env reachAt s) : ResOk env reachAt (next env prog fuel s) := by
  unfold next
  cases hfs : s.finds with
  | nil => exact nextLoop_sound env prog inputs reachAt ht fuel s hg
  | cons ev rest =>
    dsimp only
    have step : ∀ a, Conc a s → ∃ lex s', processEvent { s with finds := rest } ev = .ok (lex, s') ∧ Conc a s' ∧ s'.cur = s.cur := by
      intro a hc
      obtain ⟨lex, s', hp, hc', _, hcur⟩ := processEvent_sound a s ev rest hfs hc
      exact ⟨lex, s', hp, hc', hcur⟩
    have : ∃ lex s', processEvent { s with finds := rest } ev = .ok (lex, s') ∧ Good env reachAt s' := by
      rcases hg with ⟨a, ha, hc⟩ | ⟨hbig, a, hc⟩
      · obtain ⟨lex, s', hp, hc', _⟩ := step a hc
        exact ⟨lex, s', hp, Or.inl ⟨a, ha, hc'⟩⟩
      · obtain ⟨lex, s', hp, hc', hcur⟩ := step a hc
        exact ⟨lex, s', hp, Or.inr ⟨by rw [hcur]; exact hbig, a, hc'⟩⟩
    obtain ⟨lex, s', hp, hg'⟩ := this
    rw [hp]
    cases lex with
    | some l => exact hg'
    | none => exact nextLoop_sound env prog inputs reachAt ht fuel s' hg'

/-- how a whole scan ends -/
theorem scanFrom_sound {σ} [DecidableEq σ] (env : Env) (prog : σ → Prog σ) (inputs : List UInt8)
    (reachAt : σ → List (List σ × List Ev × Nat × Bool)) (ht : TableOk prog inputs reachAt) (fuel n : Nat) (s : Sc σ)
    (acc : List Lexeme) (hg : Good env reachAt s) :
    ∀ f, (scanFrom env prog fuel n s acc).2.1 = .fault f → ¬ StackFault f := by
  induction n generalizing s acc with
  | zero => intro f hf; simp only [scanFrom] at hf; cases hf; simp [StackFault]
  | succ n ih =>
    intro f hf
    simp only [scanFrom] at hf
    have hn := next_sound env prog inputs reachAt ht fuel s hg
    revert hf hn
    cases next env prog fuel s with
    | error f' => intro hf hn; simp only [End.fault.injEq] at hf; subst hf; exact hn
    | ok r =>
      obtain ⟨lex, s'⟩ := r
      cases lex with
      | none => intro hf; simp at hf
      | some l => intro hf hn; exact ih s' (l :: acc) hn f hf

/-- the initial state is covered as soon as the reach set has the root entry -/
theorem good_init {σ} [DecidableEq σ] (env : Env) (reachAt : σ → List (List σ × List Ev × Nat × Bool)) (root : σ)
    (h : (reachAt root).contains ([], [], 0, true) = true) : Good env reachAt (Sc.init root) :=
  Or.inl ⟨{ st := root, stk := [], evk := [] }, h, rfl, ⟨[], rfl⟩, rfl⟩

end JsightVerif.Model
