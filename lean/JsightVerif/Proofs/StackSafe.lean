import JsightVerif.Proofs.Simple
import JsightVerif.Proofs.Agnostic
/-
  L0 safety, part 1 (stacks): an abstract interpreter over step programs that tracks
    * the current step function,
    * the known top of the step stack (the rest is an arbitrary, never touched base),
    * the kinds of the lexeme events that are begun and not yet ended, in emission order,
  its soundness with respect to the real interpreter (`runProg`, `stepFuel`) and the driver
  (`drain`, `nextLoop`, `next`, `scanFrom`), for every environment and every input.
  A table is *closed* under the abstract interpreter on a finite set of abstract states when
  a decidable check succeeds; then the scanner never pops an empty step stack, never pops an
  empty event stack and never ends a lexeme of another kind than the one begun.
-/
namespace JsightVerif.Model

/-- abstract state -/
structure Abs (σ : Type) where
  st : σ
  stk : List σ
  evk : List Ev
  /-- the cursor was moved by the step function (`curIndex -= n`, schema extent) during this byte -/
  mv : Bool := false
  /-- progress part (Proofs/Progress.lean).  At the start of a byte: how far the cursor is behind the
      furthest position a step function has been run at (the high-water mark) -/
  lag : Nat := 0
  /-- the high-water mark has advanced since the last rewind (a rewind is only accepted then) -/
  fresh : Bool := true
  /-- during a byte: by how much the step function has rewound the cursor (`curIndex -= n`) -/
  rew : Nat := 0
  /-- during a byte: the cursor jumped forward over a schema / enum body -/
  jmp : Bool := false
  /-- during a byte: number of lexeme events queued -/
  nf : Nat := 0
  /-- extent part: for each open lexeme (aligned with `evk`) a lower bound on cursor − begin -/
  evd : List Nat := []
  /-- extent part: a lower bound on the cursor -/
  mp : Nat := 0
  /-- order part: after all queued events, a Keyword lexeme is more recent than any closing parenthesis -/
  kwp : Bool := false
  /-- text-order part: after all queued events, a lower bound on cursor − (largest end position reported) -/
  se : Nat := 1
  deriving DecidableEq, Repr

/-- the bounds of the extent part are kept up to this value -/
def posCap : Nat := 3

/-- key of a stored abstract state: step-stack top, open kinds, lag, fresh, distance bounds, cursor bound -/
abbrev RKey (σ : Type) := List σ × List Ev × Nat × Bool × List Nat × Nat × Bool × Nat

/-- the largest rewind of the cursor the progress analysis accepts -/
def rewCap : Nat := 2

/-- the largest number of lexeme events one byte may queue -/
def findCap : Nat := 4

def mismatchMsg : String := "Ending lexeme event does not match beginning event"

/-- effect of one event on the kinds of the open (begun, not ended) lexemes; `none` = the
    driver would pop an empty event stack or report a mismatch -/
def applyK (stk : List Ev) (e : Ev) : Option (List Ev) :=
  if e.isBeginning then some (e :: stk)
  else if e.isEnding then
    match stk with
    | b :: rest => if Ev.matches b e then some rest else none
    | [] => none
  else some stk

def applyKs : List Ev → List Ev → Option (List Ev)
  | stk, [] => some stk
  | stk, e :: rest =>
    match applyK stk e with
    | some stk' => applyKs stk' rest
    | none => none

/-- effect of one event, queued at `cursor − back`, on the distance bounds of the open lexemes; `none` = it
    cannot be shown that the position lies inside the file (begin: `0 ≤ pos`; end and single: `pos < size`,
    which at the end-of-file pseudo byte needs `back ≥ 1`) or that the lexeme does not end before it begins -/
def applyD (eofByte : Bool) (mp : Nat) (evd : List Nat) (e : Ev) (back : Nat) : Option (List Nat) :=
  if e.isBeginning then (if back ≤ mp then some (back :: evd) else none)
  else if e.isEnding then
    match evd with
    | d :: rest => if back ≤ d + 1 && (!eofByte || decide (1 ≤ back)) then some rest else none
    | [] => none
  else if back ≤ mp && (!eofByte || decide (1 ≤ back)) then some evd else none

/-- effect of one event, queued at `cursor − back`, on the text-order part; `none` = it cannot be shown that
    the lexeme begins after the end of every lexeme reported before, or lexemes would nest -/
def applyE (evk : List Ev) (se : Nat) (e : Ev) (back : Nat) : Option Nat :=
  if e.isBeginning then (if evk.isEmpty && decide (back < se) then some se else none)
  else if e.isEnding then (if evk.length == 1 then some (min se back) else none)
  else if evk.isEmpty && decide (back < se) then some (min se back) else none

/-- lexeme types that the core hands to the directive being accumulated (`currentDirective`) -/
def phNeeds : LexType → Bool
  | .Parameter | .Annotation | .Schema | .Json | .Text | .Enum => true
  | _ => false

/-- effect of one event on the order part; `none` = a parameter, annotation or body lexeme would be
    reported while no keyword is more recent than the last closing parenthesis (or none at all) -/
def applyP (ph : Bool) (e : Ev) : Option Bool :=
  if e.isBeginning then some ph
  else if phNeeds e.toLexType && !ph then none
  else some (phAfter ph e.toLexType)

def simP : Bool → List Ev → Option Bool
  | ph, [] => some ph
  | ph, e :: rest =>
    match applyP ph e with
    | some ph' => simP ph' rest
    | none => none

/-- a condition can be evaluated without indexing outside the file -/
def condSafe (eofByte : Bool) (mp : Nat) : Cond → Bool
  | .dataBackEq back _ => decide (back ≤ mp) && (!eofByte || decide (1 ≤ back))
  | .not c => condSafe eofByte mp c
  | .and a b => condSafe eofByte mp a && condSafe eofByte mp b
  | .or a b => condSafe eofByte mp a && condSafe eofByte mp b
  | _ => true

/-- how many entries of the step stack the abstraction remembers -/
def stkCap : Nat := 2

def capStk {σ} (l : List σ) : List σ := l.take stkCap

/-- abstract run of one step-function body; `none` = a stack panic (or mismatch) cannot be excluded.
    Returns what the body asks its caller to do, for every way the non-byte conditions may go. -/
inductive ATail (σ : Type) where
  | done (a : Abs σ)
  | call (t : σ) (a : Abs σ)
  | redispatch (a : Abs σ)
  deriving DecidableEq, Repr

def absProg {σ} (c : UInt8) : Prog σ → Abs σ → Option (List (ATail σ))
  | .setStep t k, a => absProg c k { a with st := t }
  | .push t k, a => absProg c k { a with stk := capStk (t :: a.stk) }
  | .pushCur k, a => absProg c k { a with stk := capStk (a.st :: a.stk) }
  | .popToStep k, a =>
    match a.stk with
    | [] => none
    | t :: rest => absProg c k { a with st := t, stk := rest }
  | .found e back k, a =>
    match applyK a.evk e, applyD (c == 0) a.mp a.evd e back, applyP a.kwp e, applyE a.evk a.se e back with
    | some evk', some evd', some kwp', some se' =>
      if a.nf < findCap then absProg c k { a with evk := evk', evd := evd', kwp := kwp', se := se', nf := a.nf + 1 } else none
    | _, _, _, _ => none
  | .curSub n k, a =>
    -- a rewind is accepted only at the high-water mark, after it has advanced since the last rewind,
    -- once per byte, by 1..rewCap (otherwise termination of the byte loop is not shown)
    -- and only as far as the cursor and every open lexeme are known to be from their beginnings
    if a.lag == 0 && a.fresh && a.rew == 0 && !a.jmp && 1 ≤ n && n ≤ rewCap && n ≤ a.mp && a.evd.all (n ≤ ·) && n ≤ a.se then
      absProg c k { a with mv := true, rew := n, mp := a.mp - n, evd := a.evd.map (· - n), se := a.se - n }
    else none
  | .readLen _ k, a =>
    if a.lag == 0 && a.rew == 0 then absProg c k { a with mv := true, jmp := true } else none
  | .ite cnd t e, a =>
    if !condSafe (c == 0) a.mp cnd then none
    else
    match simpleCond c cnd with
    | some true => absProg c t a
    | some false => absProg c e a
    | none =>
      match absProg c t a, absProg c e a with
      | some x, some y => some (x ++ y)
      | _, _ => none
  | .ok, a => some [.done a]
  | .redispatch, a => some [.redispatch a]
  | .call t, a => some [.call t a]
  | .failChar _ _, _ => some []
  | .failBasic m, _ => if m == mismatchMsg then none else some []

/-- all results, provided none is `none` -/
def joinAll {α} : List (Option (List α)) → Option (List α)
  | [] => some []
  | none :: _ => none
  | some x :: rest =>
    match joinAll rest with
    | some y => some (x ++ y)
    | none => none

/-- follow tail calls (same fuel discipline as `stepFuel`) -/
def absStepFuel {σ} (prog : σ → Prog σ) (c : UInt8) : Nat → σ → Abs σ → Option (List (Abs σ))
  | 0, _, _ => none
  | n + 1, st, a =>
    match absProg c (prog st) a with
    | none => none
    | some tails =>
      joinAll (tails.map fun t =>
        match t with
        | .done a' => some [a']
        | .call t' a' => absStepFuel prog c n t' a'
        | .redispatch a' => absStepFuel prog c n a'.st a')

/-- reset what is recorded during one byte (states are stored in this form) -/
def Abs.norm {σ} (a : Abs σ) : Abs σ := { a with mv := false, rew := 0, jmp := false, nf := 0 }

/-- the abstract state at the start of the next byte: the cursor has advanced by one from where the
    step function left it -/
def Abs.next {σ} (a : Abs σ) : Abs σ :=
  { a with mv := false, rew := 0, jmp := false, nf := 0,
           lag := if a.rew != 0 then a.rew - 1 else if a.jmp then 0 else a.lag - 1,
           fresh := if a.rew != 0 then false else if a.jmp then true else a.lag == 0,
           evd := a.evd.map (fun d => min posCap (d + 1)),
           mp := min posCap (a.mp + 1),
           se := min posCap (a.se + 1) }

/-- one byte, from the abstract state's own step function -/
def absByte {σ} (prog : σ → Prog σ) (a : Abs σ) (c : UInt8) : Option (List (Abs σ)) :=
  absStepFuel prog c chainFuel a.st a.norm

def succsAll {σ} (prog : σ → Prog σ) (inputs : List UInt8) (a : Abs σ) : Option (List (Abs σ)) :=
  joinAll (inputs.map (absByte prog a))

/-- membership in a reach set given per step function (`mv` is not part of the stored states) -/
def memR {σ} [DecidableEq σ] (reachAt : σ → List (RKey σ)) (a : Abs σ) : Bool :=
  (reachAt a.st).contains (a.stk, a.evk, a.lag, a.fresh, a.evd, a.mp, a.kwp, a.se)

/-- one abstract state is fine: every input byte is safe and leads into the set; the end-of-file
    pseudo byte is safe, and it is the last thing a scanner sees unless the step function moved the
    cursor (stateAnnotationSign2 rewinds by two even at the end of file), in which case the
    successor must be in the set like any other -/
def okAt {σ} [DecidableEq σ] (prog : σ → Prog σ) (inputs : List UInt8)
    (reachAt : σ → List (RKey σ)) (a : Abs σ) : Bool :=
  (match absByte prog a 0 with
   | none => false
   | some outs => outs.all fun o => !o.mv || memR reachAt o.next) &&
  decide (a.lag ≤ rewCap) &&
  inputs.all fun c =>
    match absByte prog a c with
    | none => false
    | some outs => outs.all fun o => memR reachAt o.next

/-- the set is closed at step function `st` -/
def closedAt {σ} [DecidableEq σ] (prog : σ → Prog σ) (inputs : List UInt8)
    (reachAt : σ → List (RKey σ)) (st : σ) : Bool :=
  (reachAt st).all fun p => okAt prog inputs reachAt { st := st, stk := p.1, evk := p.2.1, lag := p.2.2.1, fresh := p.2.2.2.1, evd := p.2.2.2.2.1, mp := p.2.2.2.2.2.1, kwp := p.2.2.2.2.2.2.1, se := p.2.2.2.2.2.2.2 }

/-! bytes that occur in byte tests of a program -/
def condBytes : Cond → List Nat
  | .byteEq b => [b]
  | .byteLe b => [b]
  | .byteGe b => [b]
  | .not c => condBytes c
  | .and a b => condBytes a ++ condBytes b
  | .or a b => condBytes a ++ condBytes b
  | _ => []

def progBytes {σ} : Prog σ → List Nat
  | .setStep _ k | .push _ k | .pushCur k | .popToStep k | .found _ _ k | .curSub _ k | .readLen _ k => progBytes k
  | .ite c t e => condBytes c ++ progBytes t ++ progBytes e
  | _ => []


/-! ## Soundness -/

def kindsOf (l : List (Ev × Int)) : List Ev := l.map (·.1)

/-- the faults this analysis excludes -/
def StackFault : Fault → Prop
  | .panic site => site = "stepStack.Pop: Reading from empty stack" ∨ site = "eventStack.Pop: Reading from empty stack"
      ∨ site = "shiftFound: Empty set of found lexemes" ∨ site = "step function recursion deeper than chainFuel"
  | .err (.basic m) _ => m = mismatchMsg
  | _ => False

/-- every crash of the scanner model: any panic site, and the internal "mismatch" error -/
def Crash : Fault → Prop
  | .panic _ => True
  | .err (.basic m) _ => m = mismatchMsg
  | _ => False

theorem StackFault.crash {f : Fault} (h : StackFault f) : Crash f := by
  cases f with
  | panic s => trivial
  | err m i => cases m <;> first | exact h | exact h.elim
  | fuel => exact h.elim

/-- a lexeme lies inside a file of `size` bytes: `data[b : e+1]` is a valid (possibly empty) slice -/
def WFLex (size : Int) (l : Lexeme) : Prop := 0 ≤ l.b ∧ l.b ≤ l.e + 1 ∧ l.e < size

/-- run the queued events over the event stack, checking every lexeme this will produce;
    the result is the stack of begun lexemes afterwards -/
def simQ (size : Int) : List (Ev × Int) → List (Ev × Int) → Option (List (Ev × Int))
  | stk, [] => some stk
  | stk, ev :: rest =>
    if ev.1.isBeginning then (if 0 ≤ ev.2 ∧ ev.2 ≤ size then simQ size (ev :: stk) rest else none)
    else if ev.1.isEnding then
      match stk with
      | b :: stk' => if Ev.matches b.1 ev.1 = true ∧ b.2 ≤ ev.2 + 1 ∧ ev.2 < size then simQ size stk' rest else none
      | [] => none
    else if 0 ≤ ev.2 ∧ ev.2 < size then simQ size stk rest else none

/-- run the queued events over the event stack for the text order: lexemes do not nest, every lexeme begins
    after the largest end position reported before (`le`); the result is the stack of begun lexemes and the
    largest end position afterwards -/
def simE : List (Ev × Int) → Int → List (Ev × Int) → Option (List (Ev × Int) × Int)
  | stk, le, [] => some (stk, le)
  | stk, le, ev :: rest =>
    if ev.1.isBeginning then (if stk = [] ∧ le < ev.2 then simE [ev] le rest else none)
    else if ev.1.isEnding then
      match stk with
      | [_] => simE [] (max le ev.2) rest
      | _ => none
    else if stk = [] ∧ le < ev.2 then simE [] (max le ev.2) rest else none

theorem simE_append (stk : List (Ev × Int)) (le : Int) (l : List (Ev × Int)) (ev : Ev × Int) :
    simE stk le (l ++ [ev]) = (simE stk le l).bind (fun r => simE r.1 r.2 [ev]) := by
  induction l generalizing stk le with
  | nil => simp [simE]
  | cons x rest ih =>
    simp only [List.cons_append, simE]
    split
    · split
      · exact ih _ _
      · rfl
    · split
      · split
        · exact ih _ _
        · rfl
      · split
        · exact ih _ _
        · rfl

/-- where both succeed, the text-order run and the extent run leave the same stack of begun lexemes -/
theorem simE_stack (size : Int) (stk : List (Ev × Int)) (le : Int) (l L : List (Ev × Int)) (r : List (Ev × Int) × Int)
    (hq : simQ size stk l = some L) (he : simE stk le l = some r) : r.1 = L := by
  induction l generalizing stk le with
  | nil =>
    simp only [simQ, Option.some.injEq] at hq
    simp only [simE, Option.some.injEq] at he
    subst hq; subst he; rfl
  | cons x rest ih =>
    simp only [simQ] at hq
    simp only [simE] at he
    by_cases hb : x.1.isBeginning = true
    · simp only [hb, if_true] at hq he
      split at hq
      · split at he
        · rename_i hc
          have : stk = [] := hc.1
          subst this
          exact ih _ _ hq he
        · simp at he
      · simp at hq
    · simp only [hb, Bool.false_eq_true, if_false] at hq he
      by_cases hen : x.1.isEnding = true
      · simp only [hen, if_true] at hq he
        cases stk with
        | nil => simp at hq
        | cons b stk' =>
          cases stk' with
          | nil =>
            simp only at hq he
            split at hq
            · exact ih _ _ hq he
            · simp at hq
          | cons b2 stk'' => simp at he
      · simp only [hen, Bool.false_eq_true, if_false] at hq he
        split at hq
        · split at he
          · rename_i hc
            have : stk = [] := hc.1
            subst this
            exact ih _ _ hq he
          · simp at he
        · simp at hq

/-- every begun lexeme starts at a position `≥ 0` that the cursor has left behind by at least its bound -/
def DistOk (cur : Int) : List (Ev × Int) → List Nat → Prop
  | [], [] => True
  | x :: L, d :: ds => 0 ≤ x.2 ∧ x.2 + d ≤ cur ∧ DistOk cur L ds
  | _, _ => False

/-- extent part of the concretisation (over the fields it depends on) -/
structure ExtRelF (size : Int) (evd : List Nat) (mp : Nat) (kwp : Bool) (ase : Nat) (evs finds : List (Ev × Int)) (params : List Lexeme) (cur : Int) (sph : Bool) (sle : Int) : Prop where
  q : ∃ L, simQ size evs finds = some L ∧ DistOk cur L evd
  mp : (mp : Int) ≤ cur
  params : ∀ l ∈ params, WFLex size l
  evsPos : ∀ x ∈ evs, 0 ≤ x.2
  ph : simP sph (finds.map (·.1)) = some kwp
  /-- text order: the queue keeps lexemes apart and in order; the open lexeme (if any) begins after `le` -/
  ord : ∃ r, simE evs sle finds = some r ∧ r.2 + ase ≤ cur
  evsLe : ∀ x ∈ evs, sle < x.2
  evsOne : evs.length ≤ 1

abbrev ExtRel {σ} (size : Int) (a : Abs σ) (s : Sc σ) : Prop :=
  ExtRelF size a.evd a.mp a.kwp a.se s.evs s.finds s.params s.cur s.ph s.le

/-- concretisation -/
def Conc {σ} (a : Abs σ) (s : Sc σ) : Prop :=
  s.step = a.st ∧ (∃ base, s.stack = a.stk ++ base) ∧ applyKs (kindsOf s.evs) (kindsOf s.finds) = some a.evk

/-- what the scanner looked like when the current byte began: cursor, number of queued events, and
    the progress part of the abstract state -/
structure Snap where
  cur : Int
  nfinds : Nat
  lag : Nat
  fresh : Bool
  /-- size of the file -/
  size : Int
  /-- the byte is the end-of-file pseudo byte -/
  eof : Bool

/-- the cursor and the event queue during a byte that began at `c0`: rewound by exactly `rew`, or
    jumped forward; `nf` more events queued; a rewind or a jump happened only where the abstract
    interpreter accepts one -/
structure CurRelF (c0 : Snap) (ajmp : Bool) (arew anf alag : Nat) (afresh : Bool) (cur : Int) (nfinds : Nat) : Prop where
  noJmp : ajmp = false → cur + arew = c0.cur
  jmp : ajmp = true → c0.cur ≤ cur ∧ arew = 0
  nf : nfinds = c0.nfinds + anf
  nfCap : anf ≤ findCap
  lag : alag = c0.lag
  fresh : afresh = c0.fresh
  rewOk : arew ≠ 0 → c0.lag = 0 ∧ c0.fresh = true ∧ arew ≤ rewCap
  jmpOk : ajmp = true → c0.lag = 0

/-- (stated over the fields it depends on, so that it is preserved definitionally by updates of the others) -/
abbrev CurRel {σ} (c0 : Snap) (a : Abs σ) (s : Sc σ) : Prop :=
  CurRelF c0 a.jmp a.rew a.nf a.lag a.fresh s.cur s.finds.length

/-- concretisation that also tracks the cursor: unmoved means still at `c0` -/
def ConcC {σ} (c0 : Snap) (a : Abs σ) (s : Sc σ) : Prop :=
  Conc a s ∧ (a.mv = false → s.cur = c0.cur) ∧ CurRel c0 a s ∧ ExtRel c0.size a s ∧
    (s.cur ≤ c0.size ∧ (c0.eof = false → s.cur < c0.size))

theorem applyKs_append (stk : List Ev) (l : List Ev) (e : Ev) :
    applyKs stk (l ++ [e]) = (applyKs stk l).bind (fun k => applyK k e) := by
  induction l generalizing stk with
  | nil =>
    simp only [List.nil_append, applyKs, Option.bind]
    cases h : applyK stk e <;> simp
  | cons x rest ih =>
    simp only [List.cons_append, applyKs]
    cases applyK stk x with
    | none => rfl
    | some k => exact ih k

theorem capStk_suffix {σ} (l base : List σ) : ∃ base', l ++ base = capStk l ++ base' :=
  ⟨l.drop stkCap ++ base, by simp [capStk, ← List.append_assoc, List.take_append_drop]⟩

theorem joinAll_mem {α} (l : List (Option (List α))) (r : List α) (h : joinAll l = some r) :
    ∀ o ∈ l, ∃ x, o = some x ∧ ∀ y ∈ x, y ∈ r := by
  induction l generalizing r with
  | nil => intro o ho; simp at ho
  | cons o rest ih =>
    cases o with
    | none => simp [joinAll] at h
    | some x =>
      simp only [joinAll] at h
      cases hr : joinAll rest with
      | none => simp [hr] at h
      | some y =>
        simp only [hr, Option.some.injEq] at h
        subst h
        intro o' ho'
        rcases List.mem_cons.mp ho' with rfl | ho'
        · exact ⟨x, rfl, fun z hz => List.mem_append_left _ hz⟩
        · obtain ⟨x', hx', hsub⟩ := ih y hr o' ho'
          exact ⟨x', hx', fun z hz => List.mem_append_right _ (hsub z hz)⟩

/-! ### extent lemmas -/

theorem simQ_append (size : Int) (stk l : List (Ev × Int)) (ev : Ev × Int) :
    simQ size stk (l ++ [ev]) = (simQ size stk l).bind (fun L => simQ size L [ev]) := by
  induction l generalizing stk with
  | nil => simp [simQ]
  | cons x rest ih =>
    simp only [List.cons_append, simQ]
    split
    · split
      · exact ih _
      · rfl
    · split
      · split
        · split
          · exact ih _
          · rfl
        · rfl
      · split
        · exact ih _
        · rfl

/-- the positions aside, `simQ` is `applyKs` -/
theorem simQ_kinds (size : Int) (stk l L : List (Ev × Int)) (h : simQ size stk l = some L) :
    applyKs (kindsOf stk) (kindsOf l) = some (kindsOf L) := by
  induction l generalizing stk with
  | nil => simp only [simQ, Option.some.injEq] at h; subst h; rfl
  | cons x rest ih =>
    simp only [simQ] at h
    simp only [kindsOf, List.map_cons, applyKs, applyK]
    by_cases hb : x.1.isBeginning = true
    · simp only [hb, if_true] at h ⊢
      split at h
      · exact ih _ h
      · simp at h
    · simp only [hb, Bool.false_eq_true, if_false] at h ⊢
      by_cases he : x.1.isEnding = true
      · simp only [he, if_true] at h ⊢
        cases stk with
        | nil => simp at h
        | cons b stk' =>
          simp only [List.map_cons] at h ⊢
          split at h
          · rename_i hm
            simp only [hm.1, if_true]
            exact ih _ h
          · simp at h
      · simp only [he, Bool.false_eq_true, if_false] at h ⊢
        split at h
        · exact ih _ h
        · simp at h

theorem DistOk_mono (cur cur' : Int) (hle : cur ≤ cur') : ∀ (L : List (Ev × Int)) (ds : List Nat), DistOk cur L ds → DistOk cur' L ds
  | [], [], _ => trivial
  | _ :: L, _ :: ds, h => ⟨h.1, by have := h.2.1; omega, DistOk_mono cur cur' hle L ds h.2.2⟩
  | [], _ :: _, h => h.elim
  | _ :: _, [], h => h.elim

theorem DistOk_sub (cur : Int) (n : Nat) : ∀ (L : List (Ev × Int)) (ds : List Nat), (∀ d ∈ ds, n ≤ d) → DistOk cur L ds →
    DistOk (cur - n) L (ds.map (· - n))
  | [], [], _, _ => trivial
  | _ :: L, d :: ds, hall, h => by
    have hd : n ≤ d := hall d (by simp)
    refine ⟨h.1, ?_, DistOk_sub cur n L ds (fun x hx => hall x (by simp [hx])) h.2.2⟩
    have := h.2.1
    simp only
    omega
  | [], _ :: _, _, h => h.elim
  | _ :: _, [], _, h => h.elim

theorem DistOk_next (cur : Int) : ∀ (L : List (Ev × Int)) (ds : List Nat), DistOk cur L ds →
    DistOk (cur + 1) L (ds.map (fun d => min posCap (d + 1)))
  | [], [], _ => trivial
  | _ :: L, d :: ds, h => by
    refine ⟨h.1, ?_, DistOk_next cur L ds h.2.2⟩
    have := h.2.1
    have : min posCap (d + 1) ≤ d + 1 := Nat.min_le_right _ _
    simp only
    omega
  | [], _ :: _, h => h.elim
  | _ :: _, [], h => h.elim

theorem simP_append (ph : Bool) (l : List Ev) (e : Ev) :
    simP ph (l ++ [e]) = (simP ph l).bind (fun p => applyP p e) := by
  induction l generalizing ph with
  | nil =>
    simp only [List.nil_append, simP, Option.bind]
    cases applyP ph e <;> rfl
  | cons x rest ih =>
    simp only [List.cons_append, simP]
    cases applyP ph x with
    | none => rfl
    | some p => exact ih p

/-- queueing one event at `cur − back` where the abstract interpreter accepts it -/
theorem found_ext (size cur : Int) (eofB : Bool) (mp : Nat) (evd evd' : List Nat) (evk evk' : List Ev) (kwp kwp' sph : Bool)
    (ase ase' : Nat) (sle : Int)
    (evs finds : List (Ev × Int)) (params : List Lexeme) (e : Ev) (back : Nat)
    (hx : ExtRelF size evd mp kwp ase evs finds params cur sph sle)
    (hkinds : applyKs (kindsOf evs) (kindsOf finds) = some evk)
    (hk : applyK evk e = some evk') (hd : applyD eofB mp evd e back = some evd') (hp : applyP kwp e = some kwp')
    (he : applyE evk ase e back = some ase')
    (hle : cur ≤ size) (hlt : eofB = false → cur < size) :
    ExtRelF size evd' mp kwp' ase' evs (finds ++ [(e, cur - back)]) params cur sph sle := by
  obtain ⟨⟨L, hq, hdist⟩, hmp, hpar, hpos, hph, ⟨r, hr, hrle⟩, hevsLe, hevsOne⟩ := hx
  have hph' : simP sph ((finds ++ [(e, cur - back)]).map (·.1)) = some kwp' := by
    simp only [List.map_append, List.map_cons, List.map_nil]
    rw [simP_append, hph]
    exact hp
  have hkL : kindsOf L = evk := by
    have := simQ_kinds size evs finds L hq
    rw [hkinds] at this
    exact (Option.some.inj this).symm
  have hrL : r.1 = L := simE_stack size evs sle finds L r hq hr
  have hord : ∃ r', simE evs sle (finds ++ [(e, cur - back)]) = some r' ∧ r'.2 + ase' ≤ cur := by
    rw [simE_append, hr]
    simp only [Option.bind, simE]
    unfold applyE at he
    by_cases hb : e.isBeginning = true
    · simp only [hb, if_true] at he ⊢
      split at he
      · rename_i hc
        simp only [Bool.and_eq_true, List.isEmpty_iff, decide_eq_true_eq] at hc
        simp only [Option.some.injEq] at he
        subst he
        have hL : r.1 = [] := by rw [hrL]; cases L with
          | nil => rfl
          | cons x xs => rw [← hkL] at hc; simp [kindsOf] at hc
        have : r.1 = [] ∧ r.2 < cur - back := ⟨hL, by omega⟩
        simp only [this, and_self, if_true]
        exact ⟨_, rfl, hrle⟩
      · simp at he
    · simp only [hb, Bool.false_eq_true, if_false] at he ⊢
      by_cases hen : e.isEnding = true
      · simp only [hen, if_true] at he ⊢
        split at he
        · rename_i hc
          simp only [Option.some.injEq] at he
          subst he
          have hlen : r.1.length = 1 := by
            rw [hrL, ← List.length_map (f := (·.1)) (as := L)]
            have : L.map (·.1) = evk := hkL
            rw [this]; simpa using hc
          cases hr1 : r.1 with
          | nil => simp [hr1] at hlen
          | cons x xs =>
            cases xs with
            | nil =>
              simp only
              refine ⟨_, rfl, ?_⟩
              simp only
              have : min ase back ≤ ase := Nat.min_le_left _ _
              have : min ase back ≤ back := Nat.min_le_right _ _
              omega
            | cons y ys => simp [hr1] at hlen
        · simp at he
      · simp only [hen, Bool.false_eq_true, if_false] at he ⊢
        split at he
        · rename_i hc
          simp only [Bool.and_eq_true, List.isEmpty_iff, decide_eq_true_eq] at hc
          simp only [Option.some.injEq] at he
          subst he
          have hL : r.1 = [] := by rw [hrL]; cases L with
            | nil => rfl
            | cons x xs => rw [← hkL] at hc; simp [kindsOf] at hc
          have : r.1 = [] ∧ r.2 < cur - back := ⟨hL, by omega⟩
          simp only [this, and_self, if_true]
          refine ⟨_, rfl, ?_⟩
          simp only
          have : min ase back ≤ back := Nat.min_le_right _ _
          omega
        · simp at he
  refine ⟨?_, hmp, hpar, hpos, hph', hord, hevsLe, hevsOne⟩
  rw [simQ_append, hq]
  simp only [Option.bind, simQ]
  unfold applyD at hd
  unfold applyK at hk
  by_cases hb : e.isBeginning = true
  · simp only [hb, if_true] at hd hk ⊢
    by_cases hbm : back ≤ mp
    · simp only [hbm, if_true, Option.some.injEq] at hd
      subst hd
      have h1 : 0 ≤ cur - back ∧ cur - back ≤ size := by omega
      simp only [h1, and_self, if_true]
      exact ⟨_, rfl, by omega, by omega, hdist⟩
    · simp [hbm] at hd
  · simp only [hb, Bool.false_eq_true, if_false] at hd hk ⊢
    by_cases he : e.isEnding = true
    · simp only [he, if_true] at hd hk ⊢
      cases evd with
      | nil => simp at hd
      | cons d rest =>
        cases L with
        | nil => exact hdist.elim
        | cons b L' =>
          simp only at hd
          split at hd
          · rename_i hcond
            simp only [Option.some.injEq] at hd
            subst hd
            simp only [Bool.and_eq_true, decide_eq_true_eq, Bool.or_eq_true, Bool.not_eq_true'] at hcond
            subst hkL
            simp only [kindsOf, List.map_cons] at hk
            have hm : Ev.matches b.1 e = true := by
              by_cases hm : Ev.matches b.1 e = true
              · exact hm
              · simp [hm] at hk
            have hbd := hdist.2.1
            have hlt' : cur - back < size := by
              rcases hcond.2 with h0 | h1
              · have := hlt h0; omega
              · omega
            have h1 : Ev.matches b.1 e = true ∧ b.2 ≤ cur - back + 1 ∧ cur - back < size := ⟨hm, by omega, hlt'⟩
            simp only [h1, and_self, if_true]
            exact ⟨_, rfl, hdist.2.2⟩
          · simp at hd
    · simp only [he, Bool.false_eq_true, if_false] at hd hk ⊢
      split at hd
      · rename_i hcond
        simp only [Option.some.injEq] at hd
        subst hd
        simp only [Bool.and_eq_true, decide_eq_true_eq, Bool.or_eq_true, Bool.not_eq_true'] at hcond
        have hlt' : cur - back < size := by
          rcases hcond.2 with h0 | h1
          · have := hlt h0; omega
          · omega
        have h1 : 0 ≤ cur - back ∧ cur - back < size := ⟨by omega, hlt'⟩
        simp only [h1, and_self, if_true]
        exact ⟨_, rfl, hdist⟩
      · simp at hd

theorem lexValue_wf (env : Env) (l : Lexeme) (h : WFLex env.size l) : ∃ v, env.lexValue l = some v := by
  obtain ⟨h1, h2, h3⟩ := h
  simp only [Env.lexValue, Env.sub]
  have : 0 ≤ l.b ∧ l.b ≤ l.e + 1 ∧ l.e + 1 ≤ (env.size : Int) := ⟨h1, h2, by omega⟩
  simp only [this, and_self, if_true]
  exact ⟨_, rfl⟩

theorem hasTypeOrAnyOrEmpty_wf (env : Env) (ps : List Lexeme) (h : ∀ l ∈ ps, WFLex env.size l) :
    ∃ b, hasTypeOrAnyOrEmpty env ps = some b := by
  induction ps with
  | nil => exact ⟨_, rfl⟩
  | cons l rest ih =>
    obtain ⟨v, hv⟩ := lexValue_wf env l (h l (by simp))
    simp only [hasTypeOrAnyOrEmpty, hv]
    split
    · exact ⟨_, rfl⟩
    · exact ih (fun x hx => h x (by simp [hx]))

theorem hasAnyOrEmpty_wf (env : Env) (ps : List Lexeme) (h : ∀ l ∈ ps, WFLex env.size l) :
    ∃ b, hasAnyOrEmpty env ps = some b := by
  induction ps with
  | nil => exact ⟨_, rfl⟩
  | cons l rest ih =>
    obtain ⟨v, hv⟩ := lexValue_wf env l (h l (by simp))
    simp only [hasAnyOrEmpty, hv]
    split
    · exact ⟨_, rfl⟩
    · exact ih (fun x hx => h x (by simp [hx]))

theorem hasRegex_wf (env : Env) (ps : List Lexeme) (h : ∀ l ∈ ps, WFLex env.size l) :
    ∃ b, hasRegex env ps = some b := by
  induction ps with
  | nil => exact ⟨_, rfl⟩
  | cons l rest ih =>
    obtain ⟨v, hv⟩ := lexValue_wf env l (h l (by simp))
    simp only [hasRegex, hv]
    split
    · exact ⟨_, rfl⟩
    · exact ih (fun x hx => h x (by simp [hx]))

/-- a safe condition evaluates without indexing outside the file -/
theorem evalCond_safe {σ} (env : Env) (s : Sc σ) (c : UInt8) (eofB : Bool) (mp : Nat) (cnd : Cond)
    (hs : condSafe eofB mp cnd = true) (hmp : (mp : Int) ≤ s.cur) (hle : s.cur ≤ env.size)
    (hlt : eofB = false → s.cur < env.size) (hpar : ∀ l ∈ s.params, WFLex env.size l) :
    ∃ b, evalCond env s c cnd = some b := by
  induction cnd with
  | byteEq _ => exact ⟨_, rfl⟩
  | byteLe _ => exact ⟨_, rfl⟩
  | byteGe _ => exact ⟨_, rfl⟩
  | eqCaseWs => exact ⟨_, rfl⟩
  | eqCaseNl => exact ⟨_, rfl⟩
  | isWs => exact ⟨_, rfl⟩
  | isNl => exact ⟨_, rfl⟩
  | dataBackEq back b =>
    simp only [condSafe, Bool.and_eq_true, decide_eq_true_eq, Bool.or_eq_true, Bool.not_eq_true'] at hs
    simp only [evalCond]
    have : 0 ≤ s.cur - back ∧ s.cur - back < env.size := by
      refine ⟨by omega, ?_⟩
      rcases hs.2 with h0 | h1
      · have := hlt h0; omega
      · omega
    simp only [this, and_self, if_true]
    exact ⟨_, rfl⟩
  | isDirective => exact ⟨_, rfl⟩
  | hasTypeOrAnyOrEmpty => exact hasTypeOrAnyOrEmpty_wf env s.params hpar
  | hasAnyOrEmpty => exact hasAnyOrEmpty_wf env s.params hpar
  | hasRegex => exact hasRegex_wf env s.params hpar
  | not a ih =>
    obtain ⟨b, hb⟩ := ih hs
    exact ⟨!b, by simp [evalCond, hb]⟩
  | and a b iha ihb =>
    simp only [condSafe, Bool.and_eq_true] at hs
    obtain ⟨x, hx⟩ := iha hs.1
    obtain ⟨y, hy⟩ := ihb hs.2
    cases x with
    | true => exact ⟨y, by simp [evalCond, hx, hy]⟩
    | false => exact ⟨false, by simp [evalCond, hx]⟩
  | or a b iha ihb =>
    simp only [condSafe, Bool.and_eq_true] at hs
    obtain ⟨x, hx⟩ := iha hs.1
    obtain ⟨y, hy⟩ := ihb hs.2
    cases x with
    | false => exact ⟨y, by simp [evalCond, hx, hy]⟩
    | true => exact ⟨true, by simp [evalCond, hx]⟩

/-- at the start of a byte -/
theorem concC_start {σ} (size : Int) (a : Abs σ) (s : Sc σ) (hc : Conc a s) (hx : ExtRel size a s)
    (hle : s.cur ≤ size) :
    ConcC ⟨s.cur, s.finds.length, a.lag, a.fresh, size, s.cur == size⟩ a.norm s :=
  ⟨hc, fun _ => rfl, ⟨fun _ => by simp [Abs.norm], fun h => by simp [Abs.norm] at h, by simp [Abs.norm], by simp [Abs.norm], rfl, rfl,
    fun h => by simp [Abs.norm] at h, fun h => by simp [Abs.norm] at h⟩, hx,
    hle, fun h => by
      have : s.cur ≠ size := by simpa using h
      simp only
      omega⟩

/-- what the real body does, in terms of the abstract tails -/
def TailOk {σ} (c0 : Snap) (tails : List (ATail σ)) : Tail σ → Prop
  | .done s' => ∃ a', ATail.done a' ∈ tails ∧ ConcC c0 a' s'
  | .call t s' => ∃ a', ATail.call t a' ∈ tails ∧ ConcC c0 a' s'
  | .redispatch s' => ∃ a', ATail.redispatch a' ∈ tails ∧ ConcC c0 a' s'
  | .fault f => ¬ Crash f

theorem tailOk_mono {σ} (c0 : Snap) (x y : List (ATail σ)) (t : Tail σ) (h : TailOk c0 x t) (hs : ∀ z ∈ x, z ∈ y) : TailOk c0 y t := by
  cases t with
  | done s' => obtain ⟨a', ha, hc⟩ := h; exact ⟨a', hs _ ha, hc⟩
  | call t' s' => obtain ⟨a', ha, hc⟩ := h; exact ⟨a', hs _ ha, hc⟩
  | redispatch s' => obtain ⟨a', ha, hc⟩ := h; exact ⟨a', hs _ ha, hc⟩
  | fault f => exact h

theorem ucErr_not_crash {σ} (env : Env) (s : Sc σ) (w e : String) : ¬ Crash (ucErr env s w e) := by
  unfold ucErr; split <;> simp [Crash]

theorem runProg_sound {σ} (env : Env) (c : UInt8) (c0 : Snap) (hsz : c0.size = env.size) (heof : c0.eof = (c == 0))
    (p : Prog σ) (a : Abs σ) (s : Sc σ) (tails : List (ATail σ))
    (hc : ConcC c0 a s) (h : absProg c p a = some tails) : TailOk c0 tails (runProg env c p s) := by
  induction p generalizing a s tails with
  | setStep t k ih =>
    simp only [absProg] at h
    simp only [runProg]
    exact ih { a with st := t } _ _ ⟨⟨rfl, hc.1.2.1, hc.1.2.2⟩, hc.2⟩ h
  | push t k ih =>
    simp only [absProg] at h
    simp only [runProg]
    obtain ⟨base, hb⟩ := hc.1.2.1
    refine ih { a with stk := capStk (t :: a.stk) } _ _ ⟨⟨hc.1.1, ?_, hc.1.2.2⟩, hc.2⟩ h
    obtain ⟨b', hb'⟩ := capStk_suffix (t :: a.stk) base
    exact ⟨b', by simp only [hb]; simpa using hb'⟩
  | pushCur k ih =>
    simp only [absProg] at h
    simp only [runProg]
    obtain ⟨base, hb⟩ := hc.1.2.1
    refine ih { a with stk := capStk (a.st :: a.stk) } _ _ ⟨⟨hc.1.1, ?_, hc.1.2.2⟩, hc.2⟩ h
    obtain ⟨b', hb'⟩ := capStk_suffix (a.st :: a.stk) base
    exact ⟨b', by simp only [hb, hc.1.1]; simpa using hb'⟩
  | popToStep k ih =>
    simp only [absProg] at h
    obtain ⟨base, hb⟩ := hc.1.2.1
    cases hs : a.stk with
    | nil => simp [hs] at h
    | cons t rest =>
      simp only [hs] at h
      have : s.stack = t :: (rest ++ base) := by rw [hb, hs]; rfl
      simp only [runProg, this]
      exact ih { a with st := t, stk := rest } _ _ ⟨⟨rfl, ⟨base, rfl⟩, hc.1.2.2⟩, hc.2⟩ h
  | found e back k ih =>
    simp only [absProg] at h
    cases hk : applyK a.evk e with
    | none => simp [hk] at h
    | some evk' =>
      cases hd : applyD (c == 0) a.mp a.evd e back with
      | none => simp [hk, hd] at h
      | some evd' =>
        cases hpp : applyP a.kwp e with
        | none => simp [hk, hd, hpp] at h
        | some kwp' =>
          cases hee : applyE a.evk a.se e back with
          | none => simp [hk, hd, hpp, hee] at h
          | some se' =>
          simp only [hk, hd, hpp, hee] at h
          by_cases hnf : a.nf < findCap
          · simp only [hnf, if_true] at h
            simp only [runProg]
            have hr := hc.2.2.1
            have hx := hc.2.2.2.1
            have hb := hc.2.2.2.2
            refine ih { a with evk := evk', evd := evd', kwp := kwp', se := se', nf := a.nf + 1 } _ _
              ⟨⟨hc.1.1, hc.1.2.1, ?_⟩, hc.2.1, ⟨hr.noJmp, hr.jmp, ?_, by simp only; omega, hr.lag, hr.fresh, hr.rewOk, hr.jmpOk⟩, ?_, hb⟩ h
            · simp only [kindsOf, List.map_append, List.map_cons, List.map_nil]
              have := hc.1.2.2
              simp only [kindsOf] at this
              rw [applyKs_append, this]
              exact hk
            · have := hr.nf
              simp only [List.length_append, List.length_cons, List.length_nil]
              omega
            · exact found_ext c0.size s.cur (c == 0) a.mp a.evd evd' a.evk evk' a.kwp kwp' s.ph a.se se' s.le s.evs s.finds s.params e back hx hc.1.2.2 hk hd hpp hee
                hb.1 (by rw [← heof]; exact hb.2)
          · simp [hnf] at h
  | curSub n k ih =>
    simp only [absProg] at h
    by_cases hg : (a.lag == 0 && a.fresh && a.rew == 0 && !a.jmp && decide (1 ≤ n) && decide (n ≤ rewCap) && decide (n ≤ a.mp) && a.evd.all (n ≤ ·) && decide (n ≤ a.se)) = true
    · simp only [hg, if_true] at h
      simp only [Bool.and_eq_true, beq_iff_eq, Bool.not_eq_true', decide_eq_true_eq, List.all_eq_true] at hg
      obtain ⟨⟨⟨⟨⟨⟨⟨⟨hlag, hfresh⟩, hrew⟩, hjmp⟩, _⟩, hcap⟩, hmpn⟩, hall⟩, hsen⟩ := hg
      have hr := hc.2.2.1
      have hx := hc.2.2.2.1
      have hb := hc.2.2.2.2
      have hmp := hx.mp
      simp only [runProg]
      have hnn : ¬ (s.cur - n < 0) := by omega
      simp only [hnn, if_false]
      refine ih { a with mv := true, rew := n, mp := a.mp - n, evd := a.evd.map (· - n), se := a.se - n } _ _ ⟨⟨hc.1.1, hc.1.2.1, hc.1.2.2⟩, by simp,
        ⟨?_, ?_, hr.nf, hr.nfCap, hr.lag, hr.fresh, ?_, ?_⟩, ⟨?_, ?_, hx.params, hx.evsPos, hx.ph, ?_, hx.evsLe, hx.evsOne⟩, ?_, ?_⟩ h
      · intro _
        have := hr.noJmp hjmp
        simp only [hrew] at this
        simp only
        omega
      · intro hj
        simp only [hjmp] at hj
        exact absurd hj (by simp)
      · intro _
        exact ⟨by rw [← hr.lag]; exact hlag, by rw [← hr.fresh]; exact hfresh, hcap⟩
      · intro hj
        simp only [hjmp] at hj
        exact absurd hj (by simp)
      · obtain ⟨L, hq, hdist⟩ := hx.q
        exact ⟨L, hq, DistOk_sub s.cur n L a.evd (fun d hd => by simpa using hall d hd) hdist⟩
      · simp only
        omega
      · obtain ⟨r, hr1, hr2⟩ := hx.ord
        exact ⟨r, hr1, by simp only; omega⟩
      · simp only; have := hb.1; omega
      · intro he; simp only; have := hb.1; omega
    · simp [hg] at h
  | readLen kind k ih =>
    simp only [absProg] at h
    by_cases hg : (a.lag == 0 && a.rew == 0) = true
    · simp only [hg, if_true] at h
      simp only [Bool.and_eq_true, beq_iff_eq] at hg
      obtain ⟨hlag, hrew⟩ := hg
      have hr := hc.2.2.1
      have hx := hc.2.2.2.1
      have hb := hc.2.2.2.2
      have hmp := hx.mp
      have hge : c0.cur ≤ s.cur := by
        by_cases hj : a.jmp = true
        · exact (hr.jmp hj).1
        · have := hr.noJmp (by simpa using hj)
          omega
      have hrel : ∀ s' : Sc σ, c0.cur ≤ s'.cur → s'.finds = s.finds →
          CurRel c0 { a with mv := true, jmp := true } s' := by
        intro s' hle hf
        refine ⟨by simp, fun _ => ⟨hle, hrew⟩, by rw [hf]; exact hr.nf, hr.nfCap, hr.lag, hr.fresh, ?_, ?_⟩
        · intro hne; exact absurd hrew hne
        · intro _; rw [← hr.lag]; exact hlag
      simp only [runProg]
      have hin : ¬ (s.cur < 0 ∨ s.cur > env.size) := by
        have := hb.1
        rw [hsz] at this
        omega
      simp only [hin, if_false]
      split
      · simp [TailOk, Crash]
      · rename_i n _
        by_cases hclip : s.cur + n > env.size
        · simp only [hclip, if_true]
          simp [TailOk, Crash]
        · simp only [hclip, if_false]
          by_cases hn : n > 0
          · simp only [hn, if_true]
            refine ih { a with mv := true, jmp := true } _ _ ⟨⟨hc.1.1, hc.1.2.1, hc.1.2.2⟩, by simp, hrel _ ?_ rfl,
              ⟨?_, ?_, hx.params, hx.evsPos, hx.ph, ?_, hx.evsLe, hx.evsOne⟩, ?_, ?_⟩ h
            · simp only; omega
            · obtain ⟨L, hq, hdist⟩ := hx.q
              exact ⟨L, hq, DistOk_mono s.cur _ (by simp only; omega) L a.evd hdist⟩
            · simp only; omega
            · obtain ⟨r, hr1, hr2⟩ := hx.ord
              exact ⟨r, hr1, by simp only; omega⟩
            · simp only; rw [hsz]; omega
            · intro _; simp only; rw [hsz]; omega
          · simp only [hn, if_false]
            exact ih { a with mv := true, jmp := true } _ _ ⟨⟨hc.1.1, hc.1.2.1, hc.1.2.2⟩, by simp, hrel _ hge rfl, hx, hb⟩ h
    · simp [hg] at h
  | ite cnd t e iht ihe =>
    simp only [absProg] at h
    by_cases hsafe : condSafe (c == 0) a.mp cnd = true
    · simp only [hsafe, Bool.not_true, Bool.false_eq_true, if_false] at h
      have hx := hc.2.2.2.1
      have hb := hc.2.2.2.2
      obtain ⟨bv, hbv⟩ := evalCond_safe env s c (c == 0) a.mp cnd hsafe hx.mp (by rw [← hsz]; exact hb.1)
        (by rw [← hsz, ← heof]; exact hb.2) (by rw [← hsz]; exact hx.params)
      simp only [runProg]
      cases hsc : simpleCond c cnd with
      | some b =>
        cases b with
        | true => simp only [hsc] at h; simp only [evalCond_simple env s c cnd true hsc]; exact iht _ _ _ hc h
        | false => simp only [hsc] at h; simp only [evalCond_simple env s c cnd false hsc]; exact ihe _ _ _ hc h
      | none =>
        simp only [hsc] at h
        cases hxx : absProg c t a with
        | none => simp [hxx] at h
        | some x =>
          cases hy : absProg c e a with
          | none => simp [hxx, hy] at h
          | some y =>
            simp only [hxx, hy, Option.some.injEq] at h
            subst h
            rw [hbv]
            cases bv with
            | true => exact tailOk_mono c0 x _ _ (iht _ _ _ hc hxx) (fun z hz => List.mem_append_left _ hz)
            | false => exact tailOk_mono c0 y _ _ (ihe _ _ _ hc hy) (fun z hz => List.mem_append_right _ hz)
    · simp [hsafe] at h
  | ok => simp only [absProg, Option.some.injEq] at h; subst h; exact ⟨a, by simp, hc⟩
  | redispatch => simp only [absProg, Option.some.injEq] at h; subst h; exact ⟨a, by simp, hc⟩
  | call t => simp only [absProg, Option.some.injEq] at h; subst h; exact ⟨a, by simp, hc⟩
  | failChar w e => simp only [runProg, TailOk]; exact ucErr_not_crash env s w e
  | failBasic m =>
    simp only [absProg] at h
    by_cases hm : (m == mismatchMsg) = true
    · simp [hm] at h
    · simp only [runProg, TailOk, Crash]
      simpa using hm

/-- step functions do not touch the ghost phase -/
def Tail.phIs {σ} (ph : Bool) (le : Int) : Tail σ → Prop
  | .done s' => s'.ph = ph ∧ s'.le = le
  | .call _ s' => s'.ph = ph ∧ s'.le = le
  | .redispatch s' => s'.ph = ph ∧ s'.le = le
  | .fault _ => True

theorem runProg_ph {σ} (env : Env) (c : UInt8) (p : Prog σ) (s : Sc σ) : (runProg env c p s).phIs s.ph s.le := by
  induction p generalizing s with
  | setStep t k ih => simp only [runProg]; exact ih _
  | push t k ih => simp only [runProg]; exact ih _
  | pushCur k ih => simp only [runProg]; exact ih _
  | popToStep k ih =>
    simp only [runProg]
    split
    · trivial
    · exact ih _
  | found e back k ih => simp only [runProg]; exact ih _
  | curSub n k ih =>
    simp only [runProg]
    split
    · trivial
    · exact ih _
  | readLen kind k ih =>
    simp only [runProg]
    split
    · trivial
    · split
      · trivial
      · split
        · trivial
        · split
          · exact ih _
          · exact ih _
  | ite cnd t e iht ihe =>
    simp only [runProg]
    split
    · trivial
    · exact iht _
    · exact ihe _
  | ok => simp [runProg, Tail.phIs]
  | redispatch => simp [runProg, Tail.phIs]
  | call t => simp [runProg, Tail.phIs]
  | failChar w e => simp [runProg, Tail.phIs]
  | failBasic m => simp [runProg, Tail.phIs]

theorem stepFuel_ph {σ} (env : Env) (prog : σ → Prog σ) (c : UInt8) (n : Nat) (st : σ) (s s' : Sc σ)
    (h : stepFuel env prog c n st s = .ok s') : s'.ph = s.ph ∧ s'.le = s.le := by
  induction n generalizing st s with
  | zero => simp [stepFuel] at h
  | succ n ih =>
    simp only [stepFuel] at h
    have hp := runProg_ph env c (prog st) s
    split at h
    · rename_i s1 hr
      rw [hr] at hp
      simp only [Except.ok.injEq] at h
      subst h
      exact hp
    · cases h
    · rename_i t s1 hr
      rw [hr] at hp
      have := ih t s1 h
      exact ⟨this.1.trans hp.1, this.2.trans hp.2⟩
    · rename_i s1 hr
      rw [hr] at hp
      have := ih _ s1 h
      exact ⟨this.1.trans hp.1, this.2.trans hp.2⟩

/-- the whole byte step, following tail calls -/
theorem stepFuel_sound {σ} (env : Env) (prog : σ → Prog σ) (c : UInt8) (c0 : Snap) (hsz : c0.size = env.size) (heof : c0.eof = (c == 0))
    (n : Nat) (st : σ) (a : Abs σ) (s : Sc σ)
    (outs : List (Abs σ)) (hc : ConcC c0 a s) (h : absStepFuel prog c n st a = some outs) :
    match stepFuel env prog c n st s with
    | .ok s' => ∃ a' ∈ outs, ConcC c0 a' s'
    | .error f => ¬ Crash f := by
  induction n generalizing st a s outs with
  | zero => simp [absStepFuel] at h
  | succ n ih =>
    simp only [absStepFuel] at h
    cases hp : absProg c (prog st) a with
    | none => simp [hp] at h
    | some tails =>
      simp only [hp] at h
      have hsound := runProg_sound env c c0 hsz heof (prog st) a s tails hc hp
      have hj := joinAll_mem _ _ h
      simp only [stepFuel]
      cases hr : runProg env c (prog st) s with
      | done s' =>
        rw [hr] at hsound
        obtain ⟨a', ha', hc'⟩ := hsound
        obtain ⟨x, hx, hsub⟩ := hj _ (List.mem_map.mpr ⟨_, ha', rfl⟩)
        simp only [Option.some.injEq] at hx
        subst hx
        exact ⟨a', hsub a' (by simp), hc'⟩
      | fault f => rw [hr] at hsound; dsimp only; exact hsound
      | call t s' =>
        rw [hr] at hsound
        obtain ⟨a', ha', hc'⟩ := hsound
        obtain ⟨x, hx, hsub⟩ := hj _ (List.mem_map.mpr ⟨_, ha', rfl⟩)
        have := ih t a' s' x hc' hx
        dsimp only
        revert this
        cases stepFuel env prog c n t s' with
        | ok s'' => rintro ⟨a'', ha'', hc''⟩; exact ⟨a'', hsub a'' ha'', hc''⟩
        | error f => exact id
      | redispatch s' =>
        rw [hr] at hsound
        obtain ⟨a', ha', hc'⟩ := hsound
        obtain ⟨x, hx, hsub⟩ := hj _ (List.mem_map.mpr ⟨_, ha', rfl⟩)
        have hst : s'.step = a'.st := hc'.1.1
        have := ih a'.st a' s' x hc' hx
        dsimp only
        rw [hst]
        revert this
        cases stepFuel env prog c n a'.st s' with
        | ok s'' => rintro ⟨a'', ha'', hc''⟩; exact ⟨a'', hsub a'' ha'', hc''⟩
        | error f => exact id


/-! ### the driver: event processing never pops an empty stack, never mismatches, and every lexeme
    it builds lies inside the file -/

theorem simP_cons (ph : Bool) (e : Ev) (rest : List Ev) (r : Bool) (h : simP ph (e :: rest) = some r) :
    ∃ p1, applyP ph e = some p1 ∧ simP p1 rest = some r := by
  simp only [simP] at h
  cases hp : applyP ph e with
  | none => simp [hp] at h
  | some p1 => simp only [hp] at h; exact ⟨p1, rfl, h⟩

/-- what a reported lexeme means for the ghost phase -/
def LexPh (ph0 ph1 : Bool) (l : Lexeme) : Prop := (phNeeds l.ty = true → ph0 = true) ∧ ph1 = phAfter ph0 l.ty

theorem applyP_lex (ph p1 : Bool) (e : Ev) (hb : e.isBeginning = false) (h : applyP ph e = some p1) :
    (phNeeds e.toLexType = true → ph = true) ∧ p1 = phAfter ph e.toLexType := by
  simp only [applyP, hb, Bool.false_eq_true, if_false] at h
  split at h
  · simp at h
  · rename_i hc
    simp only [Option.some.injEq] at h
    refine ⟨?_, h.symm⟩
    intro hn
    cases hph : ph with
    | true => rfl
    | false => simp [hn, hph] at hc

/-- what a reported lexeme means for the ghost end mark: it begins after everything reported before -/
def LexOrd (le0 le1 : Int) (l : Lexeme) : Prop := le0 < l.b ∧ le1 = max le0 l.e

theorem processEvent_sound {σ} (size : Int) (a : Abs σ) (s : Sc σ) (ev : Ev × Int) (rest : List (Ev × Int))
    (hf : s.finds = ev :: rest) (hc : Conc a s) (hx : ExtRel size a s) :
    ∃ lex s', processEvent { s with finds := rest } ev = .ok (lex, s') ∧ Conc a s' ∧ ExtRel size a s' ∧ s'.finds = rest ∧
      s'.cur = s.cur ∧ s'.params = s.params ∧
      (∀ l, lex = some l → WFLex size l ∧ LexPh s.ph s'.ph l ∧ LexOrd s.le s'.le l) ∧
      (lex = none → s'.ph = s.ph ∧ s'.le = s.le) := by
  obtain ⟨hstep, hstack, hk⟩ := hc
  obtain ⟨⟨L, hq, hdist⟩, hmp, hpar, hpos, hph, ⟨r, hr1, hr2⟩, hevsLe, hevsOne⟩ := hx
  simp only [hf, kindsOf, List.map_cons, applyKs] at hk
  simp only [hf, simQ] at hq
  simp only [hf, List.map_cons] at hph
  simp only [hf, simE] at hr1
  obtain ⟨p1, hp1, hprest⟩ := simP_cons _ _ _ _ hph
  unfold processEvent
  by_cases hb : ev.1.isBeginning = true
  · simp only [hb, if_true] at hq hr1 ⊢
    have hp1' : p1 = s.ph := by simp only [applyP, hb, if_true, Option.some.injEq] at hp1; exact hp1.symm
    subst hp1'
    split at hq
    · rename_i hpos0
      split at hr1
      · rename_i hce
        have hevs : s.evs = [] := hce.1
        refine ⟨_, _, rfl, ⟨hstep, hstack, ?_⟩, ⟨⟨L, hq, hdist⟩, hmp, hpar, ?_, hprest, ⟨r, by simpa [hevs] using hr1, hr2⟩, ?_, ?_⟩,
          rfl, rfl, rfl, by simp, fun _ => ⟨rfl, rfl⟩⟩
        · simp only [applyK, hb, if_true] at hk
          simpa [kindsOf] using hk
        · intro x hxm
          rcases List.mem_cons.mp hxm with rfl | hxm
          · exact hpos0.1
          · exact hpos x hxm
        · intro x hxm
          simp only [hevs, List.mem_cons, List.not_mem_nil, or_false] at hxm
          subst hxm
          exact hce.2
        · simp [hevs]
      · simp at hr1
    · simp at hq
  · have hbf : ev.1.isBeginning = false := by simpa using hb
    obtain ⟨hneed, hp1eq⟩ := applyP_lex s.ph p1 ev.1 hbf hp1
    subst hp1eq
    simp only [hb, Bool.false_eq_true, if_false] at hq hr1 ⊢
    by_cases he : ev.1.isEnding = true
    · simp only [he, if_true] at hq hr1 ⊢
      simp only [applyK, hb, Bool.false_eq_true, if_false, he, if_true] at hk
      cases hev : s.evs with
      | nil => simp [hev] at hk
      | cons st restEvs =>
        simp only [hev, List.map_cons] at hk hq hr1
        have hrestE : restEvs = [] := by
          cases restEvs with
          | nil => rfl
          | cons y ys => simp at hr1
        subst hrestE
        simp only at hr1
        split at hq
        · rename_i hcond
          simp only [hcond.1, if_true] at hk ⊢
          refine ⟨_, _, rfl, ⟨hstep, hstack, by simpa [kindsOf] using hk⟩,
            ⟨⟨L, hq, hdist⟩, hmp, hpar, ?_, hprest, ⟨r, hr1, hr2⟩, ?_, by simp⟩, rfl, rfl, rfl, ?_, by simp⟩
          · intro x hxm; simp at hxm
          · intro x hxm; simp at hxm
          · intro l hl
            simp only [Option.some.injEq] at hl
            subst hl
            exact ⟨⟨hpos st (by rw [hev]; simp), hcond.2.1, hcond.2.2⟩, ⟨hneed, rfl⟩, hevsLe st (by rw [hev]; simp), rfl⟩
        · simp at hq
    · simp only [he, Bool.false_eq_true, if_false] at hq hr1 ⊢
      simp only [applyK, hb, Bool.false_eq_true, if_false, he] at hk
      split at hq
      · rename_i hcond
        split at hr1
        · rename_i hce
          have hevs : s.evs = [] := hce.1
          refine ⟨_, _, rfl, ⟨hstep, hstack, by simpa [kindsOf] using hk⟩,
            ⟨⟨L, hq, hdist⟩, hmp, hpar, hpos, hprest, ⟨r, by simpa [hevs] using hr1, hr2⟩, ?_, hevsOne⟩, rfl, rfl, rfl, ?_, by simp⟩
          · intro x hxm; rw [hevs] at hxm; simp at hxm
          · intro l hl
            simp only [Option.some.injEq] at hl
            subst hl
            exact ⟨⟨hcond.1, by simp only; omega, hcond.2⟩, ⟨hneed, rfl⟩, hce.2, rfl⟩
        · simp at hr1
      · simp at hq

theorem drain_sound {σ} (size : Int) (a : Abs σ) (n : Nat) (s : Sc σ) (hn : n ≤ s.finds.length) (hc : Conc a s)
    (hx : ExtRel size a s) :
    ∃ lex s', drain n s = .ok (lex, s') ∧ Conc a s' ∧ ExtRel size a s' ∧ s'.cur = s.cur ∧
      s'.finds.length ≤ s.finds.length ∧
      (∀ l, lex = some l → WFLex size l ∧ LexPh s.ph s'.ph l ∧ LexOrd s.le s'.le l) ∧
      (lex = none → s'.ph = s.ph ∧ s'.le = s.le) := by
  induction n generalizing s with
  | zero => exact ⟨none, s, rfl, hc, hx, rfl, Nat.le_refl _, by simp, fun _ => ⟨rfl, rfl⟩⟩
  | succ n ih =>
    cases hfs : s.finds with
    | nil => simp [hfs] at hn
    | cons ev rest =>
      obtain ⟨lex, s', hp, hc', hx', hrest, hcur, hpar, hwf, hnone⟩ := processEvent_sound size a s ev rest hfs hc hx
      simp only [drain, hfs, hp]
      cases lex with
      | none =>
        have hn' : n ≤ s'.finds.length := by rw [hrest]; simp [hfs] at hn; omega
        obtain ⟨hph, hle⟩ := hnone rfl
        obtain ⟨lex2, s2, h2, hc2, hx2, hcur2, hlen2, hwf2, hnone2⟩ := ih s' hn' hc' hx'
        refine ⟨lex2, s2, h2, hc2, hx2, by rw [hcur2, hcur], by rw [hrest] at hlen2; simp only [List.length_cons]; omega, ?_, ?_⟩
        · intro l hl; rw [← hph, ← hle]; exact hwf2 l hl
        · intro hl; rw [← hph, ← hle]; exact hnone2 hl
      | some l =>
        obtain ⟨hl, hlp, hlo⟩ := hwf l rfl
        refine ⟨some l, _, rfl, ?_, ?_, ?_, ?_, ?_, by simp⟩
        · obtain ⟨h1, h2, h3⟩ := hc'
          cases l.ty <;> exact ⟨h1, h2, h3⟩
        · obtain ⟨hq, hmp, hpr, hpos, hph, hord, hel, heo⟩ := hx'
          cases hty : l.ty <;> first
            | exact ⟨hq, hmp, hpr, hpos, hph, hord, hel, heo⟩
            | (refine ⟨hq, hmp, ?_, hpos, hph, hord, hel, heo⟩
               intro x hxm
               simp only [List.mem_append, List.mem_singleton] at hxm
               rcases hxm with hxm | rfl
               · exact hpr x hxm
               · exact hl)
            | (refine ⟨hq, hmp, ?_, hpos, hph, hord, hel, heo⟩
               intro x hxm
               simp at hxm)
        · cases l.ty <;> exact hcur
        · have : s'.finds.length ≤ (ev :: rest).length := by rw [hrest]; simp
          cases l.ty <;> exact this
        · intro l' hl'
          simp only [Option.some.injEq] at hl'
          subst hl'
          refine ⟨hl, ?_, ?_⟩
          · revert hlp
            unfold LexPh
            cases l.ty <;> exact id
          · revert hlo
            unfold LexOrd
            cases l.ty <;> exact id

/-- what the closure check needs from the table and the input alphabet -/
structure TableOk {σ} [DecidableEq σ] (prog : σ → Prog σ) (inputs : List UInt8)
    (reachAt : σ → List (RKey σ)) : Prop where
  closed_ : ∀ st, closedAt prog inputs reachAt st = true
  /-- every non-zero byte behaves like one of the inputs in every step function -/
  rep : ∀ c : UInt8, c ≠ 0 → ∃ r ∈ inputs, ∀ st, progAgn c r (prog st) = true
  /-- the inputs are real bytes (0 is the end-of-file pseudo byte) -/
  nz : ∀ r ∈ inputs, r ≠ 0

/-- the scanner state is covered by the reach set, or the file has been read to its end -/
def Good {σ} [DecidableEq σ] (env : Env) (reachAt : σ → List (RKey σ)) (s : Sc σ) : Prop :=
  (∃ a, memR reachAt a = true ∧ Conc a s ∧ ExtRel env.size a s) ∨
  (s.cur > env.size ∧ ∃ a, Conc a s ∧ ExtRel env.size a s)

/-- outcome of a call of `Next` made in ghost phase `ph0` with ghost end mark `le0` -/
def ResOk {σ} [DecidableEq σ] (env : Env) (reachAt : σ → List (RKey σ)) (ph0 : Bool) (le0 : Int) :
    Except Fault (Option Lexeme × Sc σ) → Prop
  | .ok (lex, s') => Good env reachAt s' ∧ (∀ l, lex = some l → WFLex env.size l ∧ LexPh ph0 s'.ph l ∧ LexOrd le0 s'.le l) ∧
      (lex = none → s'.ph = ph0 ∧ s'.le = le0)
  | .error f => ¬ Crash f

theorem Good.cur_nonneg {σ} [DecidableEq σ] {env : Env} {reachAt : σ → List (RKey σ)} {s : Sc σ}
    (h : Good env reachAt s) : 0 ≤ s.cur := by
  rcases h with ⟨a, _, _, hx⟩ | ⟨_, a, _, hx⟩ <;> (have := hx.mp; omega)

theorem okAt_spec {σ} [DecidableEq σ] (prog : σ → Prog σ) (inputs : List UInt8)
    (reachAt : σ → List (RKey σ)) (a : Abs σ) (ht : ∀ st, closedAt prog inputs reachAt st = true)
    (ha : memR reachAt a = true) :
    (∃ outs, absByte prog a 0 = some outs ∧ ∀ o ∈ outs, o.mv = false ∨ memR reachAt o.next = true) ∧
    a.lag ≤ rewCap ∧
    (∀ r ∈ inputs, ∃ outs, absByte prog a r = some outs ∧ ∀ o ∈ outs, memR reachAt o.next = true) := by
  have h := ht a.st
  simp only [closedAt, List.all_eq_true] at h
  simp only [memR, List.contains_iff_mem] at ha
  have hok := h _ ha
  have hb : ∀ c, absByte prog { st := a.st, stk := a.stk, evk := a.evk, lag := a.lag, fresh := a.fresh, evd := a.evd, mp := a.mp, kwp := a.kwp, se := a.se } c = absByte prog a c := fun _ => rfl
  simp only [okAt, Bool.and_eq_true, List.all_eq_true, hb, decide_eq_true_eq] at hok
  obtain ⟨⟨h0, hlag⟩, hin⟩ := hok
  refine ⟨?_, hlag, ?_⟩
  · cases hx : absByte prog a 0 with
    | none => simp [hx] at h0
    | some outs =>
      refine ⟨outs, rfl, ?_⟩
      simp only [hx, List.all_eq_true, Bool.or_eq_true, Bool.not_eq_true'] at h0
      exact h0
  · intro r hr
    have := hin r hr
    cases hx : absByte prog a r with
    | none => simp [hx] at this
    | some outs =>
      refine ⟨outs, rfl, ?_⟩
      simpa [hx] using this

theorem zeroMsg_ne : ("File cannot contain byte zero" == mismatchMsg) = false := by decide

/-- the extent part at the start of the next byte -/
theorem extRel_next {σ} (size : Int) (a' : Abs σ) (s1 : Sc σ) (hx : ExtRel size a' s1) :
    ExtRel size a'.next ({ s1 with cur := s1.cur + 1 } : Sc σ) := by
  obtain ⟨⟨L, hq, hdist⟩, hmp, hpar, hpos, hph, ⟨r, hr1, hr2⟩, hevsLe, hevsOne⟩ := hx
  have hse : min posCap (a'.se + 1) ≤ a'.se + 1 := Nat.min_le_right _ _
  refine ⟨⟨L, hq, DistOk_next s1.cur L a'.evd hdist⟩, ?_, hpar, hpos, hph, ⟨r, hr1, by simp only [Abs.next]; omega⟩, hevsLe, hevsOne⟩
  have : min posCap (a'.mp + 1) ≤ a'.mp + 1 := Nat.min_le_right _ _
  simp only [Abs.next]
  omega

theorem nextLoop_sound {σ} [DecidableEq σ] (env : Env) (prog : σ → Prog σ) (inputs : List UInt8)
    (reachAt : σ → List (RKey σ)) (ht : TableOk prog inputs reachAt) (n : Nat) (s : Sc σ)
    (hg : Good env reachAt s) : ResOk env reachAt s.ph s.le (nextLoop env prog n s) := by
  induction n generalizing s with
  | zero => simp [nextLoop, ResOk, Crash]
  | succ n ih =>
    simp only [nextLoop]
    have hnn := hg.cur_nonneg
    have hneg : ¬ s.cur < 0 := by omega
    simp only [hneg, if_false]
    by_cases hgt : s.cur > env.size
    · simp only [hgt, if_true]; exact ⟨hg, by simp, fun _ => ⟨rfl, rfl⟩⟩
    · simp only [hgt, if_false]
      have hlive : ∃ a, memR reachAt a = true ∧ Conc a s ∧ ExtRel env.size a s := by
        rcases hg with h | ⟨hbig, _⟩
        · exact h
        · exact absurd hbig hgt
      obtain ⟨a, ha, hc, hx⟩ := hlive
      obtain ⟨⟨eouts, heo, heall⟩, _, hsucc⟩ := okAt_spec prog inputs reachAt a ht.closed_ ha
      have hst : s.step = a.st := hc.1
      have hcc := concC_start env.size a s hc hx (by omega)
      -- what follows a safe byte step
      have after : ∀ (s1 : Sc σ) (a' : Abs σ), Conc a' s1 → ExtRel env.size a' s1 → (s1.ph = s.ph ∧ s1.le = s.le) →
          (memR reachAt a'.next = true ∨ s1.cur + 1 > env.size) →
          ResOk env reachAt s.ph s.le
            (match drain ({ s1 with cur := s1.cur + 1 } : Sc σ).finds.length { s1 with cur := s1.cur + 1 } with
             | .error f => .error f
             | .ok (some lex, s3) => .ok (some lex, s3)
             | .ok (none, s3) => nextLoop env prog n s3) := by
        intro s1 a' hc1 hx1 hph1 hor
        have hc2 : Conc a'.next ({ s1 with cur := s1.cur + 1 } : Sc σ) := hc1
        have hx2 := extRel_next env.size a' s1 hx1
        obtain ⟨lex, s3, hd, hc3, hx3, hcur3, _, hwf, hnone⟩ := drain_sound env.size a'.next _ _ (Nat.le_refl _) hc2 hx2
        rw [hd]
        have hg3 : Good env reachAt s3 := by
          rcases hor with hm | hp
          · exact Or.inl ⟨a'.next, hm, hc3, hx3⟩
          · exact Or.inr ⟨by rw [hcur3]; exact hp, a'.next, hc3, hx3⟩
        cases lex with
        | some l => exact ⟨hg3, fun l' hl' => by rw [← hph1.1, ← hph1.2]; exact hwf l' hl', by simp⟩
        | none =>
          have h3 : s3.ph = s.ph ∧ s3.le = s.le := by rw [← hph1.1, ← hph1.2]; exact hnone rfl
          rw [← h3.1, ← h3.2]; exact ih s3 hg3
      by_cases hend : (s.cur == (env.size : Int)) = true
      · -- end of file: the pseudo byte 0
        simp only [hend, if_true, Bool.not_true, Bool.false_and, Bool.false_eq_true, if_false]
        have hs := stepFuel_sound env prog 0 ⟨s.cur, s.finds.length, a.lag, a.fresh, env.size, s.cur == env.size⟩ rfl
          (by simp [hend]) chainFuel s.step a.norm s eouts hcc (by rw [hst]; exact heo)
        revert hs
        cases hsf : stepFuel env prog 0 chainFuel s.step s with
        | error f => exact id
        | ok s1 =>
          rintro ⟨a', ha', hc', hcur', _, hx', _⟩
          refine after s1 a' hc' hx' (stepFuel_ph env prog 0 chainFuel s.step s s1 hsf) ?_
          rcases heall a' ha' with hmv | hm
          · right
            have : s1.cur = s.cur := hcur' hmv
            have hsz : s.cur = env.size := by simpa using hend
            omega
          · exact Or.inl hm
      · simp only [hend, Bool.not_false, Bool.true_and, Bool.false_eq_true, if_false]
        generalize hcdef : env.data.getD s.cur.toNat 0 = c
        by_cases hz : (c == 0) = true
        · rw [if_pos hz]
          simp only [ResOk, Crash]
          simpa using zeroMsg_ne
        · rw [if_neg hz]
          have hc0 : c ≠ 0 := by simpa using hz
          obtain ⟨r, hr, hagn⟩ := ht.rep c hc0
          rw [stepFuel_agnostic env prog c r hagn chainFuel s.step s]
          obtain ⟨outs, houts, hall⟩ := hsucc r hr
          have hrz : (r == 0) = false := by simpa using ht.nz r hr
          have hs := stepFuel_sound env prog r ⟨s.cur, s.finds.length, a.lag, a.fresh, env.size, s.cur == env.size⟩ rfl
            (by simp only [hrz]; simpa using hend) chainFuel s.step a.norm s outs hcc (by rw [hst]; exact houts)
          revert hs
          cases hsf : stepFuel env prog r chainFuel s.step s with
          | error f => exact id
          | ok s1 =>
            rintro ⟨a', ha', hc', _, _, hx', _⟩
            exact after s1 a' hc' hx' (stepFuel_ph env prog r chainFuel s.step s s1 hsf) (Or.inl (hall a' ha'))

theorem next_sound {σ} [DecidableEq σ] (env : Env) (prog : σ → Prog σ) (inputs : List UInt8)
    (reachAt : σ → List (RKey σ)) (ht : TableOk prog inputs reachAt) (fuel : Nat) (s : Sc σ)
    (hg : Good env reachAt s) : ResOk env reachAt s.ph s.le (next env prog fuel s) := by
  unfold next
  cases hfs : s.finds with
  | nil => exact nextLoop_sound env prog inputs reachAt ht fuel s hg
  | cons ev rest =>
    dsimp only
    have : ∃ lex s', processEvent { s with finds := rest } ev = .ok (lex, s') ∧ Good env reachAt s' ∧
        (∀ l, lex = some l → WFLex env.size l ∧ LexPh s.ph s'.ph l ∧ LexOrd s.le s'.le l) ∧ (lex = none → s'.ph = s.ph ∧ s'.le = s.le) := by
      rcases hg with ⟨a, ha, hc, hx⟩ | ⟨hbig, a, hc, hx⟩
      · obtain ⟨lex, s', hp, hc', hx', _, _, _, hwf, hnone⟩ := processEvent_sound env.size a s ev rest hfs hc hx
        exact ⟨lex, s', hp, Or.inl ⟨a, ha, hc', hx'⟩, hwf, hnone⟩
      · obtain ⟨lex, s', hp, hc', hx', _, hcur, _, hwf, hnone⟩ := processEvent_sound env.size a s ev rest hfs hc hx
        exact ⟨lex, s', hp, Or.inr ⟨by rw [hcur]; exact hbig, a, hc', hx'⟩, hwf, hnone⟩
    obtain ⟨lex, s', hp, hg', hwf, hnone⟩ := this
    rw [hp]
    cases lex with
    | some l => exact ⟨hg', hwf, by simp⟩
    | none =>
      have := nextLoop_sound env prog inputs reachAt ht fuel s' hg'
      rw [(hnone rfl).1, (hnone rfl).2] at this
      exact this

/-- how a whole scan ends, and what it has produced -/
theorem scanFrom_sound {σ} [DecidableEq σ] (env : Env) (prog : σ → Prog σ) (inputs : List UInt8)
    (reachAt : σ → List (RKey σ)) (ht : TableOk prog inputs reachAt) (fuel n : Nat) (s : Sc σ)
    (acc : List Lexeme) (hg : Good env reachAt s) (hacc : ∀ l ∈ acc, WFLex env.size l) :
    (∀ f, (scanFrom env prog fuel n s acc).2.1 = .fault f → ¬ Crash f) ∧
    (∀ l ∈ (scanFrom env prog fuel n s acc).1, WFLex env.size l) := by
  induction n generalizing s acc with
  | zero =>
    simp only [scanFrom]
    exact ⟨fun f hf => by cases hf; simp [Crash], fun l hl => hacc l (by simpa using hl)⟩
  | succ n ih =>
    simp only [scanFrom]
    have hn := next_sound env prog inputs reachAt ht fuel s hg
    revert hn
    cases next env prog fuel s with
    | error f' =>
      intro hn
      exact ⟨fun f hf => by simp only [End.fault.injEq] at hf; subst hf; exact hn, fun l hl => hacc l (by simpa using hl)⟩
    | ok r =>
      obtain ⟨lex, s'⟩ := r
      cases lex with
      | none => intro _; exact ⟨fun f hf => by simp at hf, fun l hl => hacc l (by simpa using hl)⟩
      | some l =>
        intro hn
        exact ih s' (l :: acc) hn.1 (fun x hx => by
          rcases List.mem_cons.mp hx with rfl | hx
          · exact (hn.2.1 _ rfl).1
          · exact hacc x hx)

/-- lexemes in text order without overlap: each begins after the end of every earlier one (`le` = the
    largest end position so far) -/
def OrderedFrom : Int → List Lexeme → Prop
  | _, [] => True
  | le, l :: rest => le < l.b ∧ OrderedFrom (max le l.e) rest

def leAfter (le : Int) (ls : List Lexeme) : Int := ls.foldl (fun m l => max m l.e) le

theorem orderedFrom_append (le : Int) (ls : List Lexeme) (l : Lexeme) (h : OrderedFrom le ls) (hl : leAfter le ls < l.b) :
    OrderedFrom le (ls ++ [l]) := by
  induction ls generalizing le with
  | nil => exact ⟨by simpa [leAfter] using hl, trivial⟩
  | cons x rest ih =>
    exact ⟨h.1, ih (max le x.e) h.2 (by simpa [leAfter] using hl)⟩

theorem leAfter_append (le : Int) (ls : List Lexeme) (l : Lexeme) : leAfter le (ls ++ [l]) = max (leAfter le ls) l.e := by
  simp [leAfter, List.foldl_append]

/-- the lexemes of a whole scan come in text order and do not overlap -/
theorem scanFrom_ordered {σ} [DecidableEq σ] (env : Env) (prog : σ → Prog σ) (inputs : List UInt8)
    (reachAt : σ → List (RKey σ)) (ht : TableOk prog inputs reachAt) (fuel n : Nat) (le0 : Int) (s : Sc σ)
    (acc : List Lexeme) (hg : Good env reachAt s) (hord : OrderedFrom le0 acc.reverse) (hle : s.le = leAfter le0 acc.reverse) :
    OrderedFrom le0 (scanFrom env prog fuel n s acc).1 := by
  induction n generalizing s acc with
  | zero => simpa [scanFrom] using hord
  | succ n ih =>
    simp only [scanFrom]
    have hn := next_sound env prog inputs reachAt ht fuel s hg
    revert hn
    cases next env prog fuel s with
    | error f' => intro _; simpa using hord
    | ok r =>
      obtain ⟨lex, s'⟩ := r
      cases lex with
      | none => intro _; simpa using hord
      | some l =>
        intro hn
        obtain ⟨_, _, hlo⟩ := hn.2.1 l rfl
        refine ih s' (l :: acc) hn.1 ?_ ?_
        · simp only [List.reverse_cons]
          exact orderedFrom_append le0 _ l hord (by rw [← hle]; exact hlo.1)
        · simp only [List.reverse_cons]
          rw [leAfter_append, ← hle]
          exact hlo.2

/-- the initial state is covered as soon as the reach set has the root entry -/
theorem good_init {σ} [DecidableEq σ] (env : Env) (reachAt : σ → List (RKey σ)) (root : σ)
    (h : (reachAt root).contains ([], [], 0, true, [], 0, false, 1) = true) : Good env reachAt (Sc.init root) :=
  Or.inl ⟨{ st := root, stk := [], evk := [] }, h, ⟨rfl, ⟨[], rfl⟩, rfl⟩,
    ⟨⟨[], rfl, trivial⟩, by simp [Sc.init], by simp [Sc.init], by simp [Sc.init], rfl,
      ⟨([], -1), rfl, by simp [Sc.init]⟩, by simp [Sc.init], by simp [Sc.init]⟩⟩

end JsightVerif.Model
