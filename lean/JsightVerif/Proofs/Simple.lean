import JsightVerif.Model.Scanner
/-
  Data-independent ("simple") step programs: their effect is a function of the
  program and the current byte only.  `runProg_simple` is proved once, by
  induction on the program, and lets table-level facts (closed terms, `decide`)
  speak about the real interpreter `runProg` for every environment and state.
-/
namespace JsightVerif.Model

/-- conditions that only look at the current byte -/
def simpleCond (c : UInt8) : Cond → Option Bool
  | .byteEq b => some (c.toNat == b)
  | .byteLe b => some (decide (c.toNat ≤ b))
  | .byteGe b => some (decide (b ≤ c.toNat))
  | .eqCaseWs => some (c == caseWhitespace c)
  | .eqCaseNl => some (c == caseNewLine c)
  | .isWs => some (isSpaceB c)
  | .isNl => some (isNewLineB c)
  | .not a => (simpleCond c a).map (!·)
  | .and a b =>
    match simpleCond c a with
    | some true => simpleCond c b
    | r => r
  | .or a b =>
    match simpleCond c a with
    | some false => simpleCond c b
    | r => r
  | _ => none

theorem evalCond_simple {σ} (env : Env) (s : Sc σ) (c : UInt8) (cnd : Cond) (b : Bool)
    (h : simpleCond c cnd = some b) : evalCond env s c cnd = some b := by
  induction cnd generalizing b with
  | byteEq _ => simpa [simpleCond, evalCond] using h
  | byteLe _ => simpa [simpleCond, evalCond] using h
  | byteGe _ => simpa [simpleCond, evalCond] using h
  | eqCaseWs => simpa [simpleCond, evalCond] using h
  | eqCaseNl => simpa [simpleCond, evalCond] using h
  | isWs => simpa [simpleCond, evalCond] using h
  | isNl => simpa [simpleCond, evalCond] using h
  | dataBackEq _ _ => simp [simpleCond] at h
  | isDirective => simp [simpleCond] at h
  | hasTypeOrAnyOrEmpty => simp [simpleCond] at h
  | hasAnyOrEmpty => simp [simpleCond] at h
  | hasRegex => simp [simpleCond] at h
  | not a ih =>
    simp only [simpleCond, Option.map_eq_some_iff] at h
    obtain ⟨x, hx, rfl⟩ := h
    simp [evalCond, ih x hx]
  | and a b' iha ihb =>
    simp only [simpleCond] at h
    cases ha : simpleCond c a with
    | none => simp [ha] at h
    | some x =>
      cases x with
      | true => simp only [ha] at h; simp [evalCond, iha true ha, ihb b h]
      | false => simp only [ha] at h; cases h; simp [evalCond, iha false ha]
  | or a b' iha ihb =>
    simp only [simpleCond] at h
    cases ha : simpleCond c a with
    | none => simp [ha] at h
    | some x =>
      cases x with
      | false => simp only [ha] at h; simp [evalCond, iha false ha, ihb b h]
      | true => simp only [ha] at h; cases h; simp [evalCond, iha true ha]

/-- primitive effects of simple programs -/
inductive Prim (σ : Type) where
  | setStep (t : σ) | push (t : σ) | found (e : Ev) (back : Nat)
  deriving DecidableEq, Repr

def Prim.apply {σ} : Prim σ → Sc σ → Sc σ
  | .setStep t, s => { s with step := t }
  | .push t, s => { s with stack := t :: s.stack }
  | .found e back, s => { s with finds := s.finds ++ [(e, s.cur - back)] }

def applyPrims {σ} : List (Prim σ) → Sc σ → Sc σ
  | [], s => s
  | p :: ps, s => applyPrims ps (p.apply s)

/-- outcome of a simple program on a byte -/
inductive SOut (σ : Type) where
  | ok (acts : List (Prim σ))
  | failChar (acts : List (Prim σ)) (w e : String)
  | failBasic (acts : List (Prim σ)) (m : String)
  | call (acts : List (Prim σ)) (t : σ)
  | redispatch (acts : List (Prim σ))
  | notSimple
  deriving DecidableEq, Repr

def SOut.cons {σ} (p : Prim σ) : SOut σ → SOut σ
  | .ok a => .ok (p :: a)
  | .failChar a w e => .failChar (p :: a) w e
  | .failBasic a m => .failBasic (p :: a) m
  | .call a t => .call (p :: a) t
  | .redispatch a => .redispatch (p :: a)
  | .notSimple => .notSimple

def simpleEval {σ} (c : UInt8) : Prog σ → SOut σ
  | .setStep t k => (simpleEval c k).cons (.setStep t)
  | .push t k => (simpleEval c k).cons (.push t)
  | .found e back k => (simpleEval c k).cons (.found e back)
  | .ite cnd t e =>
    match simpleCond c cnd with
    | some true => simpleEval c t
    | some false => simpleEval c e
    | none => .notSimple
  | .ok => .ok []
  | .failChar w e => .failChar [] w e
  | .failBasic m => .failBasic [] m
  | .call t => .call [] t
  | .redispatch => .redispatch []
  | _ => .notSimple

/-- what `runProg` does, given the simple outcome -/
def SOut.toTail {σ} (env : Env) (s : Sc σ) : SOut σ → Option (Tail σ)
  | .ok a => some (.done (applyPrims a s))
  | .failChar a w e => some (.fault (ucErr env (applyPrims a s) w e))
  | .failBasic a m => some (.fault (.err (.basic m) (applyPrims a s).cur))
  | .call a t => some (.call t (applyPrims a s))
  | .redispatch a => some (.redispatch (applyPrims a s))
  | .notSimple => none

theorem toTail_cons {σ} (env : Env) (s : Sc σ) (p : Prim σ) (o : SOut σ) :
    (o.cons p).toTail env s = o.toTail env (p.apply s) := by
  cases o <;> simp [SOut.cons, SOut.toTail, applyPrims]

/-- The real interpreter agrees with the byte-only evaluation, for every environment and state. -/
theorem runProg_simple {σ} (env : Env) (c : UInt8) (p : Prog σ) (s : Sc σ) (t : Tail σ)
    (h : (simpleEval c p).toTail env s = some t) : runProg env c p s = t := by
  induction p generalizing s with
  | setStep t' k ih =>
    simp only [simpleEval, toTail_cons] at h
    simpa [runProg, Prim.apply] using ih _ h
  | push t' k ih =>
    simp only [simpleEval, toTail_cons] at h
    simpa [runProg, Prim.apply] using ih _ h
  | found e back k ih =>
    simp only [simpleEval, toTail_cons] at h
    simpa [runProg, Prim.apply] using ih _ h
  | ite cnd a b iha ihb =>
    simp only [simpleEval] at h
    cases hc : simpleCond c cnd with
    | none => simp [hc, SOut.toTail] at h
    | some x =>
      cases x with
      | true => simp only [hc] at h; simp [runProg, evalCond_simple env s c cnd true hc, iha s h]
      | false => simp only [hc] at h; simp [runProg, evalCond_simple env s c cnd false hc, ihb s h]
  | ok => simp [simpleEval, SOut.toTail, applyPrims] at h; simp [runProg, h]
  | failChar w e => simp [simpleEval, SOut.toTail, applyPrims] at h; simp [runProg, h]
  | failBasic m => simp [simpleEval, SOut.toTail, applyPrims] at h; simp [runProg, h]
  | call t' => simp [simpleEval, SOut.toTail, applyPrims] at h; simp [runProg, h]
  | redispatch => simp [simpleEval, SOut.toTail, applyPrims] at h; simp [runProg, h]
  | pushCur k _ => simp [simpleEval, SOut.toTail] at h
  | popToStep k _ => simp [simpleEval, SOut.toTail] at h
  | curSub n k _ => simp [simpleEval, SOut.toTail] at h
  | readLen kind k _ => simp [simpleEval, SOut.toTail] at h

end JsightVerif.Model
