import JsightVerif.Proofs.Simple
/-
  Byte-agnostic programs: when every byte test of a step program answers the same on two bytes,
  the real interpreter does exactly the same on both (all environments, all states).
-/
namespace JsightVerif.Model

/-- every byte test inside the condition answers the same on `a` and `b` -/
def condAgn (a b : UInt8) : Cond → Bool
  | .byteEq x => (a.toNat == x) == (b.toNat == x)
  | .byteLe x => decide (a.toNat ≤ x) == decide (b.toNat ≤ x)
  | .byteGe x => decide (x ≤ a.toNat) == decide (x ≤ b.toNat)
  | .eqCaseWs => (a == caseWhitespace a) == (b == caseWhitespace b)
  | .eqCaseNl => (a == caseNewLine a) == (b == caseNewLine b)
  | .isWs => isSpaceB a == isSpaceB b
  | .isNl => isNewLineB a == isNewLineB b
  | .not c => condAgn a b c
  | .and c d => condAgn a b c && condAgn a b d
  | .or c d => condAgn a b c && condAgn a b d
  | _ => true

theorem evalCond_agn {σ} (env : Env) (s : Sc σ) (a b : UInt8) (cnd : Cond) (h : condAgn a b cnd = true) :
    evalCond env s a cnd = evalCond env s b cnd := by
  induction cnd with
  | byteEq x => simp only [condAgn, beq_iff_eq] at h; simp [evalCond, h]
  | byteLe x => simp only [condAgn, beq_iff_eq] at h; simp [evalCond, h]
  | byteGe x => simp only [condAgn, beq_iff_eq] at h; simp [evalCond, h]
  | eqCaseWs => simp only [condAgn, beq_iff_eq] at h; simp [evalCond, h]
  | eqCaseNl => simp only [condAgn, beq_iff_eq] at h; simp [evalCond, h]
  | isWs => simp only [condAgn, beq_iff_eq] at h; simp [evalCond, h]
  | isNl => simp only [condAgn, beq_iff_eq] at h; simp [evalCond, h]
  | dataBackEq _ _ => rfl
  | isDirective => rfl
  | hasTypeOrAnyOrEmpty => rfl
  | hasAnyOrEmpty => rfl
  | hasRegex => rfl
  | not c ih => simp only [condAgn] at h; simp [evalCond, ih h]
  | and c d ihc ihd =>
    simp only [condAgn, Bool.and_eq_true] at h
    simp [evalCond, ihc h.1, ihd h.2]
  | or c d ihc ihd =>
    simp only [condAgn, Bool.and_eq_true] at h
    simp [evalCond, ihc h.1, ihd h.2]

def progAgn {σ} (a b : UInt8) : Prog σ → Bool
  | .setStep _ k | .push _ k | .pushCur k | .popToStep k | .found _ _ k | .curSub _ k | .readLen _ k => progAgn a b k
  | .ite c t e => condAgn a b c && progAgn a b t && progAgn a b e
  | _ => true

/-- japiErrorUnexpectedChar does not look at the byte either (only at cursor vs size) -/
theorem runProg_agnostic {σ} (env : Env) (a b : UInt8) (p : Prog σ) (s : Sc σ) (h : progAgn a b p = true) :
    runProg env a p s = runProg env b p s := by
  induction p generalizing s with
  | setStep t k ih => simp only [progAgn] at h; simp [runProg, ih _ h]
  | push t k ih => simp only [progAgn] at h; simp [runProg, ih _ h]
  | pushCur k ih => simp only [progAgn] at h; simp [runProg, ih _ h]
  | popToStep k ih => simp only [progAgn] at h; simp only [runProg]; split <;> simp [ih _ h]
  | found e n k ih => simp only [progAgn] at h; simp [runProg, ih _ h]
  | curSub n k ih => simp only [progAgn] at h; simp only [runProg]; split <;> simp [ih _ h]
  | readLen kind k ih =>
    simp only [progAgn] at h
    simp only [runProg]
    split
    · rfl
    · split <;> simp [ih _ h]
  | ite c t e iht ihe =>
    simp only [progAgn, Bool.and_eq_true] at h
    simp only [runProg, evalCond_agn env s a b c h.1.1]
    split <;> simp [iht _ h.1.2, ihe _ h.2]
  | ok => rfl
  | redispatch => rfl
  | call t => rfl
  | failChar w e => rfl
  | failBasic m => rfl


/-- whole byte step (with tail calls) -/
theorem stepFuel_agnostic {σ} (env : Env) (prog : σ → Prog σ) (a b : UInt8) (h : ∀ st, progAgn a b (prog st) = true)
    (n : Nat) (st : σ) (s : Sc σ) : stepFuel env prog a n st s = stepFuel env prog b n st s := by
  induction n generalizing st s with
  | zero => rfl
  | succ n ih =>
    simp only [stepFuel, runProg_agnostic env a b (prog st) s (h st)]
    split <;> simp [ih]

end JsightVerif.Model
