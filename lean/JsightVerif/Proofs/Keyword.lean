import JsightVerif.Proofs.Simple
/-
  The keyword automaton extracted from a step table, its language as a finite
  list computed by exhaustive exploration over all 256 bytes, and the proof that
  the list is exactly the language (`explore_spec`) — for words of every length.
-/
namespace JsightVerif.Model

inductive KStep (σ : Type) where
  | goto (t : σ) | accept (r : σ) | reject | bad
  deriving DecidableEq, Repr

/-- one letter state on one byte, read off the table through `simpleEval` -/
def kstep {σ} [DecidableEq σ] (prog : σ → Prog σ) (pa : σ) (st : σ) (c : UInt8) : KStep σ :=
  match simpleEval c (prog st) with
  | .ok [.setStep t] => .goto t
  | .ok [.found .KeywordEnd 0, .push r, .setStep t] => if t = pa then .accept r else .bad
  | .failChar [] _ _ => .reject
  | .failBasic [] _ => .reject
  | _ => .bad

/-- the directive-start state on the first byte of a word: begins a keyword or not -/
def kstart {σ} (prog : σ → Prog σ) (start : σ) (c : UInt8) : Option σ :=
  match simpleEval c (prog start) with
  | .ok [.found .KeywordBegin 0, .setStep t] => some t
  | _ => none

def allBytes : List UInt8 := (List.range 256).map (·.toUInt8)

theorem mem_allBytes (b : UInt8) : b ∈ allBytes := by
  simp only [allBytes, List.mem_map, List.mem_range]
  exact ⟨b.toNat, b.toNat_lt, by simp⟩

def collect {α} (f : UInt8 → Option (List α)) : List UInt8 → Option (List α)
  | [] => some []
  | b :: bs =>
    match f b, collect f bs with
    | some x, some y => some (x ++ y)
    | _, _ => none

theorem collect_mem {α} (f : UInt8 → Option (List α)) (bs : List UInt8) (L : List α)
    (h : collect f bs = some L) (a : α) :
    a ∈ L ↔ ∃ b ∈ bs, ∃ x, f b = some x ∧ a ∈ x := by
  induction bs generalizing L with
  | nil => simp [collect] at h; subst h; simp
  | cons b bs ih =>
    simp only [collect] at h
    cases hb : f b with
    | none => simp [hb] at h
    | some x =>
      cases hr : collect f bs with
      | none => simp [hb, hr] at h
      | some y =>
        simp only [hb, hr, Option.some.injEq] at h
        subst h
        simp only [List.mem_append, List.mem_cons, ih y hr]
        constructor
        · rintro (h1 | ⟨b', hb', x', hx', ha⟩)
          · exact ⟨b, Or.inl rfl, x, hb, h1⟩
          · exact ⟨b', Or.inr hb', x', hx', ha⟩
        · rintro ⟨b', (rfl | hb'), x', hx', ha⟩
          · rw [hb] at hx'; cases hx'; exact Or.inl ha
          · exact Or.inr ⟨b', hb', x', hx', ha⟩

theorem collect_all {α} (f : UInt8 → Option (List α)) (bs : List UInt8) (L : List α)
    (h : collect f bs = some L) : ∀ b ∈ bs, ∃ x, f b = some x := by
  induction bs generalizing L with
  | nil => simp
  | cons b bs ih =>
    simp only [collect] at h
    cases hb : f b with
    | none => simp [hb] at h
    | some x =>
      cases hr : collect f bs with
      | none => simp [hb, hr] at h
      | some y =>
        intro b' hb'
        rcases List.mem_cons.mp hb' with rfl | hb'
        · exact ⟨x, hb⟩
        · exact ih y hr b' hb'

def exploreStep {σ} (k : σ → UInt8 → KStep σ) (rec : σ → Option (List (Bytes × σ))) (st : σ) (b : UInt8) :
    Option (List (Bytes × σ)) :=
  match k st b with
  | .reject => some []
  | .accept r => some [([b], r)]
  | .goto t => (rec t).map (fun l => l.map fun wr => (b :: wr.1, wr.2))
  | .bad => none

/-- all accepted words from `st` (with the state pushed on acceptance); `none` if the
    fuel runs out before every path has ended or a state is not a letter state -/
def explore {σ} (k : σ → UInt8 → KStep σ) : Nat → σ → Option (List (Bytes × σ))
  | 0, _ => none
  | n + 1, st => collect (exploreStep k (explore k n) st) allBytes

/-- acceptance by the automaton -/
def krun {σ} (k : σ → UInt8 → KStep σ) : σ → Bytes → Option σ
  | _, [] => none
  | st, b :: w =>
    match k st b with
    | .goto t => krun k t w
    | .accept r => if w = [] then some r else none
    | _ => none

theorem explore_spec {σ} (k : σ → UInt8 → KStep σ) (n : Nat) (st : σ) (L : List (Bytes × σ))
    (h : explore k n st = some L) (w : Bytes) (r : σ) :
    krun k st w = some r ↔ (w, r) ∈ L := by
  induction n generalizing st L w r with
  | zero => simp [explore] at h
  | succ n ih =>
    simp only [explore] at h
    rw [collect_mem _ _ _ h]
    constructor
    · intro hk
      cases w with
      | nil => simp [krun] at hk
      | cons b w' =>
        obtain ⟨x, hx⟩ := collect_all _ _ _ h b (mem_allBytes b)
        refine ⟨b, mem_allBytes b, x, hx, ?_⟩
        simp only [krun] at hk
        simp only [exploreStep] at hx
        cases hkb : k st b with
        | goto t =>
          simp only [hkb] at hk hx
          cases hr : explore k n t with
          | none => simp [hr] at hx
          | some L' =>
            simp only [hr, Option.map_some, Option.some.injEq] at hx
            subst hx
            have := (ih t L' hr w' r).mp hk
            exact List.mem_map.mpr ⟨(w', r), this, rfl⟩
        | accept r' =>
          simp only [hkb] at hk hx
          by_cases hw : w' = []
          · simp only [hw, if_true, Option.some.injEq] at hk
            subst hk; subst hw
            simp only [Option.some.injEq] at hx; subst hx
            simp
          · simp [hw] at hk
        | reject => simp [hkb] at hk
        | bad => simp [hkb] at hk
    · rintro ⟨b, _, x, hx, hm⟩
      simp only [exploreStep] at hx
      cases hkb : k st b with
      | goto t =>
        simp only [hkb] at hx
        cases hr : explore k n t with
        | none => simp [hr] at hx
        | some L' =>
          simp only [hr, Option.map_some, Option.some.injEq] at hx
          subst hx
          obtain ⟨⟨w', r'⟩, hm', heq⟩ := List.mem_map.mp hm
          simp only [Prod.mk.injEq] at heq
          obtain ⟨rfl, rfl⟩ := heq
          simp only [krun, hkb]
          exact (ih t L' hr w' r').mpr hm'
      | accept r' =>
        simp only [hkb, Option.some.injEq] at hx
        subst hx
        simp only [List.mem_singleton, Prod.mk.injEq] at hm
        obtain ⟨rfl, rfl⟩ := hm
        simp [krun, hkb]
      | reject =>
        simp only [hkb, Option.some.injEq] at hx
        subst hx; simp at hm
      | bad => simp [hkb] at hx

/-- the language of the whole recogniser: first byte through the start state, rest through letter states -/
def kwExplore {σ} [DecidableEq σ] (prog : σ → Prog σ) (start pa : σ) (fuel : Nat) : Option (List (Bytes × σ)) :=
  collect (fun b =>
    match kstart prog start b with
    | none => some []
    | some t => (explore (kstep prog pa) fuel t).map (fun l => l.map fun wr => (b :: wr.1, wr.2))) allBytes

/-- acceptance of a whole word -/
def kwAccepts {σ} [DecidableEq σ] (prog : σ → Prog σ) (start pa : σ) : Bytes → Option σ
  | [] => none
  | b :: w =>
    match kstart prog start b with
    | none => none
    | some t => krun (kstep prog pa) t w

theorem kwExplore_spec {σ} [DecidableEq σ] (prog : σ → Prog σ) (start pa : σ) (fuel : Nat)
    (L : List (Bytes × σ)) (h : kwExplore prog start pa fuel = some L) (w : Bytes) (r : σ) :
    kwAccepts prog start pa w = some r ↔ (w, r) ∈ L := by
  simp only [kwExplore] at h
  rw [collect_mem _ _ _ h]
  constructor
  · intro hk
    cases w with
    | nil => simp [kwAccepts] at hk
    | cons b w' =>
      obtain ⟨x, hx⟩ := collect_all _ _ _ h b (mem_allBytes b)
      refine ⟨b, mem_allBytes b, x, hx, ?_⟩
      simp only [kwAccepts] at hk
      cases hs : kstart prog start b with
      | none => simp [hs] at hk
      | some t =>
        simp only [hs] at hk hx
        cases hr : explore (kstep prog pa) fuel t with
        | none => simp [hr] at hx
        | some L' =>
          simp only [hr, Option.map_some, Option.some.injEq] at hx
          subst hx
          exact List.mem_map.mpr ⟨(w', r), (explore_spec _ _ _ _ hr w' r).mp hk, rfl⟩
  · rintro ⟨b, _, x, hx, hm⟩
    cases hs : kstart prog start b with
    | none => simp only [hs, Option.some.injEq] at hx; subst hx; simp at hm
    | some t =>
      simp only [hs] at hx
      cases hr : explore (kstep prog pa) fuel t with
      | none => simp [hr] at hx
      | some L' =>
        simp only [hr, Option.map_some, Option.some.injEq] at hx
        subst hx
        obtain ⟨⟨w', r'⟩, hm', heq⟩ := List.mem_map.mp hm
        simp only [Prod.mk.injEq] at heq
        obtain ⟨rfl, rfl⟩ := heq
        simp only [kwAccepts, hs]
        exact (explore_spec _ _ _ _ hr w' r').mpr hm'

end JsightVerif.Model
