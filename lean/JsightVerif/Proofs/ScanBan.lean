import JsightVerif.Proofs.TreeInv
import JsightVerif.Proofs.BuildProps
import JsightVerif.Model.Project
/-
  A property of directives that holds of every directive at the moment it is created holds of every
  directive of the forest the scanning stage produces, for every project: directives enter the tree
  only through `attach`, and contexts are closed only by `closeExplicit`.
  Instantiated with "the kind is not banned" (the ban set is consulted where the directive object is
  created, core/scan_project.go setCurrentDirective): no directive of a banned kind — written in the
  root file, in an INCLUDEd file, or in the body of a MACRO whether pasted or not — is in the forest of
  a project the scanning stage accepts.
-/
namespace JsightVerif.Model
open JsightVerif.Gen JsightVerif.Model.Build

theorem closeExplicitStack_all {α} (p : α → Bool) (st : List (Frame α)) (c : Option (Tree α)) (roots : List (Tree α))
    (r : Ctx α) (hs : st.all (Frame.allF p) = true) (hc : optAll p c = true) (hr : Tree.allList p roots = true)
    (hres : closeExplicitStack st c roots = .ok r) : r.allC p = true := by
  induction st generalizing c with
  | nil => simp [closeExplicitStack] at hres
  | cons f rest ih =>
    simp only [List.all_cons, Bool.and_eq_true] at hs
    have hfa : (f.absorb c).allF p = true := by rw [Frame.absorb_all]; simp [hs.1, hc]
    have hcl : (f.absorb c).close.all p = true := by rw [Frame.close_all]; exact hfa
    cases rest with
    | nil =>
      simp only [closeExplicitStack] at hres
      split at hres
      · cases hres
        simp [Ctx.allC, Tree.allList, hcl, hr]
      · exact ih (some (f.absorb c).close) hs.2 (by simpa [optAll] using hcl) hres
    | cons g rest' =>
      simp only [closeExplicitStack] at hres
      split at hres
      · cases hres
        simp only [List.all_cons, Bool.and_eq_true] at hs
        simp only [Ctx.allC, List.all_cons, Bool.and_eq_true]
        refine ⟨⟨?_, hs.2.2⟩, hr⟩
        rw [Frame.absorb_all]
        simp [hs.2.1, optAll, hcl]
      · exact ih (some (f.absorb c).close) hs.2 (by simpa [optAll] using hcl) hres

theorem closeExplicit_all {α} (p : α → Bool) (c r : Ctx α) (hc : c.allC p = true)
    (hres : closeExplicit c = .ok r) : r.allC p = true := by
  simp only [Ctx.allC, Bool.and_eq_true] at hc
  exact closeExplicitStack_all p c.stack none c.rootsRev r hc.1 rfl hc.2 hres

/-- tree and pending directive satisfy `p` -/
def DirsAll (p : Dir → Bool) (c : Core) : Prop :=
  c.ctx.allC p = true ∧ ∀ d, c.cur = some d → p d = true

section
variable (p : Dir → Bool)
  /- `p` looks at the kind and the keyword text only, so that the accumulation of parameters, annotation,
     body and the explicit flag on the pending directive keeps it -/
  (hkind : ∀ d d' : Dir, d'.kind = d.kind → d'.keyword = d.keyword → p d = true → p d' = true)

theorem processCurrent_dirs (c c' : Core) (hc : DirsAll p c) (h : c.processCurrent = .ok c') : DirsAll p c' := by
  unfold Core.processCurrent at h
  split at h
  · cases h; exact hc
  · rename_i d hd
    split at h
    · rename_i ctx' ha
      cases h
      exact ⟨attach_all p c.ctx d d.head ctx' (hc.2 d hd) hc.1 ha, fun d' hd' => by cases hd'⟩
    · cases h

theorem processCurrent_banned (c c' : Core) (h : c.processCurrent = .ok c') : c'.banned = c.banned := by
  unfold Core.processCurrent at h
  repeat' split at h
  all_goals first | (cases h; done) | (cases h; rfl)

theorem tracerFor_dirs (c : Core) : c.tracerFor.2.ctx = c.ctx ∧ c.tracerFor.2.cur = c.cur ∧ c.tracerFor.2.banned = c.banned := by
  unfold Core.tracerFor
  repeat' split
  all_goals exact ⟨rfl, rfl, rfl⟩

theorem setNamed_kind (d d' : Dir) (k : String) (v : Bytes) (h : d.setNamed k v = .ok d') :
    d'.kind = d.kind ∧ d'.keyword = d.keyword := by
  unfold Dir.setNamed at h
  split at h
  · cases h
  · cases h; exact ⟨rfl, rfl⟩

theorem appendParameter_kind (d d' : Dir) (v : Bytes) (h : d.appendParameter v = .ok d') :
    d'.kind = d.kind ∧ d'.keyword = d.keyword := by
  unfold Dir.appendParameter at h
  simp only at h
  repeat' split at h
  all_goals first
    | (cases h; done)
    | exact setNamed_kind d d' _ _ h
    | (cases h; exact ⟨rfl, rfl⟩)

include hkind in
/-- `core.next`: the only place a directive is created is the Keyword branch -/
theorem onLexeme_dirs (c c' : Core) (l : Lexeme) (hc : DirsAll p c)
    (hnew : ∀ d : Dir, c.banned.contains d.kind = false → Spec.newDirectiveType d.keyword = some d.kind →
      d.keyword ≠ includeKw → p d = true)
    (hni : l.ty = .Keyword → lexBytes c.current l ≠ some includeKw)
    (h : c.onLexeme l = .ok c') : DirsAll p c' ∧ c'.banned = c.banned := by
  have pend : ∀ (d d2 : Dir), c.cur = some d → d2.kind = d.kind → d2.keyword = d.keyword → ∀ dd, some d2 = some dd → p dd = true := by
    intro d d2 hd hk hkw dd hdd
    simp only [Option.some.injEq] at hdd
    subst hdd
    exact hkind d _ hk hkw (hc.2 d hd)
  unfold Core.onLexeme at h
  split at h
  · -- Keyword
    split at h
    · cases h
    · rename_i c1 hp
      have h1 := processCurrent_dirs p c c1 hc hp
      have hb := processCurrent_banned c c1 hp
      repeat' split at h
      all_goals first
        | (cases h; done)
        | (cases h
           have ht := tracerFor_dirs c1
           rw [‹c1.tracerFor = _›] at ht
           refine ⟨⟨by rw [ht.1]; exact h1.1, ?_⟩, by rw [ht.2.2]; exact hb⟩
           intro d hd
           simp only [Option.some.injEq] at hd
           subst hd
           rename_i k _ hnt hnb _ _ _ _
           have hty : l.ty = LexType.Keyword := by assumption
           have hcur : c1.current = c.current := by
             unfold Core.processCurrent at hp
             repeat' split at hp
             all_goals first | (cases hp; done) | (cases hp; rfl)
           refine hnew _ ?_ hnt ?_
           · rw [← hb]
             simpa using hnb
           · intro he
             apply hni hty
             rw [← hcur, ‹lexBytes c1.current l = some _›]
             exact congrArg some he)
  · -- Parameter
    split at h
    · cases h
    · rename_i d hd
      repeat' split at h
      all_goals first
        | (cases h; done)
        | (cases h
           exact ⟨⟨hc.1, pend d _ hd (appendParameter_kind d _ _ ‹d.appendParameter _ = Except.ok _›).1 (appendParameter_kind d _ _ ‹d.appendParameter _ = Except.ok _›).2⟩, rfl⟩)
  · -- Annotation
    split at h
    · cases h
    · rename_i d hd
      split at h
      · cases h
      · cases h
        exact ⟨⟨hc.1, pend d _ hd rfl rfl⟩, rfl⟩
  · split at h
    · cases h
    · rename_i d hd
      cases h
      exact ⟨⟨hc.1, pend d _ hd rfl rfl⟩, rfl⟩
  · split at h
    · cases h
    · rename_i d hd
      cases h
      exact ⟨⟨hc.1, pend d _ hd rfl rfl⟩, rfl⟩
  · split at h
    · cases h
    · rename_i d hd
      cases h
      exact ⟨⟨hc.1, pend d _ hd rfl rfl⟩, rfl⟩
  · split at h
    · cases h
    · rename_i d hd
      cases h
      exact ⟨⟨hc.1, pend d _ hd rfl rfl⟩, rfl⟩
  · -- (
    split at h
    · cases h
    · rename_i d hd
      split at h
      · cases h
      · cases h
        exact ⟨⟨hc.1, pend d _ hd rfl rfl⟩, rfl⟩
  · -- )
    split at h
    · cases h
    · rename_i c1 hp
      have h1 := processCurrent_dirs p c c1 hc hp
      have hb := processCurrent_banned c c1 hp
      split at h
      · rename_i ctx' hce
        cases h
        exact ⟨⟨closeExplicit_all p _ _ h1.1 hce, h1.2⟩, hb⟩
      · cases h

theorem onEOF_dirs (c c' : Core) (hc : DirsAll p c) (h : c.onEOF = .ok c') : DirsAll p c' ∧ c'.banned = c.banned := by
  unfold Core.onEOF at h
  split at h
  · cases h
  · rename_i c1 hp
    split at h
    · cases h
    · cases h; exact ⟨processCurrent_dirs p c _ hc ‹c.processCurrent = Except.ok _›, processCurrent_banned c _ ‹c.processCurrent = Except.ok _›⟩

theorem processInclude_dirs (c c' : Core) (fsys : FileSys) (kw : Lexeme) (h : c.processInclude fsys kw = .ok c') :
    c'.ctx = c.ctx ∧ c'.cur = c.cur ∧ c'.banned = c.banned := by
  simp only [Core.processInclude] at h
  repeat' split at h
  all_goals first | (cases h; done) | (cases h; exact ⟨rfl, rfl, rfl⟩)

include hkind in
theorem run_dirs (fsys : FileSys) (n : Nat) (banned : List Kind)
    (hnew : ∀ d : Dir, banned.contains d.kind = false → Spec.newDirectiveType d.keyword = some d.kind →
      d.keyword ≠ includeKw → p d = true) :
    ∀ (c c' : Core), DirsAll p c → c.banned = banned → Core.run fsys n c = .ok c' → DirsAll p c' := by
  induction n with
  | zero => intro c c' _ _ h; simp [Core.run] at h
  | succ n ih =>
    intro c c' hc hb h
    simp only [Core.run] at h
    split at h
    · cases h
    · rename_i l sc' _
      have hc1 : ∀ res : Bool, DirsAll p ({ ({ c with current := { c.current with sc := sc' } } : Core) with resumed := res }) := fun _ => hc
      split at h
      · cases h
      · split at h
        · split at h
          · cases h
          · rename_i c1 hinc
            obtain ⟨e1, e2, e3⟩ := processInclude_dirs _ c1 fsys l hinc
            exact ih c1 c' ⟨by rw [e1]; exact hc.1, by rw [e2]; exact hc.2⟩ (by rw [e3]; exact hb) h
        · split at h
          · cases h
          · rename_i c1 hon
            have hninc : ¬ ((l.ty == LexType.Keyword && lexBytes c.current l == some includeKw) = true) := by assumption
            obtain ⟨h1, h2⟩ := onLexeme_dirs p hkind _ c1 l (hc1 false) (by intro d hd hk hne; exact hnew d (by rw [← hb]; exact hd) hk hne)
              (by
                intro hty hlb
                apply hninc
                have : lexBytes c.current l = some includeKw := hlb
                simp [hty, this]) hon
            exact ih c1 c' h1 (by rw [h2]; exact hb) h
    · rename_i sc' _
      split at h
      · cases h
      · rename_i c2 he
        have hc1 : DirsAll p ({ c with current := { c.current with sc := sc' } } : Core) := hc
        obtain ⟨h1, h2⟩ := onEOF_dirs p _ c2 hc1 he
        split at h
        · cases h; exact h1
        · rename_i sfs at_ rest hsus
          exact ih { c2 with current := sfs, suspended := rest, resumed := true } c' h1 (by show c2.banned = banned; rw [h2]; exact hb) h

end

/-- **no banned kind in the scanned forest** -/
theorem scan_forest_not_banned (fsys : FileSys) (n : Nat) (rootName : Bytes) (env : Env) (banned : List Kind) (c' : Core)
    (h : Core.run fsys n { current := { name := rootName, env := env, sc := Sc.init .stateRoot }, banned := banned } = .ok c') :
    Tree.allList (notBanned banned) c'.ctx.forest = true := by
  have hk : ∀ d d' : Dir, d'.kind = d.kind → d'.keyword = d.keyword → notBanned banned d = true → notBanned banned d' = true := by
    intro d d' hk _ hd
    simpa [notBanned, hk] using hd
  have := run_dirs (notBanned banned) hk fsys n banned (by intro d hd _ _; simp only [notBanned, hd]; rfl) _ c'
    ⟨rfl, fun d hd => by cases hd⟩ rfl h
  exact forest_all _ _ this.1

/-- the kind of a directive is the one the directive table gives to its keyword text -/
def kindOfKeyword (d : Dir) : Bool := Spec.newDirectiveType d.keyword == some d.kind

/-- **every directive of the scanned forest was made from a keyword of the directive table, with the
    kind the table gives it** -/
theorem scan_forest_keywords (fsys : FileSys) (n : Nat) (rootName : Bytes) (env : Env) (banned : List Kind) (c' : Core)
    (h : Core.run fsys n { current := { name := rootName, env := env, sc := Sc.init .stateRoot }, banned := banned } = .ok c') :
    Tree.allList kindOfKeyword c'.ctx.forest = true := by
  have hk : ∀ d d' : Dir, d'.kind = d.kind → d'.keyword = d.keyword → kindOfKeyword d = true → kindOfKeyword d' = true := by
    intro d d' hk hkw hd
    simpa [kindOfKeyword, hk, hkw] using hd
  have := run_dirs kindOfKeyword hk fsys n banned (by intro d _ hd _; simp [kindOfKeyword, hd]) _ c'
    ⟨rfl, fun d hd => by cases hd⟩ rfl h
  exact forest_all _ _ this.1

theorem newDirectiveType_include (w : Bytes) (h : Spec.newDirectiveType w = some .Include) : w = includeKw := by
  unfold Spec.newDirectiveType at h
  split at h
  · rename_i k hf
    simp only [Option.some.injEq] at h
    subst h
    have := List.find?_some hf
    exact (beq_iff_eq.mp this).symm
  · split at h
    · split at h <;> simp at h
    · simp at h

def notInclude (d : Dir) : Bool := d.kind != .Include

/-- **INCLUDE leaves no node of its own**: no directive of the scanned forest has the kind INCLUDE -/
theorem scan_forest_no_include (fsys : FileSys) (n : Nat) (rootName : Bytes) (env : Env) (banned : List Kind) (c' : Core)
    (h : Core.run fsys n { current := { name := rootName, env := env, sc := Sc.init .stateRoot }, banned := banned } = .ok c') :
    Tree.allList notInclude c'.ctx.forest = true := by
  have hk : ∀ d d' : Dir, d'.kind = d.kind → d'.keyword = d.keyword → notInclude d = true → notInclude d' = true := by
    intro d d' hk _ hd
    simpa [notInclude, hk] using hd
  have := run_dirs notInclude hk fsys n banned (by
      intro d _ hd hne
      simp only [notInclude, bne_iff_ne, ne_eq]
      intro hki
      rw [hki] at hd
      exact hne (newDirectiveType_include _ hd)) _ c'
    ⟨rfl, fun d hd => by cases hd⟩ rfl h
  exact forest_all _ _ this.1

end JsightVerif.Model
