import JsightVerif.Model.Build
/-
  Invariants of the directive-tree zipper (Model/Tree.lean): a predicate that holds for every
  directive put into the zipper holds for every directive of the finished forest.
-/
namespace JsightVerif.Model

mutual
  def Tree.all {α} (p : α → Bool) : Tree α → Bool
    | .node d kids => p d && Tree.allList p kids
  def Tree.allList {α} (p : α → Bool) : List (Tree α) → Bool
    | [] => true
    | t :: rest => t.all p && Tree.allList p rest
end

theorem Tree.allList_append {α} (p : α → Bool) (a b : List (Tree α)) :
    Tree.allList p (a ++ b) = (Tree.allList p a && Tree.allList p b) := by
  induction a with
  | nil => simp [Tree.allList]
  | cons t rest ih => simp [Tree.allList, ih, Bool.and_assoc]

theorem Tree.allList_reverse {α} (p : α → Bool) (a : List (Tree α)) :
    Tree.allList p a.reverse = Tree.allList p a := by
  induction a with
  | nil => rfl
  | cons t rest ih => simp [Tree.allList, Tree.allList_append, ih, Bool.and_comm]

def Frame.allF {α} (p : α → Bool) (f : Frame α) : Bool := p f.d && Tree.allList p f.kidsRev

def optAll {α} (p : α → Bool) : Option (Tree α) → Bool
  | none => true
  | some t => t.all p

def Ctx.allC {α} (p : α → Bool) (c : Ctx α) : Bool := c.stack.all (Frame.allF p) && Tree.allList p c.rootsRev

theorem Frame.close_all {α} (p : α → Bool) (f : Frame α) : f.close.all p = f.allF p := by
  simp [Frame.close, Tree.all, Frame.allF, Tree.allList_reverse]

theorem Frame.absorb_all {α} (p : α → Bool) (f : Frame α) (c : Option (Tree α)) :
    (f.absorb c).allF p = (f.allF p && optAll p c) := by
  cases c with
  | none => simp [Frame.absorb, optAll]
  | some t => simp only [Frame.absorb, optAll, Frame.allF, Tree.allList]; rw [Bool.and_comm (Tree.all p t)]; simp [Bool.and_assoc]

theorem absorbRoots_all {α} (p : α → Bool) (roots : List (Tree α)) (c : Option (Tree α)) :
    Tree.allList p (absorbRoots roots c) = (Tree.allList p roots && optAll p c) := by
  cases c with
  | none => simp [absorbRoots, optAll]
  | some t => simp [absorbRoots, optAll, Tree.allList, Bool.and_comm]

theorem closeAll_all {α} (p : α → Bool) (st : List (Frame α)) (c : Option (Tree α)) (roots : List (Tree α)) :
    Tree.allList p (closeAll st c roots) = (st.all (Frame.allF p) && optAll p c && Tree.allList p roots) := by
  induction st generalizing c with
  | nil => simp [closeAll, absorbRoots_all, Bool.and_comm]
  | cons f rest ih =>
    simp only [closeAll, ih, optAll, Frame.close_all, Frame.absorb_all, List.all_cons]
    cases Frame.allF p f <;> cases optAll p c <;> cases rest.all (Frame.allF p) <;> simp

theorem attachStack_all {α} (p : α → Bool) (d : α) (h : Head) (hd : p d = true) (st : List (Frame α))
    (c : Option (Tree α)) (roots : List (Tree α)) (r : Ctx α)
    (hs : st.all (Frame.allF p) = true) (hc : optAll p c = true) (hr : Tree.allList p roots = true)
    (hres : attachStack d h st c roots = .ok r) : r.allC p = true := by
  induction st generalizing c with
  | nil =>
    simp only [attachStack] at hres
    split at hres
    · cases hres; simp [Ctx.allC, Frame.allF, hd, Tree.allList, absorbRoots_all, hr, hc]
    · cases hres
  | cons f rest ih =>
    simp only [List.all_cons, Bool.and_eq_true] at hs
    have hfa : (f.absorb c).allF p = true := by rw [Frame.absorb_all]; simp [hs.1, hc]
    simp only [attachStack] at hres
    split at hres
    · split at hres
      · split at hres
        · cases hres
        · cases hres
          simp only [Ctx.allC, List.all_cons, List.all_nil, Bool.and_true, Frame.allF, hd, Tree.allList, Bool.true_and]
          rw [closeAll_all]
          simp [hfa, hs.2, optAll, hr]
      · cases hres
        simp only [Ctx.allC, List.all_cons, Bool.and_eq_true]
        exact ⟨⟨by simp [Frame.allF, hd, Tree.allList], hfa, hs.2⟩, hr⟩
    · split at hres
      · cases hres
      · exact ih (some (f.absorb c).close) hs.2 (by simp [optAll, Frame.close_all, hfa]) hres

theorem attach_all {α} (p : α → Bool) (c : Ctx α) (d : α) (h : Head) (r : Ctx α) (hd : p d = true)
    (hc : c.allC p = true) (hres : attach c d h = .ok r) : r.allC p = true := by
  simp only [Ctx.allC, Bool.and_eq_true] at hc
  exact attachStack_all p d h hd c.stack none c.rootsRev r hc.1 rfl hc.2 hres

theorem forest_all {α} (p : α → Bool) (c : Ctx α) (hc : c.allC p = true) : Tree.allList p c.forest = true := by
  simp only [Ctx.allC, Bool.and_eq_true] at hc
  simp [Ctx.forest, Tree.allList_reverse, closeAll_all, hc.1, hc.2, optAll]

theorem closeTo_all {α} (p : α → Bool) (k fuel : Nat) (c : Ctx α) (hc : c.allC p = true) :
    (Build.closeTo k fuel c).allC p = true := by
  induction fuel generalizing c with
  | zero => exact hc
  | succ n ih =>
    simp only [Build.closeTo]
    split
    · exact hc
    · simp only [Ctx.allC, Bool.and_eq_true] at hc
      split
      · exact (by simpa [Ctx.allC] using hc)
      · rename_i f hst
        apply ih
        simp only [hst, List.all_cons, List.all_nil, Bool.and_true] at hc
        simp [Ctx.allC, Tree.allList, Frame.close_all, hc.1, hc.2]
      · rename_i f g rest hst
        apply ih
        simp only [hst, List.all_cons, Bool.and_eq_true] at hc
        simp [Ctx.allC, Frame.absorb_all, optAll, Frame.close_all, hc.1.1, hc.1.2.1, hc.1.2.2, hc.2]

end JsightVerif.Model
