def hello := "world"
