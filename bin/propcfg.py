"""Per-property configuration of bin/check: Lean module holding the property
theorems, harness ops (correspondence + monitors) with their case counts per tier."""

PROPS = {
    "C01": dict(
        module="JsightVerif.Props.C01",
        ops=[dict(op="proj", quick=20000, thorough=1000000), dict(op="scan", quick=20000, thorough=1000000)],
        assumptions=["Go runtime stack/memory limits are outside the model; worker processes observe them"],
    ),
    "C07": dict(
        module="JsightVerif.Props.C07",
        ops=[dict(op="proj", quick=20000, thorough=500000), dict(op="name", quick=3000, thorough=0)],
        assumptions=["bytes.Bytes.{LineAndColumn,BeginningOfLine,EndOfLine,NewLineSymbol} of jsight-schema-core are transliterated into the model and compared on every reported error"],
    ),
    "C14": dict(
        module="JsightVerif.Props.C14",
        ops=[dict(op="name", quick=6000, thorough=0), dict(op="proj", quick=10000, thorough=300000)],
        assumptions=["path/filepath.Join/Dir/Clean and os.Stat/ReadFile are trusted; the model's cleanSegs is compared with them on every INCLUDE of every case"],
    ),
    "C11": dict(
        module="JsightVerif.Props.C11",
        ops=[dict(op="ctx", quick=8000, thorough=0), dict(op="proj", quick=10000, thorough=300000)],
        assumptions=["reference context table = pinned transcription of the baseline table (no offline copy of the JSight 0.3 specification)"],
    ),
    "C12": dict(
        module="JsightVerif.Props.C12",
        ops=[dict(op="scan", quick=40000, thorough=2000000)],
        assumptions=["A_len: schema-core's Len() answers are replayed from the real library per case"],
    ),
    "C13": dict(
        module="JsightVerif.Props.C13",
        ops=[dict(op="kw", quick=40000, thorough=0)],
        assumptions=["reference keyword list: Gen.Kind.keyword regenerated from directive/enumeration.go; harness pins the 30 JSight 0.3 keywords independently"],
    ),
}
