"""Per-property configuration of bin/check: Lean module holding the property
theorems, harness ops (correspondence + monitors) with their case counts per tier."""

PROPS = {
    "C01": dict(
        module="JsightVerif.Props.C01",
        ops=[dict(op="proj", quick=20000, thorough=1000000), dict(op="scan", quick=20000, thorough=1000000)],
        assumptions=["Go runtime stack/memory limits are outside the model; worker processes observe them"],
    ),
    "C12": dict(
        module="JsightVerif.Props.C12",
        ops=[dict(op="scan", quick=40000, thorough=2000000)],
        assumptions=["A_len: schema-core's Len() answers are replayed from the real library per case"],
    ),
    "C13": dict(
        module="JsightVerif.Props.C13",
        ops=[dict(op="kw", quick=40000, thorough=0)],
        assumptions=["reference keyword list: Gen.Kind.keyword regenerated from directive/enumeration.go; harness pins the 30 JSight 0.3 keywords independently"],
    ),
}
