"""Per-property configuration of bin/check: Lean module holding the property theorems,
harness ops (correspondence with the Lean model where one exists + property monitors on the
real code) with their case counts per tier."""

def op(name, quick, thorough, **kw):
    d = dict(op=name, quick=quick, thorough=thorough)
    d.update(kw)
    return d

ORACLE = "jsight-schema-core answers (schema extents, checks, examples) are replayed from the real library per case"

PROPS = {
    "C01": dict(module="JsightVerif.Props.C01",
        ops=[op("proj", 15000, 1000000), op("scan", 20000, 2000000), op("build", 4000, 200000), op("cat", 6000, 300000)],
        assumptions=["Go runtime stack/memory limits are outside the model; crash-isolated workers observe them", ORACLE,
                     "A_len (built into the scanner model): a schema / enum extent answered by jsight-schema-core ends inside the file",
                     "the scanner model carries a ghost bit (Sc.ph) without counterpart in the Go code; theorems about lexeme order are statements about it",
                     "residual crash site of the scanning-stage model not excluded by a theorem: processBody right after an INCLUDE line (correspondence-level)"]),
    "C02": dict(module="JsightVerif.Props.C02", ops=[op("cat", 8000, 400000), op("model", 3000, 100000)], assumptions=[ORACLE]),
    "C03": dict(module="JsightVerif.Props.C03", ops=[op("fault", 4000, 200000), op("cat", 8000, 400000)], assumptions=[ORACLE]),
    "C04": dict(module="JsightVerif.Props.C04", ops=[op("build", 5000, 300000)], assumptions=["encoding/json escapes and emits UTF-8 faithfully", ORACLE]),
    "C05": dict(module="JsightVerif.Props.C05", ops=[op("build", 5000, 300000), op("model", 1500, 50000), op("cat", 6000, 300000)], assumptions=[ORACLE]),
    "C06": dict(module="JsightVerif.Props.C06", ops=[op("build", 4000, 100000)],
        assumptions=["A_envset: jsight-schema-core results depend on the set of declared types/rules, not on the order they are added", ORACLE]),
    "C07": dict(module="JsightVerif.Props.C07", ops=[op("proj", 20000, 500000), op("name", 3000, 0), op("build", 3000, 100000)],
        assumptions=["bytes.Bytes.{LineAndColumn,BeginningOfLine,EndOfLine,NewLineSymbol} of jsight-schema-core are transliterated into the model and compared on every reported error"]),
    "C08": dict(module="JsightVerif.Props.C08", ops=[op("layout", 3000, 60000), op("scan", 10000, 200000)],
        assumptions=["A_nl: schema extents and contents are invariant under line-ending changes inside bodies (dependency)", ORACLE]),
    "C09": dict(module="JsightVerif.Props.C09", ops=[op("split", 3000, 100000), op("proj", 8000, 200000)], assumptions=[ORACLE]),
    "C10": dict(module="JsightVerif.Props.C10", ops=[op("paste", 3000, 100000), op("cat", 8000, 400000)], assumptions=[ORACLE]),
    "C11": dict(module="JsightVerif.Props.C11", ops=[op("ctx", 8000, 0), op("proj", 10000, 300000)],
        assumptions=["reference context table = pinned transcription of the baseline table (no offline copy of the JSight 0.3 specification)"]),
    "C12": dict(module="JsightVerif.Props.C12", ops=[op("scan", 40000, 2000000)], assumptions=["A_len (built into the scanner model): a schema / enum extent answered by jsight-schema-core ends inside the file", ORACLE,
                     "the scanner model carries a ghost bit (Sc.ph) without counterpart in the Go code; C12_lexeme_order is a statement about it"]),
    "C13": dict(module="JsightVerif.Props.C13", ops=[op("kw", 40000, 0)],
        assumptions=["keyword list regenerated from directive/enumeration.go; the harness pins the 30 JSight 0.3 keywords independently"]),
    "C14": dict(module="JsightVerif.Props.C14", ops=[op("name", 6000, 0), op("proj", 10000, 300000)],
        assumptions=["path/filepath.Join/Dir/Clean and os.Stat/ReadFile are trusted; the model's cleanSegs is compared with them on every INCLUDE of every case"]),
    "C15": dict(module="JsightVerif.Props.C15", ops=[op("order", 3000, 100000), op("cat", 5000, 200000)],
        assumptions=["A_envset (two-phase user type compilation happens inside jsight-schema-core)", ORACLE]),
    "C16": dict(module="JsightVerif.Props.C16", ops=[op("access", 2500, 30000), op("build", 3000, 100000)], assumptions=[ORACLE]),
    "C17": dict(module="JsightVerif.Props.C17", ops=[op("build", 5000, 300000)],
        assumptions=["schema objects are produced by jsight-schema-core/openapi (opaque); only the skeleton is modelled"]),
    "C18": dict(module="JsightVerif.Props.C18", ops=[op("conc", 150, 1000, kind="conc", batches_quick=3, batches_thorough=10)],
        assumptions=["data races as the Go memory model defines them and shared state inside jsight-schema-core cannot be exhibited by a theorem: the race-detector run is part of the check (partial by nature)"]),
    "C19": dict(module="JsightVerif.Props.C19", ops=[op("ban", 4000, 200000), op("cat", 5000, 200000)], assumptions=[ORACLE]),
}
