module verifharness

go 1.18

require (
	github.com/jsightapi/jsight-api-core v0.0.0
	github.com/jsightapi/jsight-schema-core v0.2.0
)

require github.com/lucasjones/reggen v0.0.0-20200904144131-37ba4fa293bb // indirect

replace github.com/jsightapi/jsight-api-core => /repo
