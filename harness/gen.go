package main

import (
	"bytes"
	"os"
	"path/filepath"
	"sort"
	"strings"
)

// ---------------------------------------------------------------------------
// corpus (G3): the repository's own .jst files, grouped into projects by directory

type CorpusFile struct {
	Path string // relative to repo
	Data []byte
}

var corpusCache []CorpusFile

func repoRoot() string {
	if p := os.Getenv("VERIF_REPO"); p != "" {
		return p
	}
	return "/repo"
}

func loadCorpus() []CorpusFile {
	if corpusCache != nil {
		return corpusCache
	}
	root := repoRoot()
	var out []CorpusFile
	filepath.Walk(filepath.Join(root, "testdata"), func(p string, info os.FileInfo, err error) error {
		if err != nil || info.IsDir() || !strings.HasSuffix(p, ".jst") {
			return nil
		}
		b, e := os.ReadFile(p)
		if e == nil {
			rel, _ := filepath.Rel(root, p)
			out = append(out, CorpusFile{rel, b})
		}
		return nil
	})
	// plus the minimised past disagreements / findings kept under /verif/corpus
	filepath.Walk(verifDir("corpus"), func(p string, info os.FileInfo, err error) error {
		if err != nil || info.IsDir() || !strings.HasSuffix(p, ".jst") {
			return nil
		}
		b, e := os.ReadFile(p)
		if e == nil {
			out = append(out, CorpusFile{"verif-corpus/" + filepath.Base(p), b})
		}
		return nil
	})
	// plus candidate inputs the model produced when a proof obligation broke (bin/check writes them)
	filepath.Walk(verifDir(".work/candidates"), func(p string, info os.FileInfo, err error) error {
		if err != nil || info.IsDir() || !strings.HasSuffix(p, ".jst") {
			return nil
		}
		b, e := os.ReadFile(p)
		if e == nil {
			out = append(out, CorpusFile{"verif-candidate/" + filepath.Base(p), b})
		}
		return nil
	})
	sort.Slice(out, func(i, j int) bool { return out[i].Path < out[j].Path })
	corpusCache = out
	return out
}

func verifDir(sub string) string {
	if p := os.Getenv("VERIF_DIR"); p != "" {
		return filepath.Join(p, sub)
	}
	return filepath.Join("/verif", sub)
}

// ---------------------------------------------------------------------------
// token dictionary (G4)

var keywordTokens = []string{
	"JSIGHT", "INFO", "Title", "Version", "Description", "SERVER", "BaseUrl", "URL", "GET", "POST", "PUT",
	"PATCH", "DELETE", "Body", "Request", "Path", "Headers", "Query", "TYPE", "ENUM", "MACRO", "PASTE",
	"INCLUDE", "Protocol", "Method", "Params", "Result", "TAG", "Tags", "OperationId",
	"200", "404", "500", "100", "599", "600", "099", "20", "2000",
}

var punctTokens = []string{
	" ", " ", "  ", "\t", "\n", "\n", "\r\n", "\r", "(", ")", "#", "##", "###", "//", "/*", "*/", "/", "*", "\"", "\\", "\\\"",
	"@", "{", "}", "[", "]", ",", ":", "\x00", "\xff", "\xc3\xa9", "-", "_", ".", "..", "0.3",
}

var valueTokens = []string{
	"/a", "/a/{id}", "/{x}/{y}", "\"/q p\"", "@t", "@user", "[@t]", "\"[@t]\"", "\"[@user]\"", "\"@t\"", "\"empty\"", "any", "empty", "regex", "jsight", "\"regex\"", "\"any\"",
	"/ab+c/", "/[a-z]/", "{}", "{\"a\":1}", "{\"id\": 1 // {min: 1}\n}", "[1,2]", "[\"a\", \"b\"]", "[@t]", "@t | @u", "1", "\"s\"", "true", "null",
	"htmlFormEncoded", "noFormat", "json-rpc-2.0", "\"x y\"", "\"a\\\"b\"", "\"a\\\\\"", "file.jst", "\"\"", "text", "some text here",
	"{\n  \"k\": @t\n}", "{ // {allOf: \"@t\"}\n}", "[ // {minItems: 1}\n 1\n]", "@", "@@", "@-", "name", "tag1", "opId",
}

func randToken(p *PRNG) string {
	switch p.Intn(10) {
	case 0, 1, 2:
		return Pick(p, keywordTokens)
	case 3, 4, 5, 6:
		return Pick(p, punctTokens)
	default:
		return Pick(p, valueTokens)
	}
}

func tokenSoup(p *PRNG, n int) []byte {
	var b bytes.Buffer
	if p.Chance(1, 2) {
		b.WriteString("JSIGHT 0.3\n")
	}
	for i := 0; i < n; i++ {
		b.WriteString(randToken(p))
		if p.Chance(1, 3) {
			b.WriteByte(' ')
		}
		if p.Chance(1, 6) {
			b.WriteByte('\n')
		}
	}
	return b.Bytes()
}

// keyword-biased soup: lines that start with a keyword, then parameters / annotations / bodies
func lineSoup(p *PRNG, n int) []byte {
	var b bytes.Buffer
	if p.Chance(3, 4) {
		b.WriteString("JSIGHT 0.3\n")
	}
	for i := 0; i < n; i++ {
		b.WriteString(strings.Repeat(" ", p.Intn(4)))
		b.WriteString(Pick(p, keywordTokens))
		for k := p.Intn(4); k > 0; k-- {
			b.WriteString(Pick(p, []string{" ", " ", "  ", "\t", ""}))
			b.WriteString(randToken(p))
		}
		b.WriteString(Pick(p, []string{"\n", "\n", "\n", "\r\n", "\r", " ", "\n\n"}))
		if p.Chance(1, 4) {
			b.WriteString(Pick(p, valueTokens))
			b.WriteString(Pick(p, []string{"\n", "\n", " ", ""}))
		}
	}
	return b.Bytes()
}

// mutate applies k random edits to data
func mutate(p *PRNG, data []byte, k int) []byte {
	out := append([]byte(nil), data...)
	for ; k > 0; k-- {
		if len(out) == 0 {
			out = append(out, []byte(randToken(p))...)
			continue
		}
		pos := p.Intn(len(out) + 1)
		switch p.Intn(10) {
		case 0: // insert token
			t := []byte(randToken(p))
			out = append(out[:pos], append(t, out[pos:]...)...)
		case 1: // delete range
			n := 1 + p.Intn(6)
			if pos+n > len(out) {
				n = len(out) - pos
			}
			out = append(out[:pos], out[pos+n:]...)
		case 2: // replace byte
			if pos < len(out) {
				out[pos] = Pick(p, punctTokens)[0]
			}
		case 3: // truncate
			out = out[:pos]
		case 4: // duplicate a line
			ls := bytes.SplitAfter(out, []byte("\n"))
			i := p.Intn(len(ls))
			var nb []byte
			for j, l := range ls {
				nb = append(nb, l...)
				if j == i {
					nb = append(nb, l...)
				}
			}
			out = nb
		case 5: // delete a line
			ls := bytes.SplitAfter(out, []byte("\n"))
			i := p.Intn(len(ls))
			var nb []byte
			for j, l := range ls {
				if j != i {
					nb = append(nb, l...)
				}
			}
			out = nb
		case 6: // newline style
			switch p.Intn(3) {
			case 0:
				out = bytes.ReplaceAll(out, []byte("\n"), []byte("\r\n"))
			case 1:
				out = bytes.ReplaceAll(out, []byte("\n"), []byte("\r"))
			default:
				out = bytes.ReplaceAll(out, []byte("\r\n"), []byte("\n"))
			}
		case 7: // swap two lines
			ls := bytes.SplitAfter(out, []byte("\n"))
			if len(ls) > 1 {
				i, j := p.Intn(len(ls)), p.Intn(len(ls))
				ls[i], ls[j] = ls[j], ls[i]
				out = bytes.Join(ls, nil)
			}
		case 9: // blanks before a line end
			j := bytes.IndexByte(out[pos:], '\n')
			if j >= 0 {
				t := []byte(Pick(p, []string{" ", "\t", "  ", " \t "}))
				out = append(out[:pos+j], append(t, out[pos+j:]...)...)
			}
		case 8: // insert keyword at line start
			i := bytes.LastIndexByte(out[:pos], '\n') + 1
			t := []byte(Pick(p, keywordTokens) + " ")
			out = append(out[:i], append(t, out[i:]...)...)
		}
	}
	return out
}

// single-file scan inputs
func genScanCases(p *PRNG, n int) []*Case {
	corpus := loadCorpus()
	var small []CorpusFile
	for _, f := range corpus {
		if len(f.Data) <= 3000 {
			small = append(small, f)
		}
	}
	var cases []*Case
	add := func(tag string, data []byte) {
		cases = append(cases, &Case{ID: len(cases), Op: "scan", Files: map[string][]byte{"root": data}, Root: "root", Tag: tag})
	}
	// corpus first (every file once, as far as the budget allows)
	for i, f := range small {
		if i >= n/3 {
			break
		}
		add("corpus", f.Data)
	}
	for len(cases) < n {
		switch p.Intn(12) {
		case 10, 11:
			m := GenModel(p.Fork(), 1+p.Intn(3))
			la := RandomLayout(p.Fork())
			if p.Chance(1, 2) {
				la.BlockAnn, la.AnnStars = true, true
			}
			txt, exp := RenderTreeLex(ModelTree(m), la)
			add("rendered", []byte(txt))
			cases[len(cases)-1].Exp = exp
		case 0, 1, 2, 3:
			f := Pick(p, small)
			add("corpus-mutated", mutate(p, f.Data, 1+p.Intn(3)))
		case 4, 5:
			add("token-soup", tokenSoup(p, 1+p.Intn(25)))
		case 6, 7:
			add("line-soup", lineSoup(p, 1+p.Intn(10)))
		case 8:
			m := GenModel(p.Fork(), 1+p.Intn(3))
			l := RandomLayout(p.Fork())
			if p.Chance(1, 2) {
				// every line break of the file chosen independently among LF, CRLF and a lone CR
				l.NL = "\n"
				txt, exp := RenderTreeLex(ModelTree(m), l)
				mixed, mexp := mixLineBreaks(p, txt, exp)
				add("rendered-mixed-nl", []byte(mixed))
				cases[len(cases)-1].Exp = mexp
				break
			}
			txt, exp := RenderTreeLex(ModelTree(m), l)
			add("rendered", []byte(txt))
			cases[len(cases)-1].Exp = exp
		default:
			m := GenModel(p.Fork(), 1+p.Intn(3))
			add("rendered-mutated", mutate(p, []byte(RenderModel(m, RandomLayout(p.Fork()))), 1+p.Intn(2)))
		}
	}
	return cases
}

// mixLineBreaks replaces every LF of a rendered document by LF, CRLF or CR (independently) and moves the
// expected lexeme extents accordingly
func mixLineBreaks(p *PRNG, txt string, exp []ExpLex) (string, []ExpLex) {
	pos := make([]int, len(txt)+1)
	var b strings.Builder
	for i := 0; i < len(txt); i++ {
		pos[i] = b.Len()
		if txt[i] == '\n' {
			b.WriteString(Pick(p, []string{"\n", "\r\n", "\r"}))
		} else {
			b.WriteByte(txt[i])
		}
	}
	pos[len(txt)] = b.Len()
	out := make([]ExpLex, len(exp))
	for i, e := range exp {
		out[i] = e
		if e.B >= 0 && e.B <= len(txt) {
			out[i].B = pos[e.B]
		}
		if e.E >= 0 && e.E+1 <= len(txt) {
			out[i].E = pos[e.E+1] - 1
		}
	}
	return b.String(), out
}
