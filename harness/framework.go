package main

import (
	"bufio"
	"bytes"
	"encoding/hex"
	"encoding/json"
	"fmt"
	"io"
	"os"
	"os/exec"
	"runtime"
	"sort"
	"strings"
	"sync"
	"sync/atomic"
	"time"
)

// A Case is one input for one op. Files are the project (name -> content; a nil
// content with Dir[name]=true is a directory). The worker runs the real code on
// it; the Lean driver runs the model on the line produced by LeanLine.
type Case struct {
	ID           int               `json:"id"`
	Op           string            `json:"op"`
	Files        map[string][]byte `json:"files,omitempty"`
	Dirs         []string          `json:"dirs,omitempty"`
	Root         string            `json:"root,omitempty"`
	RootSpelling string            `json:"root_spelling,omitempty"` // how the caller spells the root path relative to the project dir (e.g. "./root.jst")
	Args         []string          `json:"args,omitempty"`          // op specific
	Tag          string            `json:"tag,omitempty"`           // generator class (for the distribution)
	Exp          []ExpLex          `json:"exp,omitempty"`           // lexemes a rendered document is known to consist of
	Group        string            `json:"group,omitempty"`         // metamorphic group: variants are compared with the group's base
	Role         string            `json:"role,omitempty"`          // "base" or a description of the variant
	Want         string            `json:"want,omitempty"`          // expectation of a monitor
	// filled by the run
	Oracle  map[string]string `json:"oracle,omitempty"` // answers of schema-core shipped to the model
	GoOut   string            `json:"go_out,omitempty"`
	LeanIn  string            `json:"lean_in,omitempty"`
	LeanOut string            `json:"lean_out,omitempty"`
	Detail  string            `json:"detail,omitempty"`
	baseRef *Case
}

func hx(b []byte) string {
	if len(b) == 0 {
		return "-"
	}
	return hex.EncodeToString(b)
}

func hxs(s string) string { return hx([]byte(s)) }

// ---------------------------------------------------------------------------
// worker pool (real code, crash isolated)

type workerProc struct {
	tmp    string // the worker's scratch directory (the parent owns it)
	cmd    *exec.Cmd
	in     io.WriteCloser
	out    *bufio.Reader
	stderr *bytes.Buffer
}

func startWorker() (*workerProc, error) {
	exe, err := os.Executable()
	if err != nil {
		return nil, err
	}
	tmp, err := os.MkdirTemp("", "verifh-")
	if err != nil {
		return nil, err
	}
	cmd := exec.Command(exe, "worker")
	cmd.Env = append(os.Environ(), "GOMEMLIMIT=1500MiB", "GOTRACEBACK=single", "GOMAXPROCS=2", "VERIF_WORKER_TMP="+tmp)
	in, _ := cmd.StdinPipe()
	outp, _ := cmd.StdoutPipe()
	var eb bytes.Buffer
	cmd.Stderr = &limitedWriter{buf: &eb, max: 1 << 16}
	if err := cmd.Start(); err != nil {
		return nil, err
	}
	return &workerProc{tmp: tmp, cmd: cmd, in: in, out: bufio.NewReaderSize(outp, 1<<20), stderr: &eb}, nil
}

type limitedWriter struct {
	buf *bytes.Buffer
	max int
	mu  sync.Mutex
}

func (l *limitedWriter) Write(p []byte) (int, error) {
	l.mu.Lock()
	defer l.mu.Unlock()
	if l.buf.Len() < l.max {
		n := l.max - l.buf.Len()
		if n > len(p) {
			n = len(p)
		}
		l.buf.Write(p[:n])
	}
	return len(p), nil
}

func (w *workerProc) kill() {
	if w.cmd.Process != nil {
		w.cmd.Process.Kill()
	}
	w.cmd.Wait()
	if w.tmp != "" {
		os.RemoveAll(w.tmp)
	}
}

// runWorkers executes every case on the real code; results go to c.GoOut and c.Oracle.
func runWorkers(cases []*Case, timeout time.Duration) {
	n := runtime.NumCPU()
	if n > 14 {
		n = 14
	}
	if n > len(cases) {
		n = len(cases)
	}
	if n == 0 {
		return
	}
	ch := make(chan *Case, len(cases))
	for _, c := range cases {
		ch <- c
	}
	close(ch)
	// circuit breaker: when the code under test hangs or dies on a large share of the cases (a scanner that
	// loops on every path parameter, say), the first few dozen witnesses are enough; the rest is skipped so that
	// the run ends and reports them instead of running into the overall time limit
	var bad int64
	const badLimit = 40
	var wg sync.WaitGroup
	for i := 0; i < n; i++ {
		wg.Add(1)
		go func() {
			defer wg.Done()
			var w *workerProc
			defer func() {
				if w != nil {
					w.in.Close()
					w.kill()
				}
			}()
			for c := range ch {
				if atomic.LoadInt64(&bad) >= badLimit {
					c.GoOut = "SKIPPED"
					continue
				}
				if w == nil {
					var err error
					w, err = startWorker()
					if err != nil {
						c.GoOut = "HARNESS-ERROR " + err.Error()
						continue
					}
				}
				line, _ := json.Marshal(c)
				type res struct {
					s   string
					err error
				}
				rc := make(chan res, 1)
				go func(w *workerProc) {
					if _, err := w.in.Write(append(line, '\n')); err != nil {
						rc <- res{"", err}
						return
					}
					s, err := w.out.ReadString('\n')
					rc <- res{s, err}
				}(w)
				select {
				case r := <-rc:
					if r.err != nil {
						w.kill()
						c.GoOut = "FATAL " + crashSummary(w.stderr.String())
						w = nil
						atomic.AddInt64(&bad, 1)
						continue
					}
					var wr workerResult
					if err := json.Unmarshal([]byte(r.s), &wr); err != nil {
						c.GoOut = "HARNESS-ERROR bad worker line"
						continue
					}
					c.GoOut = wr.Out
					c.Detail = wr.Detail
					if len(wr.Oracle) > 0 {
						if c.Oracle == nil {
							c.Oracle = map[string]string{}
						}
						for k, v := range wr.Oracle {
							c.Oracle[k] = v
						}
					}
				case <-time.After(timeout):
					w.kill()
					w = nil
					c.GoOut = "TIMEOUT"
					atomic.AddInt64(&bad, 1)
				}
			}
		}()
	}
	wg.Wait()
}

func crashSummary(stderr string) string {
	lines := strings.Split(stderr, "\n")
	var first string
	var frame string
	for i, l := range lines {
		if first == "" && (strings.HasPrefix(l, "fatal error:") || strings.HasPrefix(l, "panic:") || strings.HasPrefix(l, "runtime:") || strings.Contains(l, "signal")) {
			first = strings.TrimSpace(l)
		}
		if frame == "" && strings.Contains(l, "jsight-api-core/") && i+1 < len(lines) {
			frame = strings.TrimSpace(l)
		}
	}
	if first == "" && len(lines) > 0 {
		first = strings.TrimSpace(lines[0])
	}
	if i := strings.Index(frame, "("); i > 0 {
		frame = frame[:i]
	}
	return first + " @ " + frame
}

type workerResult struct {
	Out    string            `json:"out"`
	Detail string            `json:"detail,omitempty"`
	Oracle map[string]string `json:"oracle,omitempty"`
}

// workerMain: read one JSON case per line, execute, answer one JSON line.
func workerMain() {
	in := bufio.NewReaderSize(os.Stdin, 1<<22)
	out := bufio.NewWriter(os.Stdout)
	for {
		line, err := in.ReadBytes('\n')
		if len(line) > 0 {
			var c Case
			if e := json.Unmarshal(line, &c); e != nil {
				fmt.Fprintln(out, `{"out":"HARNESS-ERROR bad case"}`)
			} else {
				r := execCase(&c)
				b, _ := json.Marshal(r)
				out.Write(b)
				out.WriteByte('\n')
			}
			out.Flush()
		}
		if err != nil {
			return
		}
	}
}

func execCase(c *Case) (r workerResult) {
	defer func() {
		if x := recover(); x != nil {
			r.Out = "PANIC"
			r.Detail = panicSummary(x)
		}
	}()
	f, ok := ops[c.Op]
	if !ok {
		return workerResult{Out: "HARNESS-ERROR unknown op " + c.Op}
	}
	return f.exec(c)
}

func panicSummary(x any) string {
	msg := fmt.Sprint(x)
	if len(msg) > 160 {
		msg = msg[:160]
	}
	// first frame inside the repository
	pcs := make([]uintptr, 64)
	n := runtime.Callers(3, pcs)
	frames := runtime.CallersFrames(pcs[:n])
	site := ""
	for {
		fr, more := frames.Next()
		if strings.Contains(fr.Function, "jsight-api-core/") && !strings.Contains(fr.Function, "verifharness") {
			fn := fr.Function
			if i := strings.LastIndex(fn, "/"); i >= 0 {
				fn = fn[i+1:]
			}
			site = fn
			break
		}
		if !more {
			break
		}
	}
	return strings.ReplaceAll(msg, "\n", " ") + " @ " + site
}

// ---------------------------------------------------------------------------
// Lean driver pool

func driverPath() string {
	if p := os.Getenv("VERIF_DRIVER"); p != "" {
		return p
	}
	return "/verif/lean/.lake/build/bin/driver"
}

// runDriver pipes the lines to parallel driver processes and returns the outputs in order.
func runDriver(lines []string) ([]string, error) {
	n := runtime.NumCPU()
	if n > 14 {
		n = 14
	}
	if len(lines) < 64 {
		n = 1
	}
	outs := make([]string, len(lines))
	chunk := (len(lines) + n - 1) / n
	var wg sync.WaitGroup
	var firstErr error
	var mu sync.Mutex
	for i := 0; i < n; i++ {
		lo, hi := i*chunk, (i+1)*chunk
		if lo >= len(lines) {
			break
		}
		if hi > len(lines) {
			hi = len(lines)
		}
		wg.Add(1)
		go func(lo, hi int) {
			defer wg.Done()
			cmd := exec.Command(driverPath())
			cmd.Stdin = strings.NewReader(strings.Join(lines[lo:hi], "\n") + "\n")
			var ob, eb bytes.Buffer
			cmd.Stdout = &ob
			cmd.Stderr = &eb
			err := cmd.Run()
			got := strings.Split(strings.TrimRight(ob.String(), "\n"), "\n")
			if err != nil || len(got) != hi-lo {
				mu.Lock()
				if firstErr == nil {
					firstErr = fmt.Errorf("driver failed (%v): %d lines for %d cases: %s", err, len(got), hi-lo, tail(eb.String(), 400))
				}
				mu.Unlock()
				// attribute: rerun one by one
				for k := lo; k < hi; k++ {
					c2 := exec.Command(driverPath())
					c2.Stdin = strings.NewReader(lines[k] + "\n")
					o, e := c2.Output()
					if e != nil {
						outs[k] = "DRIVER-CRASH"
					} else {
						outs[k] = strings.TrimRight(string(o), "\n")
					}
				}
				return
			}
			copy(outs[lo:hi], got)
		}(lo, hi)
	}
	wg.Wait()
	return outs, nil
}

func tail(s string, n int) string {
	if len(s) > n {
		return s[len(s)-n:]
	}
	return s
}

// ---------------------------------------------------------------------------
// ops and reports

type opDef struct {
	exec     func(c *Case) workerResult      // real code
	leanLine func(c *Case) string            // model input line
	resolve  func(c *Case, miss string) bool // answer an ORACLE-MISS; false if impossible
	noModel  bool                            // no Lean counterpart: monitors only
	agree    func(c *Case) (bool, bool)      // optional comparison: (agrees, abstained); default is string equality
}

var ops = map[string]*opDef{}

type Disagreement struct {
	ID     int               `json:"id"`
	Op     string            `json:"op"`
	Tag    string            `json:"tag"`
	Go     string            `json:"go"`
	Lean   string            `json:"lean"`
	LeanIn string            `json:"lean_in"`
	Files  map[string]string `json:"files_hex,omitempty"`
	Root   string            `json:"root,omitempty"`
	Args   []string          `json:"args,omitempty"`
	Prop   string            `json:"prop,omitempty"` // properties a monitor failure speaks about (comma separated)
	Detail string            `json:"detail,omitempty"`
}

type Report struct {
	Op                 string         `json:"op"`
	Seed               uint64         `json:"seed"`
	Evaluations        int            `json:"evaluations"`
	DistinctNontrivial int            `json:"distinct_nontrivial"`
	Rule               string         `json:"rule"`
	ByTag              map[string]int `json:"by_tag"`
	OutcomeClasses     map[string]int `json:"outcome_classes"`
	ErrorClasses       map[string]int `json:"error_classes,omitempty"`
	SizeHistogram      map[string]int `json:"size_histogram"`
	Disagreements      []Disagreement `json:"disagreements"`
	Monitor            []Disagreement `json:"monitor_failures"` // property monitor failures on the implementation's own output
	Samples            []any          `json:"samples"`
	WallS              float64        `json:"wall_s"`
	Notes              []string       `json:"notes,omitempty"`
	Abstained          int            `json:"abstained,omitempty"` // cases where the model does not claim to reproduce the implementation's error
}

func caseDisagreement(c *Case) Disagreement {
	d := Disagreement{ID: c.ID, Op: c.Op, Tag: c.Tag, Go: c.GoOut, Lean: c.LeanOut, LeanIn: c.LeanIn, Root: c.Root, Args: c.Args, Detail: c.Detail}
	if len(c.Files) > 0 {
		d.Files = map[string]string{}
		for k, v := range c.Files {
			d.Files[k] = hx(v)
		}
	}
	return d
}

// correspond runs real code and model over the cases and fills the report.
func correspond(op string, cases []*Case, rep *Report, timeout time.Duration) {
	def := ops[op]
	runWorkers(cases, timeout)
	{
		var kept []*Case
		for _, c := range cases {
			if c.GoOut != "SKIPPED" {
				kept = append(kept, c)
			}
		}
		if len(kept) < len(cases) {
			rep.Notes = append(rep.Notes, fmt.Sprintf("op %s: %d of %d cases skipped after %d timeouts / process deaths", op, len(cases)-len(kept), len(cases), 40))
			cases = kept
		}
	}
	pending := cases
	if def.noModel {
		pending = nil
		for _, c := range cases {
			c.LeanOut = c.GoOut
		}
	}
	for round := 0; round < 600 && len(pending) > 0; round++ {
		lines := make([]string, len(pending))
		for i, c := range pending {
			c.LeanIn = def.leanLine(c)
			lines[i] = c.LeanIn
		}
		outs, err := runDriver(lines)
		if err != nil {
			rep.Notes = append(rep.Notes, err.Error())
		}
		var next []*Case
		for i, c := range pending {
			c.LeanOut = outs[i]
			if def.resolve != nil && strings.HasPrefix(outs[i], "MISS ") {
				if def.resolve(c, strings.TrimPrefix(outs[i], "MISS ")) {
					next = append(next, c)
				}
			}
		}
		pending = next
	}
	distinct := map[string]bool{}
	for _, c := range cases {
		rep.Evaluations++
		rep.ByTag[c.Tag]++
		rep.OutcomeClasses[outcomeClass(c.GoOut)]++
		sz := 0
		for _, f := range c.Files {
			sz += len(f)
		}
		rep.SizeHistogram[sizeBucket(sz)]++
		if nontrivial(c.GoOut) {
			distinct[c.GoOut] = true
		}
		if def.agree != nil {
			ok, abst := def.agree(c)
			if abst {
				rep.Abstained++
			}
			if !ok {
				rep.Disagreements = append(rep.Disagreements, caseDisagreement(c))
			}
		} else if c.GoOut != c.LeanOut {
			rep.Disagreements = append(rep.Disagreements, caseDisagreement(c))
		}
	}
	rep.DistinctNontrivial += len(distinct)
}

func sizeBucket(n int) string {
	switch {
	case n == 0:
		return "0"
	case n < 16:
		return "1-15"
	case n < 64:
		return "16-63"
	case n < 256:
		return "64-255"
	case n < 1024:
		return "256-1023"
	default:
		return "1024+"
	}
}

func outcomeClass(out string) string {
	switch {
	case strings.HasPrefix(out, "PANIC"):
		return "panic"
	case strings.HasPrefix(out, "FATAL"):
		return "fatal"
	case strings.HasPrefix(out, "TIMEOUT"):
		return "timeout"
	case strings.Contains(out, "ERR ") || strings.Contains(out, "END err"):
		return "error"
	case strings.Contains(out, "END panic"):
		return "panic"
	default:
		return "ok"
	}
}

// nontrivial: neither an empty result nor an error at byte 0
func nontrivial(out string) bool {
	if out == "" || strings.HasSuffix(out, ":0") && strings.Contains(out, "LEX  |") {
		return false
	}
	return len(out) > 24
}

func newReport(op string, seed uint64) *Report {
	return &Report{Op: op, Seed: seed, ByTag: map[string]int{}, OutcomeClasses: map[string]int{}, SizeHistogram: map[string]int{}}
}

func sortedKeys(m map[string][]byte) []string {
	var ks []string
	for k := range m {
		ks = append(ks, k)
	}
	sort.Strings(ks)
	return ks
}
