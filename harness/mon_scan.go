package main

import (
	"fmt"
	"strconv"
	"strings"
)

type lexRec struct {
	ty   string
	b, e int64
}

func parseScanOut(out string) (lex []lexRec, end string, ok bool) {
	i := strings.Index(out, " | END ")
	if !strings.HasPrefix(out, "LEX ") || i < 0 {
		return nil, "", false
	}
	end = out[i+7:]
	for _, f := range strings.Fields(out[4:i]) {
		p := strings.Split(f, ":")
		if len(p) != 3 {
			return nil, "", false
		}
		b, _ := strconv.ParseInt(p[1], 10, 64)
		e, _ := strconv.ParseInt(p[2], 10, 64)
		lex = append(lex, lexRec{p[0], b, e})
	}
	return lex, end, true
}

// scanMonitor evaluates C12(a) on the implementation's own output:
// lexemes inside the file, begin <= end+1, text order, per-directive bracketing; no panic;
// error index inside the file (index == size allowed for end-of-file errors).
func scanMonitor(out string, size int) string {
	lex, end, ok := parseScanOut(out)
	if !ok {
		if strings.HasPrefix(out, "PANIC") || strings.HasPrefix(out, "FATAL") || strings.HasPrefix(out, "TIMEOUT") {
			return "crash: " + out
		}
		return ""
	}
	if end == "panic" {
		return "scanner panicked"
	}
	if end == "nonterminating" {
		return "scanner did not terminate"
	}
	var lastEnd int64 = -1
	state := "none" // none | kw | ann | open | body
	for _, l := range lex {
		if l.b < 0 || l.b > l.e+1 || l.e >= int64(size) {
			return fmt.Sprintf("lexeme %s [%d:%d] outside the file or inverted (size %d)", l.ty, l.b, l.e, size)
		}
		if l.b <= lastEnd && !(l.ty == "C" && l.b == lastEnd+0 && false) {
			return fmt.Sprintf("lexeme %s [%d:%d] overlaps or precedes the previous one (ends %d)", l.ty, l.b, l.e, lastEnd)
		}
		if l.e >= l.b {
			lastEnd = l.e
		} else if l.b-1 > lastEnd {
			lastEnd = l.b - 1
		}
		switch l.ty {
		case "K":
			state = "kw"
		case "P":
			if state != "kw" {
				return fmt.Sprintf("parameter [%d:%d] not directly after keyword/parameters (state %s)", l.b, l.e, state)
			}
		case "A":
			if state != "kw" {
				return fmt.Sprintf("annotation [%d:%d] in state %s", l.b, l.e, state)
			}
			state = "ann"
		case "O":
			// ContextOpen is a single-byte event emitted at directive-start positions; its pairing with
			// a directive is the core's business (C11: "( (" is rejected there), so a repeated '(' is not
			// a scanner-level bracketing fault
			if state != "kw" && state != "ann" && state != "none" && state != "body" && state != "open" {
				return fmt.Sprintf("context-open [%d] in state %s", l.b, state)
			}
			if state == "kw" || state == "ann" {
				state = "open"
			}
		case "S", "T", "E", "J":
			if state != "kw" && state != "ann" && state != "open" {
				return fmt.Sprintf("body %s [%d:%d] in state %s", l.ty, l.b, l.e, state)
			}
			state = "body"
		case "C":
			state = "none"
		}
	}
	if strings.HasPrefix(end, "err:") {
		p := strings.Split(end, ":")
		if len(p) == 3 && strings.Contains(string(unhexMust(p[1])), "does not match beginning event") {
			// the scanner's own consistency error surfaced to the user (Props/C12 proves it cannot)
			return "scanner ended a lexeme of another kind than the one it began (internal error surfaced)"
		}
		idx, _ := strconv.ParseInt(p[len(p)-1], 10, 64)
		if idx < 0 || idx > int64(size) {
			return fmt.Sprintf("error index %d outside the file (size %d)", idx, size)
		}
	}
	return ""
}

func init() {
	postChecks["scan"] = func(cases []*Case, rep *Report) {
		for _, c := range cases {
			if c.Op != "scan" {
				continue
			}
			if m := scanMonitor(c.GoOut, len(c.Files["root"])); m != "" {
				d := caseDisagreement(c)
				d.Lean = m
				d.Prop = "C12,C01"
				rep.Monitor = append(rep.Monitor, d)
			} else if m := exactMonitor(c); m != "" {
				d := caseDisagreement(c)
				d.Lean = m
				d.Prop = "C12"
				rep.Monitor = append(rep.Monitor, d)
			}
		}
	}
}

func init() {
	postChecks["proj"] = func(cases []*Case, rep *Report) {
		rep.Rule = "corpus files and include projects, mutations, token/line soups, rendered models in random layouts, rendered models split into include trees, random include graphs; non-trivial = distinct outputs"
		projPost(cases, rep)
	}
}

// exactMonitor (C12b): for a document rendered from a tree, the scanner's lexeme stream must be
// exactly the pieces it was rendered from.
func exactMonitor(c *Case) string {
	if len(c.Exp) == 0 {
		return ""
	}
	lex, end, ok := parseScanOut(c.GoOut)
	if !ok {
		return ""
	}
	if end != "eof" {
		return "a rendered well-formed document is rejected by the scanner: " + end
	}
	if len(lex) != len(c.Exp) {
		for i := 0; i < len(lex) && i < len(c.Exp); i++ {
			if lex[i].ty != c.Exp[i].Ty || lex[i].b != int64(c.Exp[i].B) || lex[i].e != int64(c.Exp[i].E) {
				return fmt.Sprintf("lexeme #%d is %s[%d:%d], the document was rendered from %s[%d:%d] (%d lexemes vs %d)", i, lex[i].ty, lex[i].b, lex[i].e, c.Exp[i].Ty, c.Exp[i].B, c.Exp[i].E, len(lex), len(c.Exp))
			}
		}
		return fmt.Sprintf("%d lexemes, the document was rendered from %d", len(lex), len(c.Exp))
	}
	for i := range lex {
		if lex[i].ty != c.Exp[i].Ty || lex[i].b != int64(c.Exp[i].B) || lex[i].e != int64(c.Exp[i].E) {
			return fmt.Sprintf("lexeme #%d is %s[%d:%d], the document was rendered from %s[%d:%d]", i, lex[i].ty, lex[i].b, lex[i].e, c.Exp[i].Ty, c.Exp[i].B, c.Exp[i].E)
		}
	}
	return ""
}
