package main

import (
	"path/filepath"
	"strconv"
	"strings"

	"github.com/jsightapi/jsight-api-core/core"
	"github.com/jsightapi/jsight-api-core/directive"
	"github.com/jsightapi/jsight-api-core/jerr"
	"github.com/jsightapi/jsight-schema-core/fs"
)

// op `cat`: the whole build (scan, MACRO/PASTE, registries, catalog) on the real code, against the
// Lean model Model/Build.lean which produces the catalog skeleton (which entities exist, in which
// order, with which names / annotations / descriptions / tags / formats) or the core's own errors.
// Everything jsight-schema-core decides is assumed to succeed by the model: when the real build fails
// with a message that is not one of the model's (catModelled), the case is an abstention.

// catModelled: canonical messages (after canonMsg, without the "M|" prefix) the model can produce;
// mirrors Build.modelledMessages
var catModelled = map[string]bool{}

func init() {
	for _, m := range []string{
		"the annotation is not allowed for this directive",
		"required parameter(s) not specified (Name)", "required parameter(s) not specified (TagName)",
		"required parameter(s) not specified (Version)", "required parameter(s) not specified (Title)",
		"required parameter(s) not specified (OperationId)", "required parameter(s) not specified (ProtocolName)",
		"required parameter(s) not specified (MethodName)", `required parameter(s) not specified "_"`,
		"required parameter(s) not specified",
		`the name "_" has already been declared before`, "the directive has already been defined",
		"the body cannot be empty", jerr.DescriptionIsEmpty, jerr.MacroIsEmpty, jerr.RecursionIsProhibited,
		jerr.DirectiveJSIGHTShouldBeTheFirst, jerr.ApartFromTheOpeningParenthesis,
		"macro not found", `incorrect context for the directive "_"`,
		`incorrect context for the directive "_" with the "_" parameter`,
		jerr.UnsupportedVersion, jerr.DirectiveJSIGHTGottaBeOnlyOneTime, jerr.DirectiveINFOGottaBeOnlyOneTime,
		jerr.DirectiveBaseURLAlreadyDefined, jerr.ParametersAreForbiddenForTheDirective,
		`the OperationId "_" has already been defined`, `the path "_" has already been defined`,
		"wrong description context", `resource not found "_"`, `tag not found "_"`,
		`server not found for "_"`, "path not found", "incorrect path", "HTTP method not found",
		"JSON-RPC method not found", "parent directive not found",
		`empty PATH parameter in "_"`, `the parameter of the path is duplicated: "_"`,
		`the ambiguous paths are not allowed: "_", "_", see the details here: https://jsight.io/docs/jsight-api-0-3#parameter-path`,
		`directives "_" and "_" cannot be within the same URL directive`,
		`this method has already been defined in the resource "_"`,
		jerr.CannotUseTheTypeAndSchemaNotationParametersTogether,
		"incorrect request", `the request cannot be empty for "_"`, `the response cannot be empty for "_"`,
		"You cannot specify User Type in the response directive if it has a child Body directive.",
		"incorrect context for the directive", `the parameter value have to be "_"`,
		`the directive "_" not found`, jerr.InfoIsEmpty,
		`undefined request body for resource "_"`, `undefined response body for resource "_", HTTP-code "_"`,
	} {
		catModelled[m] = true
	}
}

func firstLine(s string) string {
	if i := strings.IndexByte(s, '\n'); i >= 0 {
		return s[:i]
	}
	return s
}

// renderCatErr: like renderBuildErr, but a message wrapped by a PASTE keeps its first line only
// (the rest is the inner error's trace with absolute paths)
func renderCatErr(dp *diskProject, je *jerr.JApiError) string {
	file := ""
	var data []byte
	if je.File != nil {
		file = dp.rel(je.File.Name())
		data = je.File.Content().Data()
	}
	full := je.Error()
	var trace []string
	if strings.HasPrefix(full, je.Msg) && len(full) > len(je.Msg) {
		lines := strings.Split(full[len(je.Msg)+1:], "\n")
		for i, l := range lines {
			if i == 0 {
				continue
			}
			k := strings.LastIndex(l, ":")
			if k < 0 {
				continue
			}
			trace = append(trace, hxs(dp.rel(l[:k]))+":"+l[k+1:])
		}
	}
	return "ERR " + hxs(canonMsg(firstLine(je.Msg), data, uint64(je.Index))) + " " + hxs(file) + " " + strconv.FormatInt(int64(je.Index), 10) + " " +
		strconv.FormatInt(int64(je.Line), 10) + " " + strconv.FormatInt(int64(je.Column), 10) + " " + hxs(je.Quote) + " " + strings.Join(trace, ",")
}

func catOpts(c *Case) []core.Option {
	var opts []core.Option
	if len(c.Args) > 2 && c.Args[2] == "bans" && c.Args[1] != "" {
		var kinds []directive.Enumeration
		for _, k := range strings.Split(c.Args[1], ",") {
			if e, ok := kindByKeyword(k); ok {
				kinds = append(kinds, e)
			}
		}
		opts = append(opts, core.WithBannedDirectives(kinds...))
	}
	return opts
}

func execCat(c *Case) (r workerResult) {
	dp, err := materialize(c)
	if err != nil {
		return workerResult{Out: "HARNESS-ERROR " + err.Error()}
	}
	defer dp.cleanup()
	rootAbs := filepath.Join(dp.projDir, c.Root)
	if c.RootSpelling != "" {
		rootAbs = dp.projDir + "/" + c.RootSpelling
	}
	defer func() {
		if x := recover(); x != nil {
			r.Out = "PANIC"
			r.Detail = panicSummary(x)
		}
	}()
	// first pass: scan only, to ship the oracle answers the scanner model needs
	scan := core.NewJApiCore(fs.NewFile(rootAbs, c.Files[c.Root]), catOpts(c)...)
	if je := scan.VerifScanProject(); je != nil {
		return workerResult{Out: renderCatErr(dp, je)}
	}
	r.Oracle = map[string]string{}
	var seed func(dd []*directive.Directive)
	seed = func(dd []*directive.Directive) {
		for _, d := range dd {
			if bf, bb, _ := d.VerifBodyCoords(); bf != nil && int(bb) <= len(bf.Content().Data()) {
				kind := "j"
				switch d.Type() {
				case directive.Enum:
					kind = "e"
				case directive.Description:
					kind = ""
				}
				if d.NamedParameter("SchemaNotation") == "regex" {
					kind = ""
				}
				if kind != "" {
					r.Oracle[hxs(dp.rel(bf.Name()))+"#"+kind+"@"+strconv.Itoa(int(bb))] = lenAnswer(kind, bf.Content().Data()[bb:])
				}
			}
			seed(d.Children)
		}
	}
	seed(scan.VerifDirectives())
	// second pass: the whole build on a fresh core
	co := core.NewJApiCore(fs.NewFile(rootAbs, c.Files[c.Root]), catOpts(c)...)
	if je := co.BuildCatalog(); je != nil {
		r.Out = renderCatErr(dp, je)
		return r
	}
	j, e := co.Catalog().ToJson()
	if e != nil {
		r.Out = "TOJSON-ERROR " + firstLine(e.Error())
		return r
	}
	js := string(j)
	if strings.Contains(js, `\ufffd`) {
		r.Out = "OK-NONUTF8"
		return r
	}
	lines := jsonSummary(js)
	hexed := make([]string, len(lines))
	for i, l := range lines {
		hexed[i] = hxs(l)
	}
	r.Out = "CAT " + strings.Join(hexed, " ")
	return r
}

func catLeanLine(c *Case) string { return "cat" + strings.TrimPrefix(projLeanLine(c), "proj") }

// catAgree: (agrees, abstained)
func catAgree(c *Case) (bool, bool) {
	if c.GoOut == c.LeanOut {
		return true, false
	}
	if strings.HasPrefix(c.GoOut, "ERR ") {
		f := strings.Fields(c.GoOut)
		if len(f) > 1 {
			msg := strings.TrimPrefix(string(unhexMust(f[1])), "M|")
			if !catModelled[msg] {
				return true, true // an error the model does not claim to reproduce (decided by jsight-schema-core, or by the scanner's oracle)
			}
		}
	}
	switch {
	case strings.HasPrefix(c.GoOut, "TOJSON-ERROR"), c.GoOut == "OK-NONUTF8":
		return true, true
	}
	return false, false
}

func init() {
	ops["cat"] = &opDef{exec: execCat, leanLine: catLeanLine, resolve: projResolve, agree: catAgree}
}
