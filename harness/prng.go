package main

// splitmix64: every random choice of the harness derives from one state seeded by VERIF_SEED.
type PRNG struct{ s uint64 }

func NewPRNG(seed uint64) *PRNG { return &PRNG{s: seed*0x9E3779B97F4A7C15 + 0x1234567} }

func (p *PRNG) Next() uint64 {
	p.s += 0x9E3779B97F4A7C15
	z := p.s
	z = (z ^ (z >> 30)) * 0xBF58476D1CE4E5B9
	z = (z ^ (z >> 27)) * 0x94D049BB133111EB
	return z ^ (z >> 31)
}

func (p *PRNG) Intn(n int) int {
	if n <= 0 {
		return 0
	}
	return int(p.Next() % uint64(n))
}

func (p *PRNG) Chance(num, den int) bool { return p.Intn(den) < num }

func (p *PRNG) Fork() *PRNG { return NewPRNG(p.Next()) }

func Pick[T any](p *PRNG, xs []T) T { return xs[p.Intn(len(xs))] }
