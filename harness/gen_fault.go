package main

import (
	"fmt"
	"strings"
)

// C03: single known faults. A fault is injected into the tree of a valid generated document;
// we know the offending node, hence the file and line the error must name, and the message class.

type fault struct {
	class string   // name of the fault class
	msgs  []string // the error message must contain one of these
	node  *DNode   // the offending directive
}

func cloneTree(nodes []*DNode) []*DNode {
	var out []*DNode
	for _, n := range nodes {
		cp := *n
		cp.Params = append([]string(nil), n.Params...)
		cp.Kids = cloneTree(n.Kids)
		out = append(out, &cp)
	}
	return out
}

func findNodes(nodes []*DNode, pred func(n *DNode, parent *DNode) bool) []*DNode {
	var out []*DNode
	var walk func(ns []*DNode, parent *DNode)
	walk = func(ns []*DNode, parent *DNode) {
		for _, n := range ns {
			if pred(n, parent) {
				out = append(out, n)
			}
			walk(n.Kids, n)
		}
	}
	walk(nodes, nil)
	return out
}

func isMethodNode(n *DNode) bool { return isMethodKind(n.Keyword) }

// injectFault mutates the tree (a fresh clone) and describes the fault; nil if the class does not apply
func injectFaultClass(p *PRNG, class string, tree *[]*DNode) *fault {
	t := *tree
	top := func(kw string) []*DNode {
		var out []*DNode
		for _, n := range t {
			if n.Keyword == kw {
				out = append(out, n)
			}
		}
		return out
	}
	appendTop := func(n *DNode) { *tree = append(*tree, n) }
	switch class {
	case "duplicate-type", "duplicate-enum", "duplicate-server", "duplicate-tag":
		kw := map[string]string{"duplicate-type": "TYPE", "duplicate-enum": "ENUM", "duplicate-server": "SERVER", "duplicate-tag": "TAG"}[class]
		c := top(kw)
		if len(c) == 0 {
			return nil
		}
		src := Pick(p, c)
		cp := cloneTree([]*DNode{src})[0]
		if class == "duplicate-type" && p.Chance(1, 3) {
			// a fresh name that nothing refers to, declared twice with different notations (in either order)
			a := &DNode{Keyword: "TYPE", Params: []string{"@dup_kinds"}, Body: "{\n  \"dup\": 1\n}", BodyKind: "schema"}
			var b *DNode
			if p.Chance(1, 2) {
				b = &DNode{Keyword: "TYPE", Params: []string{"@dup_kinds", "regex"}, Body: "/ab+c/", BodyKind: "regex"}
			} else {
				b = &DNode{Keyword: "TYPE", Params: []string{"@dup_kinds", "any"}}
			}
			if p.Chance(1, 2) {
				a, b = b, a
			}
			appendTop(a)
			cp = b
		}
		appendTop(cp)
		return &fault{class, []string{"already", "duplicat", "not unique", "Duplicat"}, cp}
	case "duplicate-macro":
		m1 := &DNode{Keyword: "MACRO", Params: []string{"@dupMacro"}, Kids: []*DNode{{Keyword: "TYPE", Params: []string{"@fromMacro1", "any"}}}}
		m2 := &DNode{Keyword: "MACRO", Params: []string{"@dupMacro"}, Kids: []*DNode{{Keyword: "TYPE", Params: []string{"@fromMacro2", "any"}}}}
		appendTop(m1)
		appendTop(m2)
		return &fault{class, []string{"already"}, m2}
	case "duplicate-enum-pasted-twice":
		// an ENUM declared in the body of a macro that is pasted twice: the second PASTE declares the name again
		// (the PASTEs stand right after JSIGHT so that no implicit context swallows them; the macro is defined last)
		mac := &DNode{Keyword: "MACRO", Params: []string{"@dupEnumMacro"}, Kids: []*DNode{{Keyword: "ENUM", Params: []string{"@dupPastedEnum"}, Body: "[1, 2]", BodyKind: "enum"}}}
		p1 := &DNode{Keyword: "PASTE", Params: []string{"@dupEnumMacro"}}
		p2 := &DNode{Keyword: "PASTE", Params: []string{"@dupEnumMacro"}}
		*tree = append(append(append([]*DNode{t[0], p1, p2}, t[1:]...)), mac)
		return &fault{class, []string{"already"}, p2}
	case "duplicate-operation-id":
		ms := findNodes(t, func(n, _ *DNode) bool { return isMethodNode(n) })
		if len(ms) < 2 {
			return nil
		}
		a, b := ms[0], ms[len(ms)-1]
		strip := func(m *DNode) {
			var ks []*DNode
			for _, k := range m.Kids {
				if k.Keyword != "OperationId" {
					ks = append(ks, k)
				}
			}
			m.Kids = ks
		}
		strip(a)
		strip(b)
		a.Kids = append([]*DNode{{Keyword: "OperationId", Params: []string{"sameOp"}}}, a.Kids...)
		bad := &DNode{Keyword: "OperationId", Params: []string{"sameOp"}}
		b.Kids = append([]*DNode{bad}, b.Kids...)
		return &fault{class, []string{"OperationId"}, bad}
	case "duplicate-interaction":
		a := &DNode{Keyword: "GET", Params: []string{"/dupInteraction"}, Kids: []*DNode{{Keyword: "200", Params: []string{"any"}}}}
		b := &DNode{Keyword: "GET", Params: []string{"/dupInteraction"}, Kids: []*DNode{{Keyword: "200", Params: []string{"any"}}}}
		appendTop(a)
		appendTop(b)
		return &fault{class, []string{"already", "not unique"}, b}
	case "second-title", "second-version", "second-description":
		info := top("INFO")
		if len(info) == 0 {
			return nil
		}
		kw := map[string]string{"second-title": "Title", "second-version": "Version", "second-description": "Description"}[class]
		var bad *DNode
		has := false
		for _, k := range info[0].Kids {
			if k.Keyword == kw {
				has = true
			}
		}
		mk := func() *DNode {
			if kw == "Description" {
				return &DNode{Keyword: kw, Body: "twice", BodyKind: "text"}
			}
			return &DNode{Keyword: kw, Params: []string{"x2"}}
		}
		if !has {
			info[0].Kids = append(info[0].Kids, mk())
		}
		bad = mk()
		info[0].Kids = append(info[0].Kids, bad)
		return &fault{class, []string{"already", "not unique"}, bad}
	case "second-query", "second-request":
		ms := findNodes(t, func(n, _ *DNode) bool { return isMethodNode(n) && n.Keyword != "GET" })
		if len(ms) == 0 {
			return nil
		}
		m := Pick(p, ms)
		mk := func() *DNode {
			if class == "second-query" {
				return &DNode{Keyword: "Query", Body: "{\n  \"q\": 1\n}", BodyKind: "schema"}
			}
			return &DNode{Keyword: "Request", Params: []string{"any"}}
		}
		var ks []*DNode
		for _, k := range m.Kids {
			if (class == "second-query" && k.Keyword == "Query") || (class == "second-request" && k.Keyword == "Request") {
				continue
			}
			ks = append(ks, k)
		}
		bad := mk()
		// Query/Request come before the responses
		var pre, post []*DNode
		for _, k := range ks {
			if len(k.Keyword) == 3 && k.Keyword[0] >= '1' && k.Keyword[0] <= '5' {
				post = append(post, k)
			} else {
				pre = append(pre, k)
			}
		}
		m.Kids = append(append(append(pre, mk()), bad), post...)
		return &fault{class, []string{"already", "not unique"}, bad}
	case "undefined-type":
		ms := findNodes(t, func(n, _ *DNode) bool { return isMethodNode(n) })
		if len(ms) == 0 {
			return nil
		}
		m := Pick(p, ms)
		bad := &DNode{Keyword: "404", Params: []string{"@noSuchType"}}
		for _, k := range m.Kids {
			if k.Keyword == "404" {
				return nil
			}
		}
		m.Kids = append(m.Kids, bad)
		return &fault{class, []string{"not found"}, bad}
	case "undefined-tag":
		ms := findNodes(t, func(n, _ *DNode) bool { return isMethodNode(n) })
		if len(ms) == 0 {
			return nil
		}
		m := Pick(p, ms)
		var ks []*DNode
		for _, k := range m.Kids {
			if k.Keyword != "Tags" {
				ks = append(ks, k)
			}
		}
		bad := &DNode{Keyword: "Tags", Params: []string{"@noSuchTag"}}
		m.Kids = append([]*DNode{bad}, ks...)
		// if the method sits in a URL, half of the time give the URL its own (valid) Tags as well
		for _, u := range t {
			if u.Keyword == "URL" && containsNode(u, m) && p.Chance(1, 2) {
				hasTags := false
				for _, k := range u.Kids {
					if k.Keyword == "Tags" {
						hasTags = true
					}
				}
				if !hasTags {
					appendTop(&DNode{Keyword: "TAG", Params: []string{"@urlLevelTag"}})
					u.Kids = append([]*DNode{{Keyword: "Tags", Params: []string{"@urlLevelTag"}}}, u.Kids...)
				}
			}
		}
		return &fault{class, []string{"not found"}, bad}
	case "undefined-macro":
		bad := &DNode{Keyword: "PASTE", Params: []string{"@noSuchMacro"}}
		appendTop(bad)
		return &fault{class, []string{"macro not found"}, bad}
	case "missing-parameter":
		bad := &DNode{Keyword: Pick(p, []string{"SERVER", "TAG", "MACRO"})}
		if bad.Keyword == "SERVER" {
			bad.Kids = []*DNode{{Keyword: "BaseUrl", Params: []string{"http://x/"}}}
		}
		if bad.Keyword == "MACRO" {
			bad.Kids = []*DNode{{Keyword: "TYPE", Params: []string{"@inNamelessMacro", "any"}}}
		}
		appendTop(bad)
		return &fault{class, []string{"required parameter"}, bad}
	case "forbidden-annotation":
		c := findNodes(t, func(n, _ *DNode) bool {
			return n.Keyword == "URL" || n.Keyword == "INFO" || n.Keyword == "Title" || n.Keyword == "OperationId" || n.Keyword == "BaseUrl"
		})
		if len(c) == 0 {
			return nil
		}
		bad := Pick(p, c)
		bad.Ann = "not allowed here"
		return &fault{class, []string{"annotation is not allowed"}, bad}
	case "jsight-missing":
		if len(t) < 2 {
			return nil
		}
		*tree = t[1:]
		return &fault{class, []string{"must be JSIGHT"}, t[1]}
	case "jsight-repeated":
		bad := &DNode{Keyword: "JSIGHT", Params: []string{"0.3"}}
		appendTop(bad)
		return &fault{class, []string{"JSIGHT has already"}, bad}
	case "jsight-not-first":
		if len(t) < 2 {
			return nil
		}
		*tree = append(append([]*DNode{t[1], t[0]}, t[2:]...))
		return &fault{class, []string{"must be JSIGHT"}, t[1]}
	case "similar-paths":
		a := &DNode{Keyword: "GET", Params: []string{"/simPath/{a}"}, Kids: []*DNode{{Keyword: "200", Params: []string{"any"}}}}
		b := &DNode{Keyword: "POST", Params: []string{"/simPath/{b}"}, Kids: []*DNode{{Keyword: "200", Params: []string{"any"}}}}
		appendTop(a)
		appendTop(b)
		return &fault{class, []string{"ambiguous paths"}, b}
	case "duplicate-path-parameter":
		bad := &DNode{Keyword: "GET", Params: []string{"/dupParam/{id}/x/{id}"}, Kids: []*DNode{{Keyword: "200", Params: []string{"any"}}}}
		appendTop(bad)
		return &fault{class, []string{"duplicated"}, bad}
	case "response-without-body", "request-without-body":
		// a response / request that has Headers (an object schema) but no body of any kind: the core's
		// validateCatalog must refuse it at the response / Request keyword
		ms := findNodes(t, func(n, _ *DNode) bool { return isMethodNode(n) && (class == "response-without-body" || n.Keyword != "GET") })
		if len(ms) == 0 {
			return nil
		}
		m := Pick(p, ms)
		hdr := &DNode{Keyword: "Headers", Body: "{\n  \"X-Request-Id\": \"abc\"\n}", BodyKind: "schema"}
		if class == "response-without-body" {
			for _, k := range m.Kids {
				if k.Keyword == "418" {
					return nil
				}
			}
			bad := &DNode{Keyword: "418", Kids: []*DNode{hdr}}
			m.Kids = append(m.Kids, bad)
			return &fault{class, []string{"undefined response body"}, bad}
		}
		var pre, post []*DNode
		for _, k := range m.Kids {
			if k.Keyword == "Request" {
				continue
			}
			if len(k.Keyword) == 3 && k.Keyword[0] >= '1' && k.Keyword[0] <= '5' {
				post = append(post, k)
			} else {
				pre = append(pre, k)
			}
		}
		bad := &DNode{Keyword: "Request", Kids: []*DNode{hdr}}
		m.Kids = append(append(pre, bad), post...)
		return &fault{class, []string{"undefined request body"}, bad}
	case "missing-body":
		ms := findNodes(t, func(n, _ *DNode) bool { return isMethodNode(n) })
		if len(ms) == 0 {
			return nil
		}
		m := Pick(p, ms)
		for _, k := range m.Kids {
			if k.Keyword == "409" {
				return nil
			}
		}
		bad := &DNode{Keyword: "409"}
		m.Kids = append(m.Kids, bad)
		return &fault{class, []string{"empty", "body"}, bad}
	}
	return nil
}

var faultClasses = []string{"duplicate-type", "duplicate-enum", "duplicate-server", "duplicate-tag", "duplicate-macro", "duplicate-operation-id",
	"duplicate-interaction", "second-title", "second-version", "second-description", "second-query", "second-request", "undefined-type",
	"undefined-tag", "undefined-macro", "missing-parameter", "forbidden-annotation", "jsight-missing", "jsight-repeated", "jsight-not-first",
	"similar-paths", "duplicate-path-parameter", "response-without-body", "request-without-body", "duplicate-enum-pasted-twice"}

// injectFault (used by the split generator): any class
func injectFault(p *PRNG, tree []*DNode) string {
	return ""
}

// where a node lives after the tree has been cut into include files
func genFaultCases(p *PRNG, n int, tier string) []*Case {
	var cases []*Case
	add := func(c *Case) { c.ID = len(cases); cases = append(cases, c) }
	for len(cases) < n {
		m := GenModel(p.Fork(), 1+p.Intn(3))
		// keep the base valid and simple to reason about: no regex-or recursion etc. (the base is checked to build)
		base := ModelTree(m)
		class := faultClasses[(len(cases)/2)%len(faultClasses)] // two cases (base, faulty) per round
		tree := cloneTree(base)
		f := injectFaultClass(p, class, &tree)
		if f == nil {
			class = Pick(p, faultClasses)
			tree = cloneTree(base)
			if f = injectFaultClass(p, class, &tree); f == nil {
				continue
			}
		}
		l := RandomLayout(p.Fork())
		l.Comments = 0
		pos := map[*DNode]NodePos{}
		files := map[string][]byte{}
		mode := p.Intn(3)
		if strings.HasPrefix(class, "jsight") || class == "duplicate-macro" || class == "undefined-macro" || class == "duplicate-enum-pasted-twice" {
			mode = 0
		}
		switch mode {
		case 1: // fault inside an INCLUDEd file: cut the top-level block holding the faulty node into a file
			var doc []*DNode
			cut := false
			for _, n := range tree {
				if !cut && n.Keyword != "JSIGHT" && containsNode(n, f.node) {
					files["faulty/inc.jst"] = []byte(RenderTreePos([]*DNode{n}, l, "faulty/inc.jst", pos))
					doc = append(doc, &DNode{Keyword: "INCLUDE", Params: []string{"faulty/inc.jst"}})
					cut = true
					continue
				}
				doc = append(doc, n)
			}
			files["root.jst"] = []byte(RenderTreePos(doc, l, "root.jst", map[*DNode]NodePos{}))
		default:
			files["root.jst"] = []byte(RenderTreePos(tree, l, "root.jst", pos))
		}
		np, ok := pos[f.node]
		if !ok {
			continue
		}
		// the valid base, to make sure the generator's document is valid without the fault
		bc := singleBuild("fault-base", []byte(RenderTree(base, l)))
		bc.Group, bc.Role = fmt.Sprintf("fault-%d", len(cases)), "base"
		add(bc)
		c := buildCase("fault-"+class, files, "root.jst")
		c.Group, c.Role = bc.Group, class
		c.Want = fmt.Sprintf("%s|%s|%d|%s", class, np.File, np.Line, strings.Join(f.msgs, "~"))
		add(c)
	}
	return cases
}

func containsNode(n, x *DNode) bool {
	if n == x {
		return true
	}
	for _, k := range n.Kids {
		if containsNode(k, x) {
			return true
		}
	}
	return false
}

func faultPost(cases []*Case, rep *Report) {
	for _, cs := range groupCases(cases) {
		if !strings.HasPrefix(cs[0].Group, "fault-") {
			continue
		}
		base := baseOf(cs)
		if k, _ := buildOutcome(base); k != "ok" {
			continue // the generated base is not valid: says nothing about the fault
		}
		for _, v := range cs {
			if v == base || v.Want == "" {
				continue
			}
			w := strings.SplitN(v.Want, "|", 4)
			class, file, msgs := w[0], w[1], strings.Split(w[3], "~")
			var line int
			fmt.Sscanf(w[2], "%d", &line)
			k, _ := buildOutcome(v)
			if k == "crash" {
				continue
			}
			if k == "ok" {
				addMonitor(rep, v, "C03", fmt.Sprintf("fault %s injected at %s:%d, but the document is accepted", class, file, line))
				continue
			}
			msg, ef, el := errFields(v)
			okMsg := false
			for _, m := range msgs {
				if strings.Contains(msg, m) {
					okMsg = true
				}
			}
			if !okMsg {
				addMonitor(rep, v, "C03", fmt.Sprintf("fault %s at %s:%d: rejected with an error of another class: %q (%s:%d)", class, file, line, msg, ef, el))
				continue
			}
			if ef != file || el != line {
				addMonitor(rep, v, "C03", fmt.Sprintf("fault %s: the error %q is located at %s:%d, the offending directive is at %s:%d", class, msg, ef, el, file, line))
			}
		}
	}
}

func init() {
	generators["fault"] = genFaultCases
	postChecks["fault"] = func(cases []*Case, rep *Report) {
		rep.Rule = "valid generated documents x 23 fault classes x injection site (in the root file or in an INCLUDEd file) x layout; the error must carry the class message and the file:line of the offending directive; non-trivial = distinct outputs"
		buildPost(cases, rep, false)
		faultPost(cases, rep)
	}
}
