package main

import (
	"fmt"
	"path/filepath"
	"strconv"
	"strings"
)

// spec of a location: nl = the file's new-line symbol (last byte of the first run of \n/\r, default \n);
// line = 1 + number of nl before idx; column = 1 + distance to the previous nl. The end position
// (idx == len) belongs to the last line.
func specNL(data []byte) byte {
	nl := byte('\n')
	found := false
	for _, c := range data {
		if c == '\n' || c == '\r' {
			nl = c
			found = true
		} else if found {
			break
		}
	}
	return nl
}

func specLineCol(data []byte, idx int) (int, int) {
	nl := specNL(data)
	line, col := 1, 1
	for _, c := range data[:idx] {
		if c == nl {
			line++
			col = 1
		} else {
			col++
		}
	}
	return line, col
}

func specQuote(data []byte, idx int) string {
	if len(data) == 0 {
		return ""
	}
	nl := specNL(data)
	if idx >= len(data) && data[len(data)-1] == nl {
		return "" // the end position after a final new line is an empty last line
	}
	i := idx
	if i > len(data)-1 {
		i = len(data) - 1
	}
	// the line containing position i (a position on the new-line byte belongs to the line it ends)
	b := i
	for b > 0 && !(data[b-1] == nl) {
		b--
	}
	if data[i] == nl && i == idx {
		// on the new-line byte itself: the line that ends here
		b = i
		for b > 0 && data[b-1] != nl {
			b--
		}
	}
	e := idx
	if e < b {
		e = b
	}
	for e < len(data) && data[e] != nl {
		e++
	}
	if e > 0 && e <= len(data) && e-1 >= b {
		c := data[e-1]
		if (nl == '\n' && c == '\r') || (nl == '\r' && c == '\n') {
			e--
		}
	}
	q := string(data[b:e])
	if len(q) > 200 {
		q = q[:197]
		return strings.TrimLeft(q, " \t\r\n") + "..."
	}
	t := strings.TrimLeft(q, " \t\r\n")
	if t == "" {
		return q
	}
	return t
}

// locMonitor: C07 on the implementation's own output of a project-level case
func locMonitor(c *Case) string {
	out := c.GoOut
	if i := strings.Index(out, " | "); i >= 0 && strings.HasPrefix(out, "ACC ") {
		out = out[i+3:]
	}
	if !strings.HasPrefix(out, "ERR ") {
		return ""
	}
	f := strings.Split(out, " ")
	if len(f) < 8 {
		return ""
	}
	file := string(unhexMust(f[2]))
	idx, _ := strconv.Atoi(f[3])
	line, _ := strconv.Atoi(f[4])
	col, _ := strconv.Atoi(f[5])
	quote := string(unhexMust(f[6]))
	data, ok := c.Files[file]
	if !ok {
		return fmt.Sprintf("error names file %q, which does not belong to the project", file)
	}
	if strings.HasPrefix(file, "../") {
		return fmt.Sprintf("error names file %q outside the project", file)
	}
	if idx < 0 || idx > len(data) {
		return fmt.Sprintf("error index %d outside file %q (size %d)", idx, file, len(data))
	}
	if len(data) > 0 {
		wl, wc := specLineCol(data, idx)
		if line != wl || col != wc {
			return fmt.Sprintf("error at index %d of %q reports line %d column %d, that index really is line %d column %d", idx, file, line, col, wl, wc)
		}
		if wq := specQuote(data, idx); quote != wq {
			return fmt.Sprintf("error quote %q is not the text of its line %q", quote, wq)
		}
	}
	// include trace: innermost first; each entry is the INCLUDE line that pulled in the previous file; ends at the root
	var trace []string
	if f[7] != "" {
		trace = strings.Split(f[7], ",")
	}
	prev := file
	root := filepath.Clean(c.Root)
	for k, t := range trace {
		p := strings.SplitN(t, ":", 2)
		g := string(unhexMust(p[0]))
		ln, _ := strconv.Atoi(p[1])
		gd, ok := c.Files[g]
		if !ok {
			return fmt.Sprintf("trace entry %d names %q, not a project file", k, g)
		}
		txt := lineText(gd, ln)
		incs := staticIncludes([]byte(txt))
		if len(incs) == 0 {
			return fmt.Sprintf("trace entry %d (%s:%d) is not an INCLUDE line: %q", k, g, ln, txt)
		}
		if tgt := filepath.Join(filepath.Dir(g), incs[0]); tgt != prev {
			// is there another INCLUDE line in the same file that does pull in `prev`? (stale cached trace)
			for _, other := range staticIncludes(gd) {
				if filepath.Join(filepath.Dir(g), other) == prev {
					return fmt.Sprintf("stale include trace: entry %d names %s:%d (INCLUDE %s), the chain went through another INCLUDE of %s that pulls in %q", k, g, ln, incs[0], g, prev)
				}
			}
			return fmt.Sprintf("trace entry %d (%s:%d) includes %q, but the next inner file of the chain is %q", k, g, ln, tgt, prev)
		}
		prev = g
	}
	if len(trace) > 0 && prev != root {
		return fmt.Sprintf("trace ends at %q, not at the root file", prev)
	}
	if len(trace) == 0 && file != root {
		return fmt.Sprintf("error in included file %q carries no include trace", file)
	}
	return ""
}

func lineText(data []byte, line int) string {
	if line <= 0 {
		return ""
	}
	nl := specNL(data)
	cur := 1
	start := 0
	for i, c := range data {
		if cur == line && c == nl {
			return string(data[start:i])
		}
		if c == nl {
			cur++
			start = i + 1
		}
	}
	if cur == line {
		return string(data[start:])
	}
	return ""
}
