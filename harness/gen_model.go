package main

import (
	"fmt"
	"strings"
)

// ---------------------------------------------------------------------------
// G1: abstract API model

type Schema struct {
	Notation string // "jsight" | "regex" | "any" | "empty" | "ref" (a user type name as parameter)
	Body     string // jsight text (multi-line, unindented), regex `/.../`, or "@name" for ref
	Uses     []string
}

type MInfo struct{ Title, Version, Description string }
type MServer struct{ Name, Annotation, BaseUrl string }
type MTag struct{ Name, Annotation, Description string }
type MType struct {
	Name, Annotation string
	S                Schema
}
type MEnum struct{ Name, Annotation, Body string }
type MResponse struct {
	Code, Annotation string
	Body             Schema
	Headers          string // jsight object or ""
	UseBodyDirective bool
}
type MMethod struct {
	Verb, Annotation, Description, OperationId string
	Tags                                       []string
	QueryExample, QueryFormat, QuerySchema     string
	Request                                    *Schema
	RequestHeaders                             string
	RequestUseBody                             bool
	Responses                                  []MResponse
	PathSchema                                 string // Path directive body or ""
}
type MResource struct {
	Path    string
	Tags    []string
	Methods []MMethod
	Grouped bool // URL-grouped vs stand-alone methods
}
type MRpcMethod struct {
	Name, Annotation, Description string
	Tags                          []string
	Params, Result                string
}
type MRpc struct {
	ProtoPos int // how many Method directives precede the Protocol directive inside the URL
	Path     string
	Methods  []MRpcMethod
}

type Model struct {
	Info      *MInfo
	Servers   []MServer
	Tags      []MTag
	Types     []MType
	Enums     []MEnum
	Resources []MResource
	Rpc       []MRpc
}

var words = []string{"cat", "dog", "user", "order", "item", "pet", "name", "id", "size", "color", "age", "city", "zip", "note", "price"}
var annWords = []string{"Get it", "List all", "A thing", "Some note", "Create", "The best", "x", "Remove  it", "id of user"}

func GenModel(p *PRNG, size int) *Model {
	m := &Model{}
	if p.Chance(2, 3) {
		m.Info = &MInfo{}
		if p.Chance(3, 4) {
			m.Info.Title = Pick(p, []string{"My API", "Cats", "\"Quoted\" title", "T"})
		}
		if p.Chance(3, 4) {
			m.Info.Version = Pick(p, []string{"1.0", "0.3", "v2", "2024-01"})
		}
		if p.Chance(1, 2) {
			m.Info.Description = genDescription(p)
		}
		if m.Info.Title == "" && m.Info.Version == "" && m.Info.Description == "" {
			m.Info.Title = "T"
		}
	}
	for i := p.Intn(3); i > 0; i-- {
		s := MServer{Name: uniqueName(p, "srv", len(m.Servers)), BaseUrl: Pick(p, []string{"https://a.io/", "http://localhost:80/api", "https://x.y/{v}"})}
		if p.Chance(1, 2) {
			s.Annotation = Pick(p, annWords)
		}
		m.Servers = append(m.Servers, s)
	}
	for i := p.Intn(3); i > 0; i-- {
		t := MTag{Name: uniqueName(p, "tag", len(m.Tags))}
		if p.Chance(1, 2) {
			t.Annotation = Pick(p, annWords)
		}
		if p.Chance(1, 3) {
			t.Description = genDescription(p)
		}
		m.Tags = append(m.Tags, t)
	}
	for i := p.Intn(2); i > 0; i-- {
		e := MEnum{Name: uniqueName(p, "en", len(m.Enums)), Body: Pick(p, []string{"[\"a\", \"b\"]", "[1, \"a\", 3]", "[\n  \"x\", // first\n  \"a\"\n]", "[true, \"a\", \"s\"]"})}
		if p.Chance(1, 3) {
			e.Annotation = Pick(p, annWords)
		}
		m.Enums = append(m.Enums, e)
	}
	nTypes := p.Intn(size + 2)
	for i := 0; i < nTypes; i++ {
		m.Types = append(m.Types, MType{Name: uniqueName(p, "ty", i)})
	}
	for i := range m.Types {
		t := &m.Types[i]
		if p.Chance(1, 3) {
			t.Annotation = Pick(p, annWords)
		}
		switch p.Intn(8) {
		case 0:
			t.S = Schema{Notation: "regex", Body: Pick(p, []string{"/ab+c/", "/[a-z]{2,4}/", "/x\\/y/"})}
		case 1:
			t.S = Schema{Notation: "any"}
		default:
			// only earlier, referable types: keeps the type graph acyclic
			sub := &Model{Enums: m.Enums}
			for _, u := range m.Types[:i] {
				if u.S.Notation == "jsight" || u.S.Notation == "regex" {
					sub.Types = append(sub.Types, u)
				}
			}
			t.S = genObjectSchema(p, sub, 2, true)
		}
	}
	nRes := 1 + p.Intn(size+1)
	usedPaths := map[string]bool{}
	opIds := 0
	for i := 0; i < nRes; i++ {
		path := genPath(p, i)
		if usedPaths[path] {
			continue
		}
		usedPaths[path] = true
		r := MResource{Path: path, Grouped: p.Chance(2, 3)}
		if r.Grouped && len(m.Tags) > 0 && p.Chance(1, 4) {
			r.Tags = []string{Pick(p, m.Tags).Name}
		}
		verbs := []string{"GET", "POST", "PUT", "PATCH", "DELETE"}
		nM := 1 + p.Intn(3)
		for j := 0; j < nM && j < len(verbs); j++ {
			k := j + p.Intn(len(verbs)-j)
			verbs[j], verbs[k] = verbs[k], verbs[j]
			mm := MMethod{Verb: verbs[j]}
			if p.Chance(1, 2) {
				mm.Annotation = Pick(p, annWords)
			}
			if p.Chance(1, 4) {
				mm.Description = genDescription(p)
			}
			if p.Chance(1, 4) {
				opIds++
				mm.OperationId = fmt.Sprintf("op%d", opIds)
			}
			if len(m.Tags) > 0 && p.Chance(1, 3) {
				mm.Tags = []string{Pick(p, m.Tags).Name}
			}
			if p.Chance(1, 4) {
				mm.QuerySchema = "{\n  \"page\": 1, // {optional: true}\n  \"q\": \"x\"\n}"
				if p.Chance(1, 2) {
					mm.QueryExample = "page=1&q=x"
				}
				if p.Chance(1, 3) {
					mm.QueryFormat = Pick(p, []string{"htmlFormEncoded", "noFormat"})
				}
			}
			if mm.Verb != "GET" && p.Chance(1, 2) {
				s := genBodySchema(p, m)
				mm.Request = &s
				mm.RequestUseBody = p.Chance(1, 3)
				if p.Chance(1, 4) {
					mm.RequestHeaders = "{\n  \"X-Token\": \"abc\"\n}"
					mm.RequestUseBody = true
				}
			}
			nR := p.Intn(3)
			codes := []string{"200", "201", "404", "500", "204", "302"}
			for q := 0; q < nR; q++ {
				rs := MResponse{Code: codes[(q*2+p.Intn(2))%len(codes)], Body: genBodySchema(p, m)}
				if p.Chance(1, 3) { // any order of codes, repeated codes
					rs.Code = Pick(p, codes)
				}
				if p.Chance(1, 3) {
					rs.Annotation = Pick(p, annWords)
				}
				rs.UseBodyDirective = p.Chance(1, 4)
				if p.Chance(1, 5) {
					rs.Headers = "{\n  \"X-Rate\": 10\n}"
					rs.UseBodyDirective = true
				}
				mm.Responses = append(mm.Responses, rs)
			}
			if strings.Contains(path, "{") && j == 0 && p.Chance(1, 3) {
				mm.PathSchema = genPathSchema(path)
			}
			r.Methods = append(r.Methods, mm)
		}
		m.Resources = append(m.Resources, r)
	}
	// sometimes an explicit TAG carries the very name the path-derived tag of a resource would get
	if len(m.Resources) > 0 && p.Chance(1, 4) {
		r := Pick(p, m.Resources)
		seg := strings.Split(strings.TrimPrefix(r.Path, "/"), "/")[0]
		dup := false
		for _, t := range m.Tags {
			if t.Name == seg {
				dup = true
			}
		}
		if !dup && seg != "" && isNameBytes(seg) {
			m.Tags = append(m.Tags, MTag{Name: seg, Annotation: Pick(p, annWords), Description: genDescription(p)})
		}
	}
	if p.Chance(1, 5) {
		rp := MRpc{Path: fmt.Sprintf("/rpc%d", p.Intn(3))}
		if p.Chance(1, 3) {
			rp.ProtoPos = 1 + p.Intn(2)
		}
		if !usedPaths[rp.Path] {
			for j := 1 + p.Intn(2); j > 0; j-- {
				rm := MRpcMethod{Name: fmt.Sprintf("m%d", j)}
				if p.Chance(1, 2) {
					rm.Annotation = Pick(p, annWords)
				}
				if p.Chance(1, 3) {
					rm.Description = genDescription(p)
				}
				if p.Chance(2, 3) {
					rm.Params = "{\n  \"a\": 1\n}"
					if p.Chance(1, 2) {
						rm.Params = genObjectSchema(p, referable(m), 1, true).Body
					}
				}
				if p.Chance(2, 3) {
					rm.Result = Pick(p, []string{"{\n  \"ok\": true\n}", "[1, 2]", "\"str\""})
					if p.Chance(1, 3) {
						rm.Result = genObjectSchema(p, referable(m), 1, true).Body
					}
				}
				if len(m.Tags) > 0 && p.Chance(1, 4) {
					rm.Tags = []string{Pick(p, m.Tags).Name}
				}
				rp.Methods = append(rp.Methods, rm)
			}
			m.Rpc = append(m.Rpc, rp)
		}
	}
	return m
}

func uniqueName(p *PRNG, prefix string, i int) string {
	switch p.Intn(6) {
	case 0: // every byte a user type name may have: '_' and '-' matter to name mangling (path tags) and escaping
		return fmt.Sprintf("%s_%s-%d", Pick(p, words), prefix, i)
	case 1:
		return fmt.Sprintf("%s__%s%d_", strings.ToUpper(Pick(p, words)), prefix, i)
	}
	return fmt.Sprintf("%s%s%d", Pick(p, words), strings.Title(prefix), i)
}

func isNameBytes(s string) bool {
	for i := 0; i < len(s); i++ {
		c := s[i]
		if !(c >= 'a' && c <= 'z' || c >= 'A' && c <= 'Z' || c >= '0' && c <= '9' || c == '_' || c == '-') {
			return false
		}
	}
	return s != ""
}

func genDescription(p *PRNG) string {
	return Pick(p, []string{"Some text.", "Line one\nline two", "A *markdown* text\n\n- item", "x"})
}

func genPath(p *PRNG, i int) string {
	base := fmt.Sprintf("/%s%d", Pick(p, words), i)
	switch p.Intn(8) {
	case 0:
		base = fmt.Sprintf("/%s_%d", Pick(p, words), i)
	case 1:
		base = fmt.Sprintf("/%s-%d.v1", Pick(p, words), i)
	case 2:
		base = fmt.Sprintf("/%s~%d", strings.ToUpper(Pick(p, words)), i)
	}
	switch p.Intn(4) {
	case 0:
		return base + "/{id}"
	case 1:
		if p.Chance(1, 4) {
			// two parameters that differ only in case are two parameters
			return base + "/{id}/sub/{" + Pick(p, []string{"ID", "Id", "iD"}) + "}"
		}
		return base + "/{id}/sub/{subId}"
	case 2:
		return base + "/list"
	}
	return base
}

func genPathSchema(path string) string {
	var names []string
	for _, seg := range strings.Split(path, "/") {
		if strings.HasPrefix(seg, "{") && strings.HasSuffix(seg, "}") {
			names = append(names, seg[1:len(seg)-1])
		}
	}
	var b strings.Builder
	b.WriteString("{\n")
	for i, n := range names {
		sep := ","
		if i == len(names)-1 {
			sep = ""
		}
		fmt.Fprintf(&b, "  \"%s\": %d%s // {min: 1}\n", n, i+1, sep)
	}
	b.WriteString("}")
	return b.String()
}

func genScalar(p *PRNG) string {
	return Pick(p, []string{"1", "42", "\"str\"", "true", "3.14", "\"2021-01-01\"", "-5", "\"\""})
}

func genObjectSchema(p *PRNG, m *Model, depth int, allowRefs bool) Schema {
	var uses []string
	var b strings.Builder
	var obj func(ind string, d int)
	obj = func(ind string, d int) {
		n := 1 + p.Intn(3)
		b.WriteString("{\n")
		for i := 0; i < n; i++ {
			key := fmt.Sprintf("%s%d", Pick(p, words), i)
			b.WriteString(ind + "  \"" + key + "\": ")
			sep := ","
			if i == n-1 {
				sep = ""
			}
			switch k := p.Intn(10); {
			case k == 0 && d > 0:
				obj(ind+"  ", d-1)
				b.WriteString(sep + "\n")
			case k == 1 && d > 0:
				b.WriteString("[" + genScalar(p) + "]" + sep + "\n")
			case k == 2 && allowRefs && len(m.Types) > 0:
				t := Pick(p, m.Types).Name
				uses = append(uses, t)
				b.WriteString("@" + t + sep + "\n")
			case k == 3 && allowRefs && len(m.Enums) > 0:
				e := Pick(p, m.Enums).Name
				b.WriteString("\"a\"" + sep + " // {enum: @" + e + "}\n")
			case k == 4:
				b.WriteString("7" + sep + " // {min: 1, optional: true} - a note\n")
			case k == 5 && allowRefs && len(m.Types) > 1:
				t1, t2 := Pick(p, m.Types).Name, Pick(p, m.Types).Name
				uses = append(uses, t1, t2)
				b.WriteString("@" + t1 + Pick(p, []string{" | ", "|", " |", "| "}) + "@" + t2 + sep + "\n")
			default:
				b.WriteString(genScalar(p) + sep + "\n")
			}
		}
		b.WriteString(ind + "}")
	}
	obj("", depth)
	body := b.String()
	if allowRefs && p.Chance(1, 6) {
		var objs []string
		for _, t := range m.Types {
			if t.S.Notation == "jsight" && strings.HasPrefix(t.S.Body, "{") && !strings.Contains(t.S.Body, "allOf") {
				objs = append(objs, t.Name)
			}
		}
		if len(objs) > 0 {
			t := Pick(p, objs)
			uses = append(uses, t)
			// keys of this object carry an index suffix from a different draw than the base type's: rename to avoid overriding a base property
			body = strings.Replace(body, "{\n", "{ // {allOf: \"@"+t+"\"}\n", 1)
			body = strings.ReplaceAll(body, "\": ", "X\": ")
		}
	}
	return Schema{Notation: "jsight", Body: body, Uses: uses}
}

func referable(m *Model) *Model {
	sub := &Model{Enums: m.Enums}
	for _, u := range m.Types {
		if u.S.Notation == "jsight" || u.S.Notation == "regex" {
			sub.Types = append(sub.Types, u)
		}
	}
	return sub
}

func genBodySchema(p *PRNG, m *Model) Schema {
	m = referable(m)
	switch p.Intn(10) {
	case 0:
		return Schema{Notation: "any"}
	case 1:
		return Schema{Notation: "empty"}
	case 2:
		return Schema{Notation: "regex", Body: "/ok|fail/"}
	case 3, 4:
		if len(m.Types) > 0 {
			t := Pick(p, m.Types).Name
			if p.Chance(1, 3) { // array of a user type
				return Schema{Notation: "ref", Body: "[@" + t + "]", Uses: []string{t}}
			}
			return Schema{Notation: "ref", Body: "@" + t, Uses: []string{t}}
		}
	case 5:
		return Schema{Notation: "jsight", Body: "[\n  1, 2\n]"}
	}
	return genObjectSchema(p, m, 1, true)
}

// ---------------------------------------------------------------------------
// G2: layout

type Layout struct {
	Indent       int    // spaces per level
	NL           string // "\n", "\r\n", "\r"
	ExplicitCtx  int    // 0 never, 1 sometimes, 2 always where legal
	BlockAnn     bool   // /* */ instead of //
	QuoteParams  int    // 0 never (unless needed), 1 sometimes, 2 always
	Comments     int    // 0 none, 1 some # lines and ### blocks between directives
	BlankLines   int    // 0..2 extra blank lines between blocks
	TrailingWs   bool
	BodySameLine bool // put short bodies on the directive line where possible (not used for multi-line)
	TabSep       bool // separate keyword / parameters / annotation by tabs and runs of blanks, not only by one blank
	AnnStars     bool // block annotations may end in a run of stars right before the closing */ (scan cases only: the value changes)
	rng          *PRNG
}

func RandomLayout(p *PRNG) *Layout {
	return &Layout{
		Indent: Pick(p, []int{0, 2, 2, 4, 1}), NL: Pick(p, []string{"\n", "\n", "\n", "\r\n", "\r"}),
		ExplicitCtx: p.Intn(3), BlockAnn: p.Chance(1, 4), QuoteParams: p.Intn(3), Comments: p.Intn(2),
		BlankLines: p.Intn(3), TrailingWs: p.Chance(1, 5), TabSep: p.Chance(1, 4), rng: p.Fork(),
	}
}

func PlainLayout() *Layout { return &Layout{Indent: 2, NL: "\n", rng: NewPRNG(1)} }

// A rendered document is a tree of directive nodes; rendering to text is separate
// so that C08/C09/C10/C15 transformations can work on the tree.
type DNode struct {
	Keyword  string
	Params   []string
	Ann      string
	Body     string // body text (schema / description / enum / regex), "" if none
	BodyKind string // "schema" | "text" | "enum" | "regex"
	Kids     []*DNode
	Explicit bool // always written with an explicit ( ) context
}

func ModelTree(m *Model) []*DNode {
	var out []*DNode
	out = append(out, &DNode{Keyword: "JSIGHT", Params: []string{"0.3"}})
	if m.Info != nil {
		n := &DNode{Keyword: "INFO"}
		if m.Info.Title != "" {
			n.Kids = append(n.Kids, &DNode{Keyword: "Title", Params: []string{m.Info.Title}})
		}
		if m.Info.Version != "" {
			n.Kids = append(n.Kids, &DNode{Keyword: "Version", Params: []string{m.Info.Version}})
		}
		if m.Info.Description != "" {
			n.Kids = append(n.Kids, &DNode{Keyword: "Description", Body: m.Info.Description, BodyKind: "text"})
		}
		out = append(out, n)
	}
	for _, s := range m.Servers {
		out = append(out, &DNode{Keyword: "SERVER", Params: []string{"@" + s.Name}, Ann: s.Annotation,
			Kids: []*DNode{{Keyword: "BaseUrl", Params: []string{s.BaseUrl}}}})
	}
	for _, t := range m.Tags {
		n := &DNode{Keyword: "TAG", Params: []string{"@" + t.Name}, Ann: t.Annotation}
		if t.Description != "" {
			n.Kids = append(n.Kids, &DNode{Keyword: "Description", Body: t.Description, BodyKind: "text"})
		}
		out = append(out, n)
	}
	for _, t := range m.Types {
		out = append(out, schemaNode("TYPE", []string{"@" + t.Name}, t.Annotation, t.S))
	}
	for _, e := range m.Enums {
		out = append(out, &DNode{Keyword: "ENUM", Params: []string{"@" + e.Name}, Ann: e.Annotation, Body: e.Body, BodyKind: "enum"})
	}
	for _, r := range m.Resources {
		var methods []*DNode
		for _, mm := range r.Methods {
			n := &DNode{Keyword: mm.Verb, Ann: mm.Annotation}
			if !r.Grouped {
				n.Params = []string{r.Path}
			}
			if mm.Description != "" {
				n.Kids = append(n.Kids, &DNode{Keyword: "Description", Body: mm.Description, BodyKind: "text"})
			}
			if mm.OperationId != "" {
				n.Kids = append(n.Kids, &DNode{Keyword: "OperationId", Params: []string{mm.OperationId}})
			}
			if len(mm.Tags) > 0 {
				n.Kids = append(n.Kids, tagsNode(mm.Tags))
			}
			if mm.PathSchema != "" {
				n.Kids = append(n.Kids, &DNode{Keyword: "Path", Body: mm.PathSchema, BodyKind: "schema"})
			}
			if mm.QuerySchema != "" {
				q := &DNode{Keyword: "Query", Body: mm.QuerySchema, BodyKind: "schema"}
				if mm.QueryFormat != "" {
					q.Params = append(q.Params, mm.QueryFormat)
				}
				if mm.QueryExample != "" {
					q.Params = append(q.Params, mm.QueryExample)
				}
				n.Kids = append(n.Kids, q)
			}
			if mm.Request != nil {
				if mm.RequestUseBody {
					rq := &DNode{Keyword: "Request"}
					if mm.RequestHeaders != "" {
						rq.Kids = append(rq.Kids, &DNode{Keyword: "Headers", Body: mm.RequestHeaders, BodyKind: "schema"})
					}
					rq.Kids = append(rq.Kids, schemaNode("Body", nil, "", *mm.Request))
					n.Kids = append(n.Kids, rq)
				} else {
					n.Kids = append(n.Kids, schemaNode("Request", nil, "", *mm.Request))
				}
			}
			for _, rs := range mm.Responses {
				if rs.UseBodyDirective {
					rn := &DNode{Keyword: rs.Code, Ann: rs.Annotation}
					if rs.Headers != "" {
						rn.Kids = append(rn.Kids, &DNode{Keyword: "Headers", Body: rs.Headers, BodyKind: "schema"})
					}
					rn.Kids = append(rn.Kids, schemaNode("Body", nil, "", rs.Body))
					n.Kids = append(n.Kids, rn)
				} else {
					n.Kids = append(n.Kids, schemaNode(rs.Code, nil, rs.Annotation, rs.Body))
				}
			}
			methods = append(methods, n)
		}
		if r.Grouped {
			u := &DNode{Keyword: "URL", Params: []string{r.Path}}
			if len(r.Tags) > 0 && len(methods) >= 2 && len(methods[1].Kids) > 0 && (len(r.Path)+len(methods))%2 == 0 {
				// the URL-level Tags after some of the methods: the method right before it is closed by an explicit ')',
				// so that the Tags line belongs to the URL again (after an implicit method it would be the method's own)
				methods[1].Explicit = true
				u.Kids = append(u.Kids, methods[0], methods[1], tagsNode(r.Tags))
				u.Kids = append(u.Kids, methods[2:]...)
			} else {
				if len(r.Tags) > 0 {
					u.Kids = append(u.Kids, tagsNode(r.Tags))
				}
				u.Kids = append(u.Kids, methods...)
			}
			out = append(out, u)
		} else {
			out = append(out, methods...)
		}
	}
	for _, r := range m.Rpc {
		u := &DNode{Keyword: "URL", Params: []string{r.Path}}
		proto := &DNode{Keyword: "Protocol", Params: []string{"json-rpc-2.0"}}
		for i, mm := range r.Methods {
			if i == r.ProtoPos {
				u.Kids = append(u.Kids, proto)
				proto = nil
			}
			n := &DNode{Keyword: "Method", Params: []string{mm.Name}, Ann: mm.Annotation}
			if mm.Description != "" {
				n.Kids = append(n.Kids, &DNode{Keyword: "Description", Body: mm.Description, BodyKind: "text"})
			}
			if len(mm.Tags) > 0 {
				n.Kids = append(n.Kids, tagsNode(mm.Tags))
			}
			if mm.Params != "" {
				n.Kids = append(n.Kids, &DNode{Keyword: "Params", Body: mm.Params, BodyKind: "schema"})
			}
			if mm.Result != "" {
				n.Kids = append(n.Kids, &DNode{Keyword: "Result", Body: mm.Result, BodyKind: "schema"})
			}
			u.Kids = append(u.Kids, n)
		}
		if proto != nil {
			u.Kids = append(u.Kids, proto)
		}
		out = append(out, u)
	}
	return out
}

func tagsNode(tags []string) *DNode {
	n := &DNode{Keyword: "Tags"}
	for _, t := range tags {
		n.Params = append(n.Params, "@"+t)
	}
	return n
}

func schemaNode(kw string, params []string, ann string, s Schema) *DNode {
	n := &DNode{Keyword: kw, Params: append([]string(nil), params...), Ann: ann}
	switch s.Notation {
	case "jsight":
		n.Body, n.BodyKind = s.Body, "schema"
	case "regex":
		n.Params = append(n.Params, "regex")
		n.Body, n.BodyKind = s.Body, "regex"
	case "any", "empty":
		n.Params = append(n.Params, s.Notation)
	case "ref":
		n.Params = append(n.Params, s.Body)
	}
	return n
}

func needsQuote(s string) bool {
	if s == "" {
		return true
	}
	for _, c := range s {
		if c == ' ' || c == '\t' || c == '#' || c == '"' || c == '\n' {
			return true
		}
	}
	return strings.HasPrefix(s, "//") || strings.HasPrefix(s, "/*")
}

func quoteParam(s string) string {
	s = strings.ReplaceAll(s, "\\", "\\\\")
	s = strings.ReplaceAll(s, "\"", "\\\"")
	return "\"" + s + "\""
}

func RenderModel(m *Model, l *Layout) string { return RenderTree(ModelTree(m), l) }

// NodePos: file, 1-based line and byte index of a rendered directive keyword
type NodePos struct {
	File  string
	Line  int
	Index int
}

func countNL(s, nl string) int { return strings.Count(s, nl) }

// RenderTreePos renders into `file` and records the position of every node's keyword
func RenderTreePos(nodes []*DNode, l *Layout, file string, pos map[*DNode]NodePos) string {
	var b strings.Builder
	r := &renderer{b: &b, l: l, file: file, lines: pos}
	for i, n := range nodes {
		r.node(n, 0, i == 0)
	}
	return b.String()
}

// ExpLex is a lexeme the rendered text is known to contain (type code as in the scan op, byte extent).
type ExpLex struct {
	Ty   string
	B, E int
}

func RenderTree(nodes []*DNode, l *Layout) string {
	s, _ := RenderTreeLex(nodes, l)
	return s
}

// RenderTreeLex renders the tree and returns the lexemes it was rendered from, byte for byte.
func RenderTreeLex(nodes []*DNode, l *Layout) (string, []ExpLex) {
	var b strings.Builder
	r := &renderer{b: &b, l: l}
	for i, n := range nodes {
		r.node(n, 0, i == 0)
	}
	r.closeText(b.Len())
	return b.String(), r.lex
}

type renderer struct {
	b         *strings.Builder
	l         *Layout
	lex       []ExpLex
	openText  int // index into lex of a Text lexeme whose end is the byte before the next keyword / EOF; -1 if none
	hasOpen   bool
	afterBody bool
	file      string
	lines     map[*DNode]NodePos // where each node's keyword was written
}

// closeText ends a pending implicit Description text at position `next` (start of the next keyword or ')' or EOF)
func (r *renderer) closeText(next int) {
	if r.hasOpen {
		r.lex[r.openText].E = next - 1
		r.hasOpen = false
	}
}

func canExplicit(kw string) bool {
	switch kw {
	case "JSIGHT", "Title", "Version", "BaseUrl", "Tags", "OperationId", "Protocol", "PASTE", "INCLUDE":
		return false
	}
	return true
}

func (r *renderer) node(n *DNode, depth int, first bool) {
	b, l := r.b, r.l
	rng := l.rng
	ind := strings.Repeat(" ", depth*l.Indent)
	if !first {
		for k := 0; k < l.BlankLines && depth < 2; k++ {
			if rng.Chance(1, 2) {
				b.WriteString(l.NL)
			}
		}
		// no comment right after a schema/enum body: schema-core counts trailing comments into the body extent
		if l.Comments > 0 && rng.Chance(1, 4) && !r.hasOpen && !r.afterBody {
			if rng.Chance(1, 2) {
				// every shape of a line comment: empty, blank only, dashes, text, a second '#' inside
				b.WriteString(ind + Pick(rng, []string{"# a comment", "#", "# ", "#---", "#x", "# a # b", "#\t"}) + l.NL)
			} else {
				b.WriteString(ind + "###" + l.NL + ind + "block # comment" + l.NL + ind + "###" + l.NL)
			}
		}
	}
	b.WriteString(ind)
	r.closeText(b.Len())
	r.afterBody = false
	if r.lines != nil {
		r.lines[n] = NodePos{File: r.file, Line: 1 + countNL(b.String(), l.NL), Index: b.Len()}
	}
	r.lex = append(r.lex, ExpLex{"K", b.Len(), b.Len() + len(n.Keyword) - 1})
	b.WriteString(n.Keyword)
	sep := func() string {
		if l.TabSep {
			return Pick(rng, []string{" ", "\t", "\t", "  ", "\t ", " \t"})
		}
		return " "
	}
	for _, p := range n.Params {
		q := needsQuote(p) || l.QuoteParams == 2 || (l.QuoteParams == 1 && rng.Chance(1, 2))
		txt := p
		if q {
			txt = quoteParam(p)
		}
		b.WriteString(sep())
		r.lex = append(r.lex, ExpLex{"P", b.Len(), b.Len() + len(txt) - 1})
		b.WriteString(txt)
	}
	if n.Ann != "" {
		if l.BlockAnn {
			b.WriteString(sep() + "/*")
			if l.AnnStars && rng.Chance(1, 2) {
				// the text ends in 1..4 stars, directly followed by the closing */ : "/* ann **/", "/***/"
				txt := " " + n.Ann + strings.Repeat("*", 1+rng.Intn(4))
				if rng.Chance(1, 4) {
					txt = strings.Repeat("*", 1+rng.Intn(3))
				}
				r.lex = append(r.lex, ExpLex{"A", b.Len(), b.Len() + len(txt) - 1})
				b.WriteString(txt + "*/")
			} else {
				r.lex = append(r.lex, ExpLex{"A", b.Len(), b.Len() + len(n.Ann) + 1}) // " ann " between the delimiters
				b.WriteString(" " + n.Ann + " */")
			}
		} else {
			b.WriteString(sep() + "//")
			start := b.Len()
			b.WriteString(" " + n.Ann)
			r.lex = append(r.lex, ExpLex{"A", start, b.Len() - 1})
		}
	}
	explicit := canExplicit(n.Keyword) && (n.Body != "" || len(n.Kids) > 0) &&
		(n.Explicit || l.ExplicitCtx == 2 || (l.ExplicitCtx == 1 && rng.Chance(1, 3)))
	if n.BodyKind == "text" && !explicit && textNeedsParens(n.Body) {
		explicit = true
	}
	if l.TrailingWs && !(n.Ann != "" && !l.BlockAnn) {
		if l.TabSep {
			b.WriteString(Pick(rng, []string{"  ", "\t", " \t"}))
		} else {
			b.WriteString("  ")
		}
	}
	b.WriteString(l.NL)
	textStart := b.Len() // the first byte after the line break of the header line (since fix c002d11 also in CRLF files)
	if n.BodyKind == "text" {
		// Description: the parentheses delimit the text, they are part of the Text lexeme
		if explicit {
			b.WriteString(ind + "(" + l.NL)
		}
		bi := strings.Repeat(" ", (depth+1)*l.Indent)
		for _, ln := range strings.Split(n.Body, "\n") {
			if ln == "" {
				b.WriteString(l.NL)
			} else {
				b.WriteString(bi + ln + l.NL)
			}
		}
		if explicit {
			b.WriteString(ind + ")")
			r.lex = append(r.lex, ExpLex{"T", textStart, b.Len() - 1})
			b.WriteString(l.NL)
		} else {
			r.lex = append(r.lex, ExpLex{"T", textStart, -1})
			r.openText = len(r.lex) - 1
			r.hasOpen = true
		}
		return
	}
	if explicit {
		b.WriteString(ind)
		r.lex = append(r.lex, ExpLex{"O", b.Len(), b.Len()})
		b.WriteString("(" + l.NL)
	}
	if n.Body != "" {
		bi := strings.Repeat(" ", (depth+1)*l.Indent)
		lines := strings.Split(n.Body, "\n")
		start, end := -1, -1
		for _, ln := range lines {
			if ln == "" {
				b.WriteString(l.NL)
			} else {
				b.WriteString(bi)
				if start < 0 {
					start = b.Len() + (len(ln) - len(strings.TrimLeft(ln, " \t")))
				}
				b.WriteString(ln)
				end = b.Len() - 1
				if l.TrailingWs && rng.Chance(1, 2) && !strings.Contains(ln, "//") {
					b.WriteString(" \t") // trailing blanks after a body line
				}
				b.WriteString(l.NL)
			}
		}
		ty := "S"
		switch n.BodyKind {
		case "enum":
			ty = "E"
		case "regex":
			ty = "T"
		}
		r.lex = append(r.lex, ExpLex{ty, start, end})
		r.afterBody = ty != "T"
	}
	for _, k := range n.Kids {
		r.node(k, depth+1, false)
	}
	if explicit {
		b.WriteString(ind)
		r.closeText(b.Len())
		r.lex = append(r.lex, ExpLex{"C", b.Len(), b.Len()})
		b.WriteString(")" + l.NL)
	}
}

// a description whose lines could be taken for directives must be parenthesised
func textNeedsParens(t string) bool {
	for _, ln := range strings.Split(t, "\n") {
		s := strings.TrimLeft(ln, " \t")
		for _, k := range keywordTokens {
			if strings.HasPrefix(s, k) {
				return true
			}
		}
		if strings.HasPrefix(s, "(") || strings.HasPrefix(s, ")") {
			return true
		}
	}
	return false
}
