package main

import (
	"encoding/json"
	"flag"
	"fmt"
	"os"
	"path/filepath"
	"strconv"
	"sync"
	"time"

	"github.com/jsightapi/jsight-api-core/kit"
)

// conc: C18. Built with -race. Projects are materialised once; every project is built and
// serialised sequentially (baseline), then all of them concurrently on separate goroutines,
// and each built catalog is serialised by several goroutines at once. Results must be the
// sequential ones; the race detector reports data races (exit status 66).

type concResult struct {
	Err, Json, Indent, OA string
}

func buildOne(root string) (kit.JApi, concResult, bool) {
	var r concResult
	defer func() {
		if x := recover(); x != nil {
			r.Err = "PANIC " + fmt.Sprint(x)
		}
	}()
	j, je := kit.NewJapi(root)
	if je != nil {
		r.Err = je.Error()
		return j, r, false
	}
	return j, r, true
}

func serialise(j *kit.JApi) (r concResult) {
	defer func() {
		if x := recover(); x != nil {
			r.Err = "PANIC " + fmt.Sprint(x)
		}
	}()
	b, e := j.ToJson()
	r.Json = sha(b) + fmt.Sprint(e)
	b, e = j.ToJsonIndent()
	r.Indent = sha(b) + fmt.Sprint(e)
	b, e = j.ToOpenAPIJson()
	r.OA = sha(b) + fmt.Sprint(e != nil)
	return r
}

func concMain(args []string) {
	fs := flag.NewFlagSet("conc", flag.ExitOnError)
	n := fs.Int("n", 200, "number of projects per batch")
	batches := fs.Int("batches", 5, "number of batches")
	seedS := fs.String("seed", os.Getenv("VERIF_SEED"), "seed")
	out := fs.String("out", "", "report file")
	fs.Parse(args)
	seed, _ := strconv.ParseUint(*seedS, 10, 64)
	p := NewPRNG(seed ^ hashStr("conc"))
	t0 := time.Now()
	rep := newReport("conc", seed)
	rep.Rule = "batches of corpus and generated projects: each built+serialised alone (baseline), then all at once on separate goroutines, and every catalog serialised by 4 goroutines simultaneously, under the Go race detector; non-trivial = distinct results"
	distinct := map[string]bool{}
	for b := 0; b < *batches; b++ {
		cases := genBuildBase(p.Fork(), *n)
		var roots []string
		var dps []*diskProject
		for _, c := range cases {
			dp, err := materialize(c)
			if err != nil {
				continue
			}
			dps = append(dps, dp)
			roots = append(roots, filepath.Join(dp.projDir, c.Root))
		}
		// sequential baseline
		base := make([]concResult, len(roots))
		for i, r := range roots {
			j, res, ok := buildOne(r)
			if ok {
				res = serialise(&j)
			}
			base[i] = res
			distinct[res.Err+res.Json] = true
		}
		// concurrent
		got := make([]concResult, len(roots))
		shared := make([][4]concResult, len(roots))
		var wg sync.WaitGroup
		sem := make(chan struct{}, 16)
		for i, r := range roots {
			wg.Add(1)
			go func(i int, r string) {
				defer wg.Done()
				sem <- struct{}{}
				defer func() { <-sem }()
				j, res, ok := buildOne(r)
				if !ok {
					got[i] = res
					return
				}
				// several goroutines serialise the same catalog
				var w2 sync.WaitGroup
				for k := 0; k < 4; k++ {
					w2.Add(1)
					go func(k int) {
						defer w2.Done()
						shared[i][k] = serialise(&j)
					}(k)
				}
				w2.Wait()
				got[i] = shared[i][0]
			}(i, r)
		}
		wg.Wait()
		for i := range roots {
			rep.Evaluations++
			rep.ByTag[cases[i].Tag]++
			if got[i] != base[i] {
				d := caseDisagreement(cases[i])
				d.Lean = fmt.Sprintf("concurrent result differs from the sequential one: %v vs %v", got[i], base[i])
				d.Prop = "C18"
				if sameButExamplesHash(got[i], base[i]) {
					d.Lean = "concurrent result differs only in generated examples (shared example generator): " + d.Lean
				}
				rep.Monitor = append(rep.Monitor, d)
				continue
			}
			if base[i].Err == "" {
				for k := 1; k < 4; k++ {
					if shared[i][k] != shared[i][0] {
						d := caseDisagreement(cases[i])
						d.Lean = fmt.Sprintf("goroutines serialising one catalog disagree: %v vs %v", shared[i][k], shared[i][0])
						d.Prop = "C18"
						rep.Monitor = append(rep.Monitor, d)
						break
					}
				}
			}
		}
		for _, dp := range dps {
			dp.cleanup()
		}
	}
	rep.DistinctNontrivial = len(distinct)
	rep.WallS = time.Since(t0).Seconds()
	rep.Samples = append(rep.Samples, map[string]any{"batches": *batches, "projects_per_batch": *n})
	bts, _ := json.MarshalIndent(rep, "", " ")
	if *out != "" {
		os.WriteFile(*out, bts, 0o644)
	}
	fmt.Fprintf(os.Stderr, "op=conc cases=%d monitor=%d wall=%.1fs\n", rep.Evaluations, len(rep.Monitor), rep.WallS)
}

func sameButExamplesHash(a, b concResult) bool { return false }
