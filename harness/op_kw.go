package main

import (
	"fmt"
	"strings"

	"github.com/jsightapi/jsight-api-core/directive"
)

// the 30 keywords of JSight API 0.3 (independent pin of the specification)
var specKeywords = []string{
	"JSIGHT", "INFO", "Title", "Version", "Description", "SERVER", "BaseUrl", "URL", "GET", "POST", "PUT",
	"PATCH", "DELETE", "Body", "Request", "Path", "Headers", "Query", "TYPE", "ENUM", "MACRO", "PASTE",
	"INCLUDE", "Protocol", "Method", "Params", "Result", "TAG", "Tags", "OperationId",
}

func isSpecKeyword(w string) bool {
	for _, k := range specKeywords {
		if k == w {
			return true
		}
	}
	if len(w) == 3 {
		for _, c := range w {
			if c < '0' || c > '9' {
				return false
			}
		}
		return w[0] >= '1' && w[0] <= '5'
	}
	return false
}

// genKwCases: every keyword and response-code sample, all words at edit distance 1
// (substitution over a byte alphabet, deletion, insertion, case flip, truncation),
// each followed by a terminator byte; scanned as a whole file.
func genKwCases(p *PRNG, n int, tier string) []*Case {
	alpha := []byte("aAzZ0159 _-#/(\x00\xff\t\n")
	terms := []string{" ", "\t", "\n", "\r", "", "#", "/", "(", ")", "x", "0", "\"", ":", "\x00", "\xff"}
	if tier == "thorough" {
		alpha = nil
		for i := 0; i < 256; i++ {
			alpha = append(alpha, byte(i))
		}
		terms = nil
		for i := 0; i < 256; i++ {
			terms = append(terms, string([]byte{byte(i)}))
		}
		terms = append(terms, "")
	}
	words := map[string]bool{}
	base := append([]string(nil), specKeywords...)
	base = append(base, "100", "199", "200", "404", "599", "600", "099", "999", "50", "5000", "1a0")
	for _, k := range base {
		words[k] = true
		for i := 0; i <= len(k); i++ {
			if i < len(k) {
				words[k[:i]+k[i+1:]] = true // deletion
				words[k[:i]] = true          // truncation
				b := []byte(k)
				if b[i] >= 'a' && b[i] <= 'z' {
					b[i] -= 32
				} else if b[i] >= 'A' && b[i] <= 'Z' {
					b[i] += 32
				}
				words[string(b)] = true
			}
			for _, a := range alpha {
				words[k[:i]+string([]byte{a})+k[i:]] = true // insertion
				if i < len(k) {
					words[k[:i]+string([]byte{a})+k[i+1:]] = true // substitution
				}
			}
		}
	}
	for a := 0; a < 10; a++ { // all 3-digit words
		for b := 0; b < 10; b++ {
			for c := 0; c < 10; c++ {
				words[fmt.Sprintf("%d%d%d", a, b, c)] = true
			}
		}
	}
	var ws []string
	for w := range words {
		if w != "" {
			ws = append(ws, w)
		}
	}
	sortStrings(ws)
	var cases []*Case
	for _, w := range ws {
		for ti, t := range terms {
			if tier != "thorough" && !isSpecKeyword(w) && ti >= 5 && p.Intn(4) != 0 {
				continue
			}
			cases = append(cases, &Case{ID: len(cases), Op: "scan", Files: map[string][]byte{"root": []byte(w + t)}, Root: "root",
				Tag: "kw", Args: []string{hxs(w), hxs(t)}})
		}
	}
	if n > 0 && len(cases) > n && tier != "thorough" {
		// deterministic thinning, keeping all exact keywords
		var out []*Case
		for _, c := range cases {
			if isSpecKeyword(string(unhexMust(c.Args[0]))) || p.Intn(len(cases)) < n {
				c.ID = len(out)
				out = append(out, c)
			}
		}
		cases = out
	}
	return cases
}

// kwMonitor: C13 evaluated on the implementation's own output
func kwMonitor(c *Case) string {
	w := string(unhexMust(c.Args[0]))
	t := string(unhexMust(c.Args[1]))
	lex, end, ok := parseScanOut(c.GoOut)
	if !ok {
		return "crash: " + c.GoOut
	}
	accepted := len(lex) >= 1 && lex[0].ty == "K" && lex[0].b == 0 && lex[0].e == int64(len(w))-1
	legalTerm := t == " " || t == "\t" || t == "\n" || t == "\r" || t == "" || t == "#" || t == "/"
	containsTerm := strings.ContainsAny(w, " \t\n\r#/") || w[0] == '(' || w[0] == ')' // '(' and ')' are legal at a directive start and are not words
	if containsTerm {
		return "" // the word itself is split by a terminator: covered by the shorter word
	}
	want := isSpecKeyword(w) && legalTerm
	if accepted && !isSpecKeyword(w) {
		return fmt.Sprintf("word %q accepted as a directive keyword", w)
	}
	if want && !accepted {
		return fmt.Sprintf("keyword %q followed by %q not accepted (%s)", w, t, end)
	}
	if accepted {
		if _, err := directive.NewDirectiveType(w); err != nil {
			return fmt.Sprintf("scanner accepts %q but the directive table does not know it", w)
		}
		if !legalTerm && !strings.HasPrefix(end, "err:") {
			return fmt.Sprintf("keyword %q followed by illegal byte %q did not fail (%s)", w, t, end)
		}
	}
	if !accepted && !isSpecKeyword(w) && strings.HasPrefix(end, "err:") {
		// error must be at the first deviating byte: the longest prefix of w that is a prefix of some keyword
		idx := errIndex(end)
		dev := firstDeviation(w + t)
		if idx != dev {
			return fmt.Sprintf("word %q rejected at %d, first deviating byte is %d", w+t, idx, dev)
		}
	}
	return ""
}

func errIndex(end string) int {
	p := strings.Split(end, ":")
	var n int
	fmt.Sscanf(p[len(p)-1], "%d", &n)
	return n
}

// firstDeviation: index of the first byte after which s is no longer a prefix of
// (keyword + legal terminator ...); len(s) if s is such a prefix (error at EOF)
func firstDeviation(s string) int {
	for i := 0; i < len(s); i++ {
		pre := s[:i+1]
		ok := false
		for _, k := range specKeywords {
			if strings.HasPrefix(k, pre) {
				ok = true
				break
			}
		}
		if !ok && len(pre) <= 3 { // response codes
			ok = pre[0] >= '1' && pre[0] <= '5'
			for _, c := range pre[1:] {
				if c < '0' || c > '9' {
					ok = false
				}
			}
		}
		if !ok {
			return i
		}
	}
	return len(s)
}

func unhexMust(s string) []byte {
	if s == "-" {
		return nil
	}
	b := make([]byte, len(s)/2)
	for i := range b {
		fmt.Sscanf(s[2*i:2*i+2], "%02x", &b[i])
	}
	return b
}

func sortStrings(xs []string) {
	for i := 1; i < len(xs); i++ {
		for j := i; j > 0 && xs[j] < xs[j-1]; j-- {
			xs[j], xs[j-1] = xs[j-1], xs[j]
		}
	}
}

func init() {
	generators["kw"] = genKwCases
	postChecks["kw"] = func(cases []*Case, rep *Report) {
		rep.Rule = "every JSight keyword and response-code sample, all words at edit distance 1 over the byte alphabet, all 3-digit words, each followed by a terminator byte; non-trivial = distinct scanner outputs other than an error at byte 0"
		for _, c := range cases {
			if m := kwMonitor(c); m != "" {
				d := caseDisagreement(c)
				d.Lean = m
				d.Prop = "C13"
				rep.Monitor = append(rep.Monitor, d)
			}
		}
	}
}
