package main

import (
	"fmt"
	"path/filepath"
	"strings"
)

// corpus projects: a corpus file that uses INCLUDE, together with every .jst file below its directory
func corpusProjects() []*Case {
	corpus := loadCorpus()
	byDir := map[string][]CorpusFile{}
	for _, f := range corpus {
		byDir[filepath.Dir(f.Path)] = append(byDir[filepath.Dir(f.Path)], f)
	}
	var out []*Case
	for _, f := range corpus {
		if !strings.Contains(string(f.Data), "INCLUDE") || strings.HasPrefix(f.Path, "verif-corpus/") {
			continue
		}
		dir := filepath.Dir(f.Path)
		files := map[string][]byte{}
		for _, g := range corpus {
			if strings.HasPrefix(g.Path, dir+"/") {
				rel, _ := filepath.Rel(dir, g.Path)
				files[rel] = g.Data
			}
		}
		out = append(out, &Case{Op: "proj", Files: files, Root: filepath.Base(f.Path), Tag: "corpus-project", Args: []string{"tree"}})
	}
	return out
}

func singleFileProj(tag string, data []byte) *Case {
	return &Case{Op: "proj", Files: map[string][]byte{"root.jst": data}, Root: "root.jst", Tag: tag, Args: []string{"tree"}}
}

// splitIntoIncludes cuts top-level (and some nested) nodes of a rendered tree into include files.
// `dir` is the directory (relative to the project) of the file that will hold the returned nodes:
// INCLUDE names are relative to the including file's directory.
func splitIntoIncludes(p *PRNG, nodes []*DNode, l *Layout, files map[string][]byte, dir string, depth int) []*DNode {
	var out []*DNode
	i := 0
	for i < len(nodes) {
		n := nodes[i]
		if n.Keyword != "JSIGHT" && depth < 3 && p.Chance(1, 4) {
			// move a run of 1..3 siblings into a file
			k := 1 + p.Intn(3)
			if i+k > len(nodes) {
				k = len(nodes) - i
			}
			rel := fmt.Sprintf("inc%d.jst", len(files)+1)
			if p.Chance(1, 4) {
				rel = "sub/" + rel
			}
			full := rel
			if dir != "" {
				full = dir + "/" + rel
			}
			files[full] = nil // reserve the name
			run := nodes[i : i+k]
			sub := splitIntoIncludes(p, run, l, files, filepath.Dir(full), depth+1)
			if filepath.Dir(full) == "." {
				sub = splitIntoIncludes(p, run, l, files, "", depth+1)
			}
			files[full] = []byte(RenderTree(sub, l))
			out = append(out, &DNode{Keyword: "INCLUDE", Params: []string{rel}})
			i += k
			continue
		}
		cp := *n
		cp.Kids = splitIntoIncludes(p, n.Kids, l, files, dir, depth+1)
		out = append(out, &cp)
		i++
	}
	return out
}

func genProjCases(p *PRNG, n int, tier string) []*Case {
	corpus := loadCorpus()
	var small []CorpusFile
	for _, f := range corpus {
		if len(f.Data) <= 3000 {
			small = append(small, f)
		}
	}
	var cases []*Case
	add := func(c *Case) { c.ID = len(cases); cases = append(cases, c) }
	for _, c := range corpusProjects() {
		add(c)
	}
	for i, f := range small {
		if i >= n/4 {
			break
		}
		add(singleFileProj("corpus", f.Data))
	}
	projs := corpusProjects()
	for len(cases) < n {
		switch p.Intn(12) {
		case 0, 1, 2:
			add(singleFileProj("corpus-mutated", mutate(p, Pick(p, small).Data, 1+p.Intn(3))))
		case 3:
			add(singleFileProj("line-soup", lineSoup(p, 1+p.Intn(10))))
		case 4:
			add(singleFileProj("token-soup", tokenSoup(p, 1+p.Intn(20))))
		case 5, 6:
			m := GenModel(p.Fork(), 1+p.Intn(3))
			add(singleFileProj("rendered", []byte(RenderModel(m, RandomLayout(p.Fork())))))
		case 7:
			m := GenModel(p.Fork(), 1+p.Intn(3))
			add(singleFileProj("rendered-mutated", mutate(p, []byte(RenderModel(m, RandomLayout(p.Fork()))), 1+p.Intn(2))))
		case 8, 9:
			m := GenModel(p.Fork(), 1+p.Intn(3))
			l := RandomLayout(p.Fork())
			files := map[string][]byte{}
			tree := splitIntoIncludes(p, ModelTree(m), l, files, "", 0)
			files["root.jst"] = []byte(RenderTree(tree, l))
			c := &Case{Op: "proj", Files: files, Root: "root.jst", Tag: "rendered-split", Args: []string{"tree"}}
			if p.Chance(1, 3) { // mutate one of the files
				ks := sortedKeys(files)
				k := Pick(p, ks)
				files[k] = mutate(p, files[k], 1+p.Intn(2))
				c.Tag = "rendered-split-mutated"
			}
			add(c)
		case 10:
			if len(projs) > 0 {
				src := Pick(p, projs)
				files := map[string][]byte{}
				for k, v := range src.Files {
					files[k] = v
				}
				ks := sortedKeys(files)
				k := Pick(p, ks)
				files[k] = mutate(p, files[k], 1+p.Intn(2))
				add(&Case{Op: "proj", Files: files, Root: src.Root, Tag: "corpus-project-mutated", Args: []string{"tree"}})
			}
		default:
			add(genIncludeGraph(p))
		}
	}
	return cases
}

var includeNames = []string{"a.jst", "b.jst", "c.jst", "sub/d.jst", "sub/e.jst", "root.jst", "sub", "missing.jst", "..", ".", "../secret.jst",
	"/etc/passwd", "sub/../a.jst", "./a.jst", "sub\\d.jst", "\"a.jst\"", "\"sub/d.jst\"", "\"\"", "a.jst extra", "a.jst // note", "sub/", "sub//d.jst", "a.jst/x", "...", ".hidden.jst", "\"a b.jst\""}

// small include graphs: files a,b,c, sub/d, sub/e with random INCLUDE lines (cycles, diamonds, repeated, bad names)
// deepIncludeChain: root -> f01 -> ... -> fNN (no cycle), the last file includes a leaf twice;
// sometimes the last file includes an earlier one instead (a real cycle of known length)
func deepIncludeChain(p *PRNG) *Case {
	depth := 1 + p.Intn(40)
	files := map[string][]byte{}
	name := func(i int) string {
		if i == 0 {
			return "root.jst"
		}
		return fmt.Sprintf("f%02d.jst", i)
	}
	for i := 0; i <= depth; i++ {
		var b strings.Builder
		if i == 0 {
			b.WriteString("JSIGHT 0.3\n")
		}
		b.WriteString(fmt.Sprintf("TYPE @t%d\n  %d\n", i, i))
		if i < depth {
			b.WriteString("INCLUDE " + name(i+1) + "\n")
		} else if p.Chance(1, 4) {
			b.WriteString("INCLUDE " + name(p.Intn(depth+1)) + "\n") // a cycle
		} else {
			b.WriteString("INCLUDE leaf.jst\nINCLUDE leaf.jst\n")
		}
		files[name(i)] = []byte(b.String())
	}
	files["leaf.jst"] = []byte("# nothing\n")
	return &Case{Op: "proj", Files: files, Root: "root.jst", Tag: "include-chain", Args: []string{"tree"}}
}

func genIncludeGraph(p *PRNG) *Case {
	if p.Chance(1, 8) {
		return deepIncludeChain(p)
	}
	names := []string{"root.jst", "a.jst", "b.jst", "c.jst", "sub/d.jst", "sub/e.jst", ".hidden.jst", "a b.jst"}
	files := map[string][]byte{"../secret.jst": []byte("TYPE @secret\n  1\n")}
	for i, n := range names {
		var b strings.Builder
		if n == "root.jst" {
			b.WriteString("JSIGHT 0.3\n")
		}
		k := p.Intn(4)
		for j := 0; j < k; j++ {
			switch p.Intn(5) {
			case 0, 1, 2:
				inc := Pick(p, includeNames)
				if p.Chance(2, 3) { // bias to plain existing names
					inc = Pick(p, names[1:6])
					if strings.HasPrefix(n, "sub/") && p.Chance(1, 2) {
						inc = strings.TrimPrefix(inc, "sub/")
					}
				}
				b.WriteString(strings.Repeat(" ", p.Intn(3)) + "INCLUDE " + inc + "\n")
			case 3:
				b.WriteString("TYPE @t" + string(rune('a'+i)) + string(rune('0'+j)) + "\n  {\"k\": 1}\n")
			default:
				b.WriteString(Pick(p, []string{"URL /x" + string(rune('a'+i)) + "\n  GET\n    200 any\n", "GET /g" + string(rune('a'+i)) + string(rune('0'+j)) + "\n  200 any\n", "# comment\n", "SERVER @s" + string(rune('a'+i)) + "\n  BaseUrl \"http://x/\"\n", ")\n", "(\n"}))
			}
		}
		if p.Chance(1, 12) {
			b.Reset() // empty file
		}
		files[n] = []byte(b.String())
	}
	c := &Case{Op: "proj", Files: files, Dirs: []string{"sub", "emptydir"}, Root: "root.jst", Tag: "include-graph", Args: []string{"tree"}}
	if p.Chance(1, 3) {
		c.RootSpelling = Pick(p, []string{"./root.jst", ".//root.jst", "sub/../root.jst", "./sub/.././root.jst"})
		c.Tag = "include-graph-rootspelling"
	}
	return c
}

func init() {
	generators["proj"] = genProjCases
}
