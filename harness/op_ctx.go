package main

import (
	"fmt"
	"strings"
)

// C11: exhaustive directive sequences. Element = (kind, own path?, explicit '('?) or ')'.

type ctxElem struct {
	kind     string // keyword table name, or ")" for a closing parenthesis
	path     bool
	explicit bool
}

var ctxKinds = []string{"JSIGHT", "INFO", "Title", "Version", "Description", "SERVER", "BaseUrl", "URL", "GET", "POST", "PUT", "PATCH", "DELETE",
	"Body", "Request", "HTTP-response-code", "Path", "Headers", "Query", "TYPE", "ENUM", "MACRO", "PASTE", "Protocol", "Method", "Params", "Result", "TAG", "Tags", "OperationId"}

func isMethodKind(k string) bool {
	return k == "GET" || k == "POST" || k == "PUT" || k == "PATCH" || k == "DELETE"
}

// header line and body for a minimal well-formed directive of each kind
func ctxText(e ctxElem, n int) (header, body string) {
	switch e.kind {
	case "JSIGHT":
		return "JSIGHT 0.3", ""
	case "INFO":
		return "INFO", ""
	case "Title":
		return "Title \"T\"", ""
	case "Version":
		return "Version 1", ""
	case "Description":
		return "Description", "some text"
	case "SERVER":
		return fmt.Sprintf("SERVER @s%d", n), ""
	case "BaseUrl":
		return "BaseUrl \"http://x/\"", ""
	case "URL":
		return fmt.Sprintf("URL /u%d", n), ""
	case "GET", "POST", "PUT", "PATCH", "DELETE":
		if e.path {
			return fmt.Sprintf("%s /m%d", e.kind, n), ""
		}
		return e.kind, ""
	case "Body":
		return "Body any", ""
	case "Request":
		return "Request any", ""
	case "HTTP-response-code":
		return "200 any", ""
	case "Path":
		return "Path", "{\"id\": 1}"
	case "Headers":
		return "Headers", "{\"h\": 1}"
	case "Query":
		return "Query", "{\"q\": 1}"
	case "TYPE":
		return fmt.Sprintf("TYPE @t%d any", n), ""
	case "ENUM":
		return fmt.Sprintf("ENUM @e%d", n), "[1]"
	case "MACRO":
		return fmt.Sprintf("MACRO @m%d", n), ""
	case "PASTE":
		return "PASTE @m0", ""
	case "Protocol":
		return "Protocol json-rpc-2.0", ""
	case "Method":
		return fmt.Sprintf("Method f%d", n), ""
	case "Params":
		return "Params", "{\"a\": 1}"
	case "Result":
		return "Result", "{\"a\": 1}"
	case "TAG":
		return fmt.Sprintf("TAG @g%d", n), ""
	case "Tags":
		return "Tags @g0", ""
	case "OperationId":
		return fmt.Sprintf("OperationId o%d", n), ""
	}
	return "", ""
}

func renderCtxSeq(seq []ctxElem) string {
	var b strings.Builder
	for i, e := range seq {
		if e.kind == ")" {
			b.WriteString(")\n")
			continue
		}
		h, body := ctxText(e, i)
		b.WriteString(h + "\n")
		if e.explicit {
			b.WriteString("(\n")
		}
		if body != "" {
			b.WriteString("  " + body + "\n")
		}
	}
	return b.String()
}

func ctxElems() []ctxElem {
	var out []ctxElem
	for _, k := range ctxKinds {
		for _, ex := range []bool{false, true} {
			if ex && k == "Description" {
				continue // for Description the parentheses delimit the text, they are not an explicit context
			}
			out = append(out, ctxElem{k, false, ex})
			if isMethodKind(k) {
				out = append(out, ctxElem{k, true, ex})
			}
		}
	}
	out = append(out, ctxElem{")", false, false})
	return out
}

func seqDesc(seq []ctxElem) string {
	var parts []string
	for _, e := range seq {
		s := e.kind
		if e.path {
			s += "+path"
		}
		if e.explicit {
			s += "+("
		}
		parts = append(parts, s)
	}
	return strings.Join(parts, ",")
}

func genCtxCases(p *PRNG, n int, tier string) []*Case {
	elems := ctxElems()
	var cases []*Case
	add := func(seq []ctxElem) {
		cp := append([]ctxElem(nil), seq...)
		cases = append(cases, &Case{ID: len(cases), Op: "proj", Files: map[string][]byte{"root.jst": []byte(renderCtxSeq(cp))}, Root: "root.jst",
			Tag: fmt.Sprintf("ctx-len%d", len(cp)), Args: []string{"tree", seqDesc(cp)}})
	}
	for _, a := range elems {
		add([]ctxElem{a})
		for _, b := range elems {
			add([]ctxElem{a, b})
		}
	}
	if tier == "thorough" {
		for _, a := range elems {
			for _, b := range elems {
				for _, c := range elems {
					add([]ctxElem{a, b, c})
				}
			}
		}
	} else {
		for len(cases) < n {
			l := 3 + p.Intn(6)
			var seq []ctxElem
			for i := 0; i < l; i++ {
				seq = append(seq, Pick(p, elems))
			}
			// bias: make plausible nestings more likely
			if p.Chance(1, 2) {
				seq[0] = ctxElem{"URL", false, p.Chance(1, 2)}
				seq[1] = ctxElem{Pick(p, []string{"GET", "POST"}), p.Chance(1, 3), p.Chance(1, 3)}
			}
			add(seq)
		}
	}
	// a long random tail (depth beyond anything in the fixtures)
	for i := 0; i < n/20; i++ {
		l := 8 + p.Intn(12)
		var seq []ctxElem
		for j := 0; j < l; j++ {
			seq = append(seq, Pick(p, elems))
		}
		add(seq)
	}
	return cases
}

// ---------------------------------------------------------------------------
// monitor: the specification of C11 evaluated independently (reference table pinned here)

var refRootKinds = map[string]bool{"JSIGHT": true, "INFO": true, "SERVER": true, "URL": true, "GET": true, "POST": true, "PUT": true, "PATCH": true,
	"DELETE": true, "TYPE": true, "ENUM": true, "MACRO": true, "PASTE": true, "TAG": true}

var refMethodKids = []string{"Description", "Request", "HTTP-response-code", "Path", "Query", "PASTE", "Tags", "OperationId"}

var refCtxTable = map[string][]string{
	"URL": {"GET", "POST", "PUT", "PATCH", "DELETE", "Path", "PASTE", "Protocol", "Method", "Tags"},
	"GET": refMethodKids, "POST": refMethodKids, "PUT": refMethodKids, "PATCH": refMethodKids, "DELETE": refMethodKids,
	"HTTP-response-code": {"Body", "Headers", "PASTE"},
	"Request":            {"Body", "Headers", "PASTE"},
	"INFO":               {"Title", "Version", "Description", "PASTE"},
	"SERVER":             {"BaseUrl", "PASTE"},
	"Method":             {"Description", "Params", "Result", "Tags"},
	"TAG":                {"Description"},
	"MACRO": {"INFO", "Title", "Version", "Description", "SERVER", "BaseUrl", "URL", "GET", "POST", "PUT", "PATCH", "DELETE", "Body", "Request",
		"HTTP-response-code", "Path", "Headers", "Query", "TYPE", "ENUM", "PASTE"},
}

func refAllowed(parent, child string) bool {
	for _, k := range refCtxTable[parent] {
		if k == child {
			return true
		}
	}
	return false
}

type specFrame struct {
	kind     string
	explicit bool
	depth    int
}

// specCtx predicts: "ok" + the depth of every directive in document order, or "err@<element index>:<class>"
func specCtx(seq []ctxElem) (string, []int) {
	var stack []specFrame // innermost last
	var depths []int
	for i, e := range seq {
		if e.kind == ")" {
			// closes the innermost explicit context
			j := len(stack) - 1
			for j >= 0 && !stack[j].explicit {
				j--
			}
			if j < 0 {
				return fmt.Sprintf("err@%d:nothing-to-close", i), nil
			}
			stack = stack[:j]
			continue
		}
		// candidates from the innermost outwards up to and including the first explicit one
		placed := false
		j := len(stack) - 1
		for ; j >= 0; j-- {
			f := stack[j]
			if refAllowed(f.kind, e.kind) {
				if isMethodKind(e.kind) && e.path && f.kind == "URL" {
					if f.explicit {
						return fmt.Sprintf("err@%d:context-path", i), nil
					}
					// an explicit context never closes silently
					for _, g := range stack[:j] {
						if g.explicit {
							return fmt.Sprintf("err@%d:context-path", i), nil
						}
					}
					stack = []specFrame{{e.kind, e.explicit, 0}}
					depths = append(depths, 0)
				} else {
					stack = append(stack[:j+1], specFrame{e.kind, e.explicit, f.depth + 1})
					depths = append(depths, f.depth+1)
				}
				placed = true
				break
			}
			if f.explicit {
				return fmt.Sprintf("err@%d:context", i), nil
			}
		}
		if !placed {
			if !refRootKinds[e.kind] {
				return fmt.Sprintf("err@%d:context", i), nil
			}
			stack = []specFrame{{e.kind, e.explicit, 0}}
			depths = append(depths, 0)
		}
	}
	for _, f := range stack {
		if f.explicit {
			return "err@eof:not-closed", nil
		}
	}
	return "ok", depths
}

// the byte offset where element i starts in the rendered text, and its line (1-based)
func ctxElemLine(seq []ctxElem, i int) int {
	line := 1
	for k := 0; k < i; k++ {
		e := seq[k]
		if e.kind == ")" {
			line++
			continue
		}
		_, body := ctxText(e, k)
		line++
		if e.explicit {
			line++
		}
		if body != "" {
			line++
		}
	}
	return line
}

func parseSeqDesc(s string) []ctxElem {
	var out []ctxElem
	for _, p := range strings.Split(s, ",") {
		e := ctxElem{}
		if strings.HasSuffix(p, "+(") {
			e.explicit = true
			p = strings.TrimSuffix(p, "+(")
		}
		if strings.HasSuffix(p, "+path") {
			e.path = true
			p = strings.TrimSuffix(p, "+path")
		}
		e.kind = p
		out = append(out, e)
	}
	return out
}

func ctxMonitor(c *Case) string {
	seq := parseSeqDesc(c.Args[1])
	want, depths := specCtx(seq)
	out := c.GoOut
	if i := strings.Index(out, " | "); i >= 0 {
		out = out[i+3:]
	}
	if strings.HasPrefix(out, "PANIC") || strings.HasPrefix(out, "FATAL") || strings.HasPrefix(out, "TIMEOUT") {
		return "crash: " + out
	}
	if strings.HasPrefix(out, "TREE") {
		if want != "ok" {
			return fmt.Sprintf("accepted, the context table says %s", want)
		}
		var got []int
		for _, n := range strings.Fields(out[4:]) {
			var d int
			fmt.Sscanf(n, "%d;", &d)
			got = append(got, d)
		}
		if fmt.Sprint(got) != fmt.Sprint(depths) {
			return fmt.Sprintf("nesting differs: depths %v, the context table says %v", got, depths)
		}
		return ""
	}
	if strings.HasPrefix(out, "ERR ") {
		f := strings.Fields(out)
		msg := string(unhexMust(f[1]))
		var line int
		fmt.Sscanf(f[4], "%d", &line)
		if want == "ok" {
			return fmt.Sprintf("rejected (%s at line %d), the context table accepts", msg, line)
		}
		// class and location
		cls := ""
		switch {
		case strings.Contains(msg, "incorrect context for the directive") && strings.Contains(msg, "with the"):
			cls = "context-path"
		case strings.Contains(msg, "incorrect context for the directive"):
			cls = "context"
		case strings.Contains(msg, "nothing to close"):
			cls = "nothing-to-close"
		case strings.Contains(msg, "is not closed"):
			cls = "not-closed"
		case strings.Contains(msg, "no directive to open"):
			cls = "no-directive-to-open"
		default:
			cls = "other:" + msg
		}
		var idx int
		var wcls string
		if strings.HasPrefix(want, "err@eof:") {
			wcls = want[8:]
			if cls != wcls {
				return fmt.Sprintf("rejected as %s at line %d, expected %s", cls, line, want)
			}
			return ""
		}
		fmt.Sscanf(want, "err@%d:", &idx)
		wcls = want[strings.Index(want, ":")+1:]
		wline := ctxElemLine(seq, idx)
		if cls != wcls || line != wline {
			return fmt.Sprintf("rejected as %s at line %d, expected %s at line %d", cls, line, wcls, wline)
		}
	}
	return ""
}

func init() {
	generators["ctx"] = genCtxCases
	postChecks["ctx"] = func(cases []*Case, rep *Report) {
		rep.Rule = "all sequences of <=2 (quick) / <=3 (thorough) elements over 30 directive kinds x own-path x explicit '(' plus ')', rendered as minimal documents, plus random longer sequences; non-trivial = distinct outputs"
		projPost(cases, rep)
		for _, c := range cases {
			if m := ctxMonitor(c); m != "" && !strings.HasPrefix(m, "crash") {
				d := caseDisagreement(c)
				d.Lean = m
				d.Prop = "C11"
				if strings.HasPrefix(m, "crash") {
					d.Prop = "C11,C01"
				}
				rep.Monitor = append(rep.Monitor, d)
			}
		}
	}
}
