package main

import (
	"bytes"
	"crypto/sha256"
	"encoding/hex"
	"encoding/json"
	"fmt"
	"path/filepath"
	"sort"
	"strings"
	"unicode/utf8"

	"github.com/jsightapi/jsight-api-core/core"
	"github.com/jsightapi/jsight-api-core/directive"
	"github.com/jsightapi/jsight-api-core/kit"
)

// build op: the public API. Args[0] = "build"; Args[1] = comma separated banned kinds (or "");
// Args[2] = accessor sequence (letters j,i,o,p,t = ToJson, ToJsonIndent, ToOpenAPIJson, ToOpenAPIJsonIndent, Title)

func sha(b []byte) string {
	h := sha256.Sum256(b)
	return hex.EncodeToString(h[:8])
}

func kindByKeyword(k string) (directive.Enumeration, bool) {
	if k == "HTTP-response-code" {
		return directive.HTTPResponseCode, true
	}
	e, err := directive.NewDirectiveType(k)
	if err != nil {
		return 0, false
	}
	return e, true
}

type buildAux struct {
	Json      string   `json:"json,omitempty"`
	OpenAPI   string   `json:"openapi,omitempty"`
	Calls     []string `json:"calls,omitempty"` // per accessor call: "<letter>:<sha or err:...>"
	OaPanic   string   `json:"oa_panic,omitempty"`
	JsonErr   string   `json:"json_err,omitempty"`
	IndentOK  bool     `json:"indent_ok"`
	IndentCmp bool     `json:"indent_cmp"` // ToJson and ToJsonIndent were both called, in this order
	IndentErr string   `json:"indent_err,omitempty"`
}

func execBuild(c *Case) (r workerResult) {
	dp, err := materialize(c)
	if err != nil {
		return workerResult{Out: "HARNESS-ERROR " + err.Error()}
	}
	defer dp.cleanup()
	rootAbs := filepath.Join(dp.projDir, c.Root)
	if c.RootSpelling != "" {
		rootAbs = dp.projDir + "/" + c.RootSpelling
	}
	defer func() {
		if x := recover(); x != nil {
			r.Out = "PANIC"
			r.Detail = panicSummary(x)
		}
	}()
	var opts []core.Option
	if len(c.Args) > 1 && c.Args[1] != "" {
		var kinds []directive.Enumeration
		for _, k := range strings.Split(c.Args[1], ",") {
			if e, ok := kindByKeyword(k); ok {
				kinds = append(kinds, e)
			}
		}
		if c.ID%2 == 0 {
			opts = append(opts, core.WithBannedDirectives(kinds...))
		} else { // the same set, given as one option per kind
			for _, k := range kinds {
				opts = append(opts, core.WithBannedDirectives(k))
			}
		}
	}
	j, je := kit.NewJapi(rootAbs, opts...)
	if je != nil {
		// the canonical form hides quoted parts of the message; determinism (C06) is about the exact text
		return workerResult{Out: renderBuildErr(dp, c, je) + " raw=" + sha([]byte(strings.ReplaceAll(je.Error(), dp.projDir, "")))}
	}
	seq := "jjiopt"
	if len(c.Args) > 2 && c.Args[2] != "" {
		seq = c.Args[2]
	}
	aux := buildAux{}
	call := func(letter byte) string {
		var b []byte
		var e error
		func() {
			defer func() {
				if x := recover(); x != nil {
					e = fmt.Errorf("PANIC %s", panicSummary(x))
					if letter == 'o' || letter == 'p' {
						aux.OaPanic = panicSummary(x)
					}
				}
			}()
			switch letter {
			case 'j':
				b, e = j.ToJson()
			case 'i':
				b, e = j.ToJsonIndent()
			case 'o':
				b, e = j.ToOpenAPIJson()
			case 'p':
				b, e = j.ToOpenAPIJsonIndent()
			case 't':
				b = []byte(j.Title())
			}
		}()
		if e != nil {
			msg := e.Error()
			if len(msg) > 120 {
				msg = msg[:120]
			}
			if letter == 'j' && aux.JsonErr == "" {
				aux.JsonErr = msg
			}
			if letter == 'i' {
				aux.IndentErr = msg
			}
			return string(letter) + ":err:" + strings.ReplaceAll(msg, " ", "_")
		}
		switch letter {
		case 'j':
			if aux.Json == "" {
				aux.Json = string(b)
			}
		case 'o':
			if aux.OpenAPI == "" {
				aux.OpenAPI = string(b)
			}
		case 'i':
			var cb bytes.Buffer
			if aux.Json != "" {
				aux.IndentCmp = true
				aux.IndentOK = json.Compact(&cb, b) == nil && cb.String() == aux.Json
			}
		}
		return string(letter) + ":" + sha(b)
	}
	for i := 0; i < len(seq); i++ {
		aux.Calls = append(aux.Calls, call(seq[i]))
	}
	ab, _ := json.Marshal(aux)
	r.Detail = string(ab)
	r.Out = "OK " + strings.Join(aux.Calls, " ")
	return r
}

func init() {
	ops["build"] = &opDef{exec: execBuild, leanLine: func(c *Case) string { return "" }, noModel: true}
}

// ---------------------------------------------------------------------------
// monitors on the catalog JSON

type jobj = map[string]any

func getAux(c *Case) *buildAux {
	if !strings.HasPrefix(c.GoOut, "OK") || c.Detail == "" {
		return nil
	}
	var a buildAux
	if json.Unmarshal([]byte(c.Detail), &a) != nil {
		return nil
	}
	return &a
}

func orderedKeys(raw json.RawMessage) []string {
	dec := json.NewDecoder(bytes.NewReader(raw))
	t, err := dec.Token()
	if err != nil || t != json.Delim('{') {
		return nil
	}
	var ks []string
	for dec.More() {
		k, err := dec.Token()
		if err != nil {
			return ks
		}
		ks = append(ks, k.(string))
		var v json.RawMessage
		if dec.Decode(&v) != nil {
			return ks
		}
	}
	return ks
}

// shapeMonitor: C04 — JDoc Exchange 2.0.0 shape
func shapeMonitor(a *buildAux) string {
	if a.Json == "" && a.JsonErr == "" {
		return "" // ToJson was not part of this accessor sequence
	}
	if a.JsonErr != "" {
		return "the build succeeded but ToJson fails: " + a.JsonErr
	}
	if a.IndentErr != "" {
		return "the build succeeded but ToJsonIndent fails: " + a.IndentErr
	}
	if !utf8.ValidString(a.Json) {
		return "ToJson output is not valid UTF-8"
	}
	var top map[string]json.RawMessage
	if err := json.Unmarshal([]byte(a.Json), &top); err != nil {
		return "ToJson output is not valid JSON: " + err.Error()
	}
	if a.IndentCmp && !a.IndentOK {
		return "ToJson and ToJsonIndent differ beyond whitespace"
	}
	for _, k := range []string{"tags", "interactions", "jsight", "jdocExchangeVersion"} {
		if _, ok := top[k]; !ok {
			return "top-level key missing: " + k
		}
	}
	for k := range top {
		switch k {
		case "tags", "info", "servers", "userTypes", "userEnums", "interactions", "jsight", "jdocExchangeVersion":
		default:
			return "unexpected top-level key " + k
		}
	}
	if string(top["jdocExchangeVersion"]) != `"2.0.0"` {
		return "jdocExchangeVersion is " + string(top["jdocExchangeVersion"])
	}
	var doc jobj
	json.Unmarshal([]byte(a.Json), &doc)
	if m := checkSchemas(doc, "$"); m != "" {
		return m
	}
	inter, _ := doc["interactions"].(jobj)
	for id, v := range inter {
		it, _ := v.(jobj)
		for _, f := range []string{"id", "protocol", "path", "tags"} {
			if _, ok := it[f]; !ok {
				return fmt.Sprintf("interaction %q lacks %q", id, f)
			}
		}
		switch it["protocol"] {
		case "http":
			if _, ok := it["httpMethod"]; !ok {
				return fmt.Sprintf("interaction %q lacks httpMethod", id)
			}
		case "json-rpc-2.0":
			if _, ok := it["method"]; !ok {
				return fmt.Sprintf("interaction %q lacks method", id)
			}
		default:
			return fmt.Sprintf("interaction %q has protocol %v", id, it["protocol"])
		}
	}
	tags, _ := doc["tags"].(jobj)
	var chkTags func(tags jobj) string
	chkTags = func(tags jobj) string {
		for n, v := range tags {
			t, _ := v.(jobj)
			for _, f := range []string{"name", "title", "interactionGroups"} {
				if _, ok := t[f]; !ok {
					return fmt.Sprintf("tag %q lacks %q", n, f)
				}
			}
			if _, ok := t["name"].(string); !ok {
				return fmt.Sprintf("tag %q: name is not a string", n)
			}
			groups, ok := t["interactionGroups"].([]any)
			if !ok {
				return fmt.Sprintf("tag %q: interactionGroups is not an array (%v)", n, t["interactionGroups"])
			}
			for _, g := range groups {
				gm, _ := g.(jobj)
				if _, ok := gm["interactions"].([]any); !ok {
					return fmt.Sprintf("tag %q: an interaction group without an interactions array", n)
				}
				if _, ok := gm["protocol"].(string); !ok {
					return fmt.Sprintf("tag %q: an interaction group without a protocol", n)
				}
			}
			if ch, ok := t["children"]; ok {
				cm, ok := ch.(jobj)
				if !ok {
					return fmt.Sprintf("tag %q: children is not an object", n)
				}
				if m := chkTags(cm); m != "" {
					return m
				}
			}
		}
		return ""
	}
	if m := chkTags(tags); m != "" {
		return m
	}
	for id, v := range inter {
		it, _ := v.(jobj)
		if _, ok := it["tags"].([]any); !ok {
			return fmt.Sprintf("interaction %q: tags is not an array", id)
		}
		if r, ok := it["responses"]; ok {
			if _, ok := r.([]any); !ok {
				return fmt.Sprintf("interaction %q: responses is not an array", id)
			}
		}
		for _, f := range []string{"id", "protocol", "path"} {
			if _, ok := it[f].(string); !ok {
				return fmt.Sprintf("interaction %q: %s is not a string", id, f)
			}
		}
		// nested entities: whatever is present has its required members, with the right JSON types
		schemaHolder := func(where string, x any, needFormat bool) string {
			h, ok := x.(jobj)
			if !ok {
				return fmt.Sprintf("interaction %q: %s is not an object (%v)", id, where, x)
			}
			sc, ok := h["schema"].(jobj)
			if !ok {
				return fmt.Sprintf("interaction %q: %s.schema is not an object (%v)", id, where, h["schema"])
			}
			if _, ok := sc["notation"].(string); !ok {
				return fmt.Sprintf("interaction %q: %s.schema.notation is not a string", id, where)
			}
			if needFormat {
				if _, ok := h["format"].(string); !ok {
					return fmt.Sprintf("interaction %q: %s.format is not a string (%v)", id, where, h["format"])
				}
			}
			return ""
		}
		exchange := func(where string, x any) string {
			e, ok := x.(jobj)
			if !ok {
				return fmt.Sprintf("interaction %q: %s is not an object (%v)", id, where, x)
			}
			b, ok := e["body"]
			if !ok {
				return fmt.Sprintf("interaction %q: %s has no body", id, where)
			}
			if m := schemaHolder(where+".body", b, true); m != "" {
				return m
			}
			if h, ok := e["headers"]; ok {
				if m := schemaHolder(where+".headers", h, false); m != "" {
					return m
				}
			}
			return ""
		}
		if rq, ok := it["request"]; ok {
			if m := exchange("request", rq); m != "" {
				return m
			}
		}
		if rs, ok := it["responses"].([]any); ok {
			for i, r := range rs {
				if m := exchange(fmt.Sprintf("responses[%d]", i), r); m != "" {
					return m
				}
				if _, ok := r.(jobj)["code"].(string); !ok {
					return fmt.Sprintf("interaction %q: responses[%d].code is not a string", id, i)
				}
			}
		}
		for _, f := range []string{"query", "pathVariables", "params", "result"} {
			if x, ok := it[f]; ok {
				if m := schemaHolder(f, x, f == "query"); m != "" {
					return m
				}
			}
		}
	}
	for _, sec := range []string{"tags", "interactions", "servers", "userTypes", "userEnums"} {
		if v, ok := doc[sec]; ok {
			if _, ok := v.(jobj); !ok {
				return fmt.Sprintf("section %s is not an object", sec)
			}
		}
	}
	if srv, ok := doc["servers"].(jobj); ok {
		for n, v := range srv {
			s, _ := v.(jobj)
			if _, ok := s["baseUrl"]; !ok {
				return fmt.Sprintf("server %q lacks baseUrl", n)
			}
		}
	}
	for _, sec := range []string{"userTypes", "userEnums"} {
		if ut, ok := doc[sec].(jobj); ok {
			for n, v := range ut {
				u, _ := v.(jobj)
				if sec == "userTypes" {
					if _, ok := u["schema"]; !ok {
						return fmt.Sprintf("user type %q lacks schema", n)
					}
				} else if _, ok := u["value"]; !ok {
					return fmt.Sprintf("user enum %q lacks value", n)
				}
			}
		}
	}
	return ""
}

// every schema content node: objects/arrays carry children, scalars carry a scalar value
func checkSchemas(x any, path string) string {
	switch v := x.(type) {
	case jobj:
		if tt, ok := v["tokenType"].(string); ok {
			_, hasKids := v["children"]
			_, hasScalar := v["scalarValue"]
			switch tt {
			case "object", "array":
				if !hasKids {
					return fmt.Sprintf("schema node %s of tokenType %s has no children", path, tt)
				}
			case "string", "number", "boolean", "null", "annotation", "reference":
				if !hasScalar {
					return fmt.Sprintf("schema node %s of tokenType %s has no scalarValue", path, tt)
				}
			}
		}
		for k, c := range v {
			if m := checkSchemas(c, path+"."+k); m != "" {
				return m
			}
		}
	case []any:
		for i, c := range v {
			if m := checkSchemas(c, fmt.Sprintf("%s[%d]", path, i)); m != "" {
				return m
			}
		}
	}
	return ""
}

func collectStrings(x any, key string, out *[]string) {
	switch v := x.(type) {
	case jobj:
		for k, c := range v {
			if k == key {
				if arr, ok := c.([]any); ok {
					for _, s := range arr {
						if str, ok := s.(string); ok {
							*out = append(*out, str)
						}
					}
				}
			}
			collectStrings(c, key, out)
		}
	case []any:
		for _, c := range v {
			collectStrings(c, key, out)
		}
	}
}

func pathParams(p string) []string {
	var out []string
	for _, seg := range strings.Split(p, "/") {
		if len(seg) >= 2 && seg[0] == '{' && seg[len(seg)-1] == '}' {
			out = append(out, seg[1:len(seg)-1])
		}
	}
	sort.Strings(out)
	return out
}

// invMonitor: C05 — cross references closed, names unique
func invMonitor(a *buildAux) string {
	var doc jobj
	if json.Unmarshal([]byte(a.Json), &doc) != nil {
		return ""
	}
	var top map[string]json.RawMessage
	json.Unmarshal([]byte(a.Json), &top)
	if doc["jsight"] != "0.3" {
		return fmt.Sprintf("jsight version is %v", doc["jsight"])
	}
	// duplicate keys inside a section would be silently merged by a map decoder: check with the token stream
	for _, sec := range []string{"interactions", "tags", "servers", "userTypes", "userEnums"} {
		if raw, ok := top[sec]; ok {
			seen := map[string]bool{}
			for _, k := range orderedKeys(raw) {
				if seen[k] {
					return fmt.Sprintf("duplicate key %q in section %s", k, sec)
				}
				seen[k] = true
			}
		}
	}
	inter, _ := doc["interactions"].(jobj)
	tags, _ := doc["tags"].(jobj)
	types, _ := doc["userTypes"].(jobj)
	enums, _ := doc["userEnums"].(jobj)
	var allTags func(t jobj, out map[string]jobj)
	allTags = func(t jobj, out map[string]jobj) {
		for n, v := range t {
			tv, _ := v.(jobj)
			out[n] = tv
			if ch, ok := tv["children"].(jobj); ok {
				allTags(ch, out)
			}
		}
	}
	tagMap := map[string]jobj{}
	allTags(tags, tagMap)
	for key, v := range inter {
		it, _ := v.(jobj)
		id, _ := it["id"].(string)
		if id != key {
			return fmt.Sprintf("interaction key %q differs from its id %q", key, id)
		}
		proto, _ := it["protocol"].(string)
		path, _ := it["path"].(string)
		var want string
		if proto == "http" {
			m, _ := it["httpMethod"].(string)
			want = "http " + m + " " + path
		} else {
			m, _ := it["method"].(string)
			want = "json-rpc-2.0 " + m + " " + path
		}
		if id != want {
			return fmt.Sprintf("interaction id %q is not built from its protocol/method/path fields (%q)", id, want)
		}
		its, _ := it["tags"].([]any)
		for _, tn := range its {
			name, _ := tn.(string)
			t, ok := tagMap[name]
			if !ok {
				return fmt.Sprintf("interaction %q names tag %q, which does not exist", id, name)
			}
			n := 0
			groups, _ := t["interactionGroups"].([]any)
			for _, g := range groups {
				gm, _ := g.(jobj)
				ids, _ := gm["interactions"].([]any)
				for _, x := range ids {
					if x == id {
						if gm["protocol"] != proto {
							return fmt.Sprintf("tag %q lists %q under protocol %v", name, id, gm["protocol"])
						}
						n++
					}
				}
			}
			if n != 1 {
				return fmt.Sprintf("tag %q lists interaction %q %d times", name, id, n)
			}
		}
		if proto == "http" {
			want := pathParams(path)
			var got []string
			if pv, ok := it["pathVariables"].(jobj); ok {
				if sch, ok := pv["schema"].(jobj); ok {
					if cont, ok := sch["content"].(jobj); ok {
						if ch, ok := cont["children"].([]any); ok {
							for _, c := range ch {
								cm, _ := c.(jobj)
								if k, ok := cm["key"].(string); ok {
									got = append(got, k)
								}
							}
						}
					}
				}
			}
			sort.Strings(got)
			if fmt.Sprint(got) != fmt.Sprint(want) {
				return fmt.Sprintf("interaction %q: pathVariables %v, the path has parameters %v", id, got, want)
			}
			resps, _ := it["responses"].([]any)
			for _, r := range resps {
				rm, _ := r.(jobj)
				code, _ := rm["code"].(string)
				if len(code) != 3 || code < "100" || code > "599" {
					return fmt.Sprintf("interaction %q has response code %q", id, code)
				}
				if _, ok := rm["body"]; !ok {
					return fmt.Sprintf("interaction %q: response %s has no body", id, code)
				}
			}
		}
	}
	for name, t := range tagMap {
		groups, _ := t["interactionGroups"].([]any)
		for _, g := range groups {
			gm, _ := g.(jobj)
			ids, _ := gm["interactions"].([]any)
			for _, x := range ids {
				id, _ := x.(string)
				it, ok := inter[id].(jobj)
				if !ok {
					return fmt.Sprintf("tag %q lists interaction %q, which does not exist", name, id)
				}
				found := false
				its, _ := it["tags"].([]any)
				for _, tn := range its {
					if tn == name {
						found = true
					}
				}
				if !found {
					return fmt.Sprintf("tag %q lists interaction %q, which does not name the tag", name, id)
				}
			}
		}
	}
	var ut, ue []string
	collectStrings(doc, "usedUserTypes", &ut)
	collectStrings(doc, "usedUserEnums", &ue)
	for _, n := range ut {
		if _, ok := types[n]; !ok {
			return fmt.Sprintf("usedUserTypes names %q, which is not defined", n)
		}
	}
	for _, n := range ue {
		if _, ok := enums[n]; !ok {
			return fmt.Sprintf("usedUserEnums names %q, which is not defined", n)
		}
	}
	return ""
}

// repeatMonitor: C16 — each accessor returns the same bytes every time
func repeatMonitor(a *buildAux) string {
	first := map[byte]string{}
	for i, c := range a.Calls {
		l := c[0]
		if f, ok := first[l]; ok {
			if f != c {
				return fmt.Sprintf("call #%d of accessor %c returned %s, an earlier call returned %s", i, l, c[2:], f[2:])
			}
		} else {
			first[l] = c
		}
	}
	return ""
}

// oaMonitor: C17 — OpenAPI export is an error value or a structurally valid document; never panics
func oaMonitor(a *buildAux) string {
	if a.OaPanic != "" {
		return "OpenAPI export panicked: " + a.OaPanic
	}
	if a.OpenAPI == "" {
		return ""
	}
	var oa jobj
	if err := json.Unmarshal([]byte(a.OpenAPI), &oa); err != nil {
		return "OpenAPI output is not JSON: " + err.Error()
	}
	for _, k := range []string{"openapi", "info", "paths"} {
		if _, ok := oa[k]; !ok {
			return "OpenAPI document lacks " + k
		}
	}
	paths, _ := oa["paths"].(jobj)
	var doc jobj
	json.Unmarshal([]byte(a.Json), &doc)
	inter, _ := doc["interactions"].(jobj)
	for id, v := range inter {
		it, _ := v.(jobj)
		if it["protocol"] != "http" {
			continue
		}
		p, _ := it["path"].(string)
		m, _ := it["httpMethod"].(string)
		pi, ok := paths[p].(jobj)
		if !ok {
			return fmt.Sprintf("interaction %q: paths[%q] missing in the OpenAPI document", id, p)
		}
		op, ok := pi[strings.ToLower(m)].(jobj)
		if !ok {
			return fmt.Sprintf("interaction %q: paths[%q][%q] missing in the OpenAPI document", id, p, strings.ToLower(m))
		}
		// every {parameter} is declared as a required path parameter (at path-item or operation level)
		declared := map[string]bool{}
		for _, holder := range []jobj{pi, op} {
			ps, _ := holder["parameters"].([]any)
			for _, x := range ps {
				pm, _ := x.(jobj)
				if pm["in"] == "path" {
					if pm["required"] != true {
						return fmt.Sprintf("path parameter %v of %q is not required", pm["name"], p)
					}
					if n, ok := pm["name"].(string); ok {
						declared[n] = true
					}
				}
			}
		}
		for _, n := range pathParams(p) {
			if !declared[n] {
				return fmt.Sprintf("path parameter {%s} of %q is not declared in the OpenAPI document", n, p)
			}
		}
		if rs, ok := op["responses"].(jobj); ok {
			for code := range rs {
				if code != "default" && !(len(code) == 3 && code >= "100" && code <= "599") {
					return fmt.Sprintf("response key %q of %s %s is neither a status code nor default", code, m, p)
				}
			}
		}
	}
	comps := jobj{}
	if c, ok := oa["components"].(jobj); ok {
		if s, ok := c["schemas"].(jobj); ok {
			comps = s
		}
	}
	var refs []string
	var walk func(x any)
	walk = func(x any) {
		switch v := x.(type) {
		case jobj:
			if r, ok := v["$ref"].(string); ok {
				refs = append(refs, r)
			}
			for _, c := range v {
				walk(c)
			}
		case []any:
			for _, c := range v {
				walk(c)
			}
		}
	}
	walk(oa)
	for _, r := range refs {
		const pre = "#/components/schemas/"
		if !strings.HasPrefix(r, pre) {
			return fmt.Sprintf("$ref %q does not point into components.schemas", r)
		}
		if _, ok := comps[r[len(pre):]]; !ok {
			return fmt.Sprintf("$ref %q does not resolve", r)
		}
	}
	if types, ok := doc["userTypes"].(jobj); ok {
		for n := range types {
			if _, ok := comps[strings.TrimPrefix(n, "@")]; !ok {
				if _, ok2 := comps[n]; !ok2 {
					return fmt.Sprintf("user type %q is not a component of the OpenAPI document", n)
				}
			}
		}
	}
	return ""
}
