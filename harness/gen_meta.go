package main

import (
	"bytes"
	"encoding/json"
	"fmt"
	"sort"
	"strings"
)

// ---------------------------------------------------------------------------
// helpers on build results

func buildOutcome(c *Case) (kind, detail string) {
	switch {
	case strings.HasPrefix(c.GoOut, "OK"):
		return "ok", ""
	case strings.HasPrefix(c.GoOut, "ERR "):
		f := strings.Split(c.GoOut, " ")
		return "err", string(unhexMust(f[1]))
	}
	return "crash", c.GoOut
}

func errFields(c *Case) (msg, file string, line int) {
	f := strings.Split(c.GoOut, " ")
	if len(f) < 6 {
		return
	}
	fmt.Sscanf(f[4], "%d", &line)
	return string(unhexMust(f[1])), string(unhexMust(f[2])), line
}

func jsonOf(c *Case) string {
	if a := getAux(c); a != nil {
		return a.Json
	}
	return ""
}

func addMonitor(rep *Report, c *Case, prop, msg string) {
	d := caseDisagreement(c)
	d.Lean = msg
	d.Prop = prop
	d.Detail = ""
	if c.baseRef != nil { // metamorphic variant: keep the base document in the replay
		d.Detail = "base document (hex): " + hx(c.baseRef.Files[c.baseRef.Root])
	}
	rep.Monitor = append(rep.Monitor, d)
}

func groupCases(cases []*Case) map[string][]*Case {
	g := map[string][]*Case{}
	for _, c := range cases {
		if c.Group != "" {
			g[c.Group] = append(g[c.Group], c)
		}
	}
	return g
}

func baseOf(cs []*Case) *Case {
	for _, c := range cs {
		if c.Role == "base" {
			return c
		}
	}
	return nil
}

// compareSameCatalog: variant must be accepted iff base is, with the same catalog JSON
func compareSameCatalog(rep *Report, prop string, cs []*Case, what string) {
	base := baseOf(cs)
	if base == nil {
		return
	}
	bk, bm := buildOutcome(base)
	for _, v := range cs {
		if v == base {
			continue
		}
		v.baseRef = base
		vk, vm := buildOutcome(v)
		switch {
		case bk == "crash" || vk == "crash":
			// reported by the crash monitor
		case bk == "ok" && vk == "ok":
			if jsonOf(base) != jsonOf(v) {
				if sameButExamples(jsonOf(base), jsonOf(v)) {
					addMonitor(rep, v, prop, fmt.Sprintf("%s (%s): the catalogs differ only in generated examples: %s", what, v.Role, firstJSONDiff(jsonOf(base), jsonOf(v))))
				} else {
					addMonitor(rep, v, prop, fmt.Sprintf("%s (%s) changes the catalog: %s", what, v.Role, firstJSONDiff(jsonOf(base), jsonOf(v))))
				}
			}
		case bk == "ok" && vk == "err":
			addMonitor(rep, v, prop, fmt.Sprintf("%s (%s): the original document is accepted, the rewritten one is rejected: %s", what, v.Role, vm))
		case bk == "err" && vk == "ok":
			addMonitor(rep, v, prop, fmt.Sprintf("%s (%s): the original document is rejected (%s), the rewritten one is accepted", what, v.Role, bm))
		case bk == "err" && vk == "err":
			if bm != vm {
				addMonitor(rep, v, prop, fmt.Sprintf("%s (%s): the error class changes: %q becomes %q", what, v.Role, bm, vm))
			}
		}
	}
}

func firstJSONDiff(j1, j2 string) string {
	var a, b any
	json.Unmarshal([]byte(j1), &a)
	json.Unmarshal([]byte(j2), &b)
	var walk func(x, y any, path string) string
	walk = func(x, y any, path string) string {
		switch v := x.(type) {
		case map[string]any:
			w, ok := y.(map[string]any)
			if !ok {
				return path + ": kind differs"
			}
			var ks []string
			for k := range v {
				ks = append(ks, k)
			}
			sort.Strings(ks)
			for _, k := range ks {
				if _, ok := w[k]; !ok {
					return path + "." + k + ": missing after the rewrite"
				}
				if r := walk(v[k], w[k], path+"."+k); r != "" {
					return r
				}
			}
			for k := range w {
				if _, ok := v[k]; !ok {
					return path + "." + k + ": appears after the rewrite"
				}
			}
		case []any:
			w, ok := y.([]any)
			if !ok || len(w) != len(v) {
				return path + ": length differs"
			}
			for i := range v {
				if r := walk(v[i], w[i], fmt.Sprintf("%s[%d]", path, i)); r != "" {
					return r
				}
			}
		default:
			if fmt.Sprint(x) != fmt.Sprint(y) {
				return fmt.Sprintf("%s: %v -> %v", path, trunc(fmt.Sprint(x), 60), trunc(fmt.Sprint(y), 60))
			}
		}
		return ""
	}
	r := walk(a, b, "$")
	if r == "" {
		r = "only the order of keys differs"
	}
	return r
}

// ---------------------------------------------------------------------------
// C08: layout

func genLayoutCases(p *PRNG, n int, tier string) []*Case {
	var cases []*Case
	add := func(c *Case) { c.ID = len(cases); cases = append(cases, c) }
	corpus := loadCorpus()
	g := 0
	// (a) one model, several layouts
	for len(cases) < n*2/3 {
		m := GenModel(p.Fork(), 1+p.Intn(3))
		tree := ModelTree(m)
		g++
		grp := fmt.Sprintf("layout-%d", g)
		b := singleBuild("layout-model", []byte(RenderTree(tree, PlainLayout())))
		b.Group, b.Role = grp, "base"
		add(b)
		k := 3
		if tier == "thorough" {
			k = 8
		}
		for i := 0; i < k; i++ {
			l := RandomLayout(p.Fork())
			v := singleBuild("layout-model", []byte(RenderTree(tree, l)))
			v.Group = grp
			v.Role = fmt.Sprintf("indent=%d nl=%q explicit=%d blockAnn=%v quote=%d comments=%d blank=%d trailing=%v tabs=%v", l.Indent, l.NL, l.ExplicitCtx, l.BlockAnn, l.QuoteParams, l.Comments, l.BlankLines, l.TrailingWs, l.TabSep)
			add(v)
		}
	}
	// (b) corpus documents (accepted and rejected): line-ending conversions of the whole file
	for _, f := range corpus {
		if len(cases) >= n || len(f.Data) > 6000 || bytes.Contains(f.Data, []byte("INCLUDE")) {
			continue
		}
		if bytes.Contains(f.Data, []byte("\r")) {
			continue // start from uniform LF documents
		}
		g++
		grp := fmt.Sprintf("nl-%d", g)
		b := singleBuild("layout-corpus", f.Data)
		b.Group, b.Role = grp, "base"
		add(b)
		for _, nl := range []string{"\r\n", "\r"} {
			v := singleBuild("layout-corpus", bytes.ReplaceAll(f.Data, []byte("\n"), []byte(nl)))
			v.Group, v.Role = grp, fmt.Sprintf("line endings %q", nl)
			add(v)
		}
	}
	return cases
}

func layoutPost(cases []*Case, rep *Report) {
	for _, cs := range groupCases(cases) {
		if !strings.HasPrefix(cs[0].Group, "layout-") && !strings.HasPrefix(cs[0].Group, "nl-") {
			continue
		}
		compareSameCatalog(rep, "C08", cs, "layout rewrite")
		// rejected documents: the error moves with the text (same line under pure line-ending conversion)
		if strings.HasPrefix(cs[0].Group, "nl-") {
			base := baseOf(cs)
			if k, _ := buildOutcome(base); k == "err" {
				_, _, bl := errFields(base)
				for _, v := range cs {
					if kk, _ := buildOutcome(v); v != base && kk == "err" {
						if _, _, vl := errFields(v); vl != bl {
							addMonitor(rep, v, "C08", fmt.Sprintf("layout rewrite (%s): the error moves from line %d to line %d although no line was added", v.Role, bl, vl))
						}
					}
				}
			}
		}
	}
}

// ---------------------------------------------------------------------------
// C09: INCLUDE transparency

func genSplitCases(p *PRNG, n int, tier string) []*Case {
	var cases []*Case
	add := func(c *Case) { c.ID = len(cases); cases = append(cases, c) }
	g := 0
	for len(cases) < n {
		if p.Chance(1, 6) {
			for _, c := range sharedPieceCases(p, &g) {
				add(c)
			}
			continue
		}
		m := GenModel(p.Fork(), 1+p.Intn(3))
		tree := ModelTree(m)
		if p.Chance(1, 3) {
			injectFault(p, tree) // rule-rejected documents too
		}
		l := RandomLayout(p.Fork())
		l.Comments = 0
		g++
		grp := fmt.Sprintf("split-%d", g)
		b := singleBuild("split", []byte(RenderTree(tree, l)))
		b.Group, b.Role = grp, "base"
		add(b)
		k := 2
		if tier == "thorough" {
			k = 5
		}
		for i := 0; i < k; i++ {
			files := map[string][]byte{}
			st := splitIntoIncludes(p, tree, l, files, "", 0)
			if len(files) == 0 {
				continue
			}
			files["root.jst"] = []byte(RenderTree(st, l))
			v := buildCase("split", files, "root.jst")
			v.Group, v.Role = grp, fmt.Sprintf("cut into %d files", len(files))
			add(v)
		}
	}
	return cases
}

// sharedPieceCases: the same piece (a method block without its own path) included from several URLs
func sharedPieceCases(p *PRNG, g *int) []*Case {
	m := GenModel(p.Fork(), 2)
	var block *DNode
	for _, r := range m.Resources {
		if r.Grouped && len(r.Methods) > 0 {
			tree := ModelTree(&Model{Types: m.Types, Enums: m.Enums, Tags: m.Tags, Resources: []MResource{r}})
			for _, n := range tree {
				if n.Keyword == "URL" {
					for _, k := range n.Kids {
						if isMethodKind(k.Keyword) {
							block = k
						}
					}
				}
			}
		}
	}
	if block == nil {
		block = &DNode{Keyword: "GET", Kids: []*DNode{{Keyword: "200", Params: []string{"any"}}}}
	}
	// a Path child makes the piece exercise the path-variable bookkeeping
	withPath := *block
	withPath.Kids = append([]*DNode{{Keyword: "Path", Body: "{\n  \"id\": 1\n}", BodyKind: "schema"}}, stripKinds(block.Kids, "Path", "OperationId")...)
	l := RandomLayout(p.Fork())
	l.Comments = 0
	k := 2 + p.Intn(2)
	var decls []*DNode
	decls = append(decls, &DNode{Keyword: "JSIGHT", Params: []string{"0.3"}})
	base := ModelTree(&Model{Types: m.Types, Enums: m.Enums, Tags: m.Tags})
	decls = append(decls, base[1:]...)
	var unsplit, split []*DNode
	unsplit = append(unsplit, decls...)
	split = append(split, decls...)
	for i := 0; i < k; i++ {
		path := fmt.Sprintf("/shared%d/{id}", i)
		cp := cloneTree([]*DNode{&withPath})[0]
		unsplit = append(unsplit, &DNode{Keyword: "URL", Params: []string{path}, Kids: []*DNode{cp}})
		split = append(split, &DNode{Keyword: "URL", Params: []string{path}, Kids: []*DNode{{Keyword: "INCLUDE", Params: []string{"piece.jst"}}}})
	}
	*g++
	grp := fmt.Sprintf("split-%d", *g)
	b := singleBuild("split-shared", []byte(RenderTree(unsplit, l)))
	b.Group, b.Role = grp, "base"
	files := map[string][]byte{"piece.jst": []byte(RenderTree([]*DNode{&withPath}, l)), "root.jst": []byte(RenderTree(split, l))}
	v := buildCase("split-shared", files, "root.jst")
	v.Group, v.Role = grp, fmt.Sprintf("one piece included from %d places", k)
	return []*Case{b, v}
}

func stripKinds(ns []*DNode, kinds ...string) []*DNode {
	var out []*DNode
	for _, n := range ns {
		drop := false
		for _, k := range kinds {
			if n.Keyword == k {
				drop = true
			}
		}
		if !drop {
			out = append(out, n)
		}
	}
	return out
}

func splitPost(cases []*Case, rep *Report) {
	for _, cs := range groupCases(cases) {
		if strings.HasPrefix(cs[0].Group, "split-") {
			compareSameCatalog(rep, "C09", cs, "splitting into INCLUDE files")
		}
	}
}

// ---------------------------------------------------------------------------
// C10: PASTE transparency

var macroAllowedKids = map[string]bool{"INFO": true, "Title": true, "Version": true, "Description": true, "SERVER": true, "BaseUrl": true, "URL": true,
	"GET": true, "POST": true, "PUT": true, "PATCH": true, "DELETE": true, "Body": true, "Request": true, "Path": true, "Headers": true, "Query": true,
	"TYPE": true, "ENUM": true, "PASTE": true}

func macroKidOK(k string) bool {
	if macroAllowedKids[k] {
		return true
	}
	return len(k) == 3 && k[0] >= '1' && k[0] <= '5'
}

var pasteAllowedIn = map[string]bool{"": true, "URL": true, "GET": true, "POST": true, "PUT": true, "PATCH": true, "DELETE": true, "Request": true, "INFO": true, "SERVER": true}

func pasteOK(parent string) bool {
	if pasteAllowedIn[parent] {
		return true
	}
	return len(parent) == 3 && parent[0] >= '1' && parent[0] <= '5'
}

// abstractMacros replaces runs of siblings by PASTE @mN and returns the MACRO definitions
func abstractMacros(p *PRNG, nodes []*DNode, parent string, macros *[]*DNode, depth int) []*DNode {
	var out []*DNode
	i := 0
	for i < len(nodes) {
		n := nodes[i]
		if n.Keyword != "JSIGHT" && pasteOK(parent) && macroKidOK(n.Keyword) && p.Chance(1, 4) && len(*macros) < 6 {
			k := 1
			hasURL := n.Keyword == "URL"
			for i+k < len(nodes) && k < 3 && macroKidOK(nodes[i+k].Keyword) && p.Chance(1, 2) {
				// a method with its own path after a URL inside one explicit MACRO body is rejected
				// (it would have to leave the MACRO context to become a root): not a legal abstraction
				if hasURL && isMethodKind(nodes[i+k].Keyword) && len(nodes[i+k].Params) > 0 {
					break
				}
				if nodes[i+k].Keyword == "URL" {
					hasURL = true
				}
				k++
			}
			run := nodes[i : i+k]
			// a run that starts with a method with its own path under a URL parent would become a new root: keep semantics simple
			body := abstractMacros(p, run, "MACRO", macros, depth+1) // nested macros
			name := fmt.Sprintf("m%d", len(*macros))
			*macros = append(*macros, &DNode{Keyword: "MACRO", Params: []string{"@" + name}, Kids: body})
			out = append(out, &DNode{Keyword: "PASTE", Params: []string{"@" + name}})
			i += k
			continue
		}
		cp := *n
		cp.Kids = abstractMacros(p, n.Kids, n.Keyword, macros, depth+1)
		out = append(out, &cp)
		i++
	}
	return out
}

func genPasteCases(p *PRNG, n int, tier string) []*Case {
	var cases []*Case
	add := func(c *Case) { c.ID = len(cases); cases = append(cases, c) }
	g := 0
	for len(cases) < n {
		m := GenModel(p.Fork(), 1+p.Intn(3))
		tree := ModelTree(m)
		l := RandomLayout(p.Fork())
		l.ExplicitCtx = 0
		g++
		grp := fmt.Sprintf("paste-%d", g)
		b := singleBuild("paste", []byte(RenderTree(tree, l)))
		b.Group, b.Role = grp, "base"
		add(b)
		for i := 0; i < 2; i++ {
			var macros []*DNode
			at := abstractMacros(p, tree, "", &macros, 0)
			if len(macros) == 0 {
				continue
			}
			// MACRO definitions go to the end or right after JSIGHT (definition after / before use)
			var doc []*DNode
			if p.Chance(1, 2) {
				doc = append(append(doc, at...), macros...)
			} else {
				doc = append(append(append(doc, at[0]), macros...), at[1:]...)
			}
			txt := renderWithExplicitMacros(doc, l)
			v := singleBuild("paste", []byte(txt))
			v.Group, v.Role = grp, fmt.Sprintf("%d macros", len(macros))
			add(v)
		}
	}
	// macro call graphs incl. cycles of any length, undefined macros
	for i := 0; i < n/10+20; i++ {
		k := 2 + p.Intn(4)
		var b strings.Builder
		b.WriteString("JSIGHT 0.3\n")
		cyc := false
		edges := map[int][]int{}
		for a := 0; a < k; a++ {
			b.WriteString(fmt.Sprintf("MACRO @g%d\n(\n", a))
			b.WriteString(fmt.Sprintf("  TYPE @t%d_%d any\n", i, a))
			for e := p.Intn(3); e > 0; e-- {
				t := p.Intn(k + 1) // k = undefined macro
				edges[a] = append(edges[a], t)
				b.WriteString(fmt.Sprintf("  PASTE @g%d\n", t))
			}
			b.WriteString(")\n")
		}
		use := p.Intn(k)
		b.WriteString(fmt.Sprintf("PASTE @g%d\n", use))
		// does any macro reach itself?
		for a := 0; a < k; a++ {
			seen := map[int]bool{}
			var dfs func(x int) bool
			dfs = func(x int) bool {
				for _, y := range edges[x] {
					if y == a {
						return true
					}
					if y < k && !seen[y] {
						seen[y] = true
						if dfs(y) {
							return true
						}
					}
				}
				return false
			}
			if dfs(a) {
				cyc = true
			}
		}
		c := singleBuild("macro-graph", []byte(b.String()))
		if cyc {
			c.Want = "err|recursion"
		}
		add(c)
	}
	// all macro call graphs on three macros (every macro pastes a subset of size <= 2 of the three), used
	// from each macro or from none: every labelled shape, so every order of the names relative to the
	// cycle (a chain leading into a cycle, a cycle entered from a macro that sorts before / after it)
	subsets := [][]int{{}, {0}, {1}, {2}, {0, 1}, {0, 2}, {1, 2}}
	gi := 0
	for _, e0 := range subsets {
		for _, e1 := range subsets {
			for _, e2 := range subsets {
				es := [][]int{e0, e1, e2}
				cyc := false
				for a := 0; a < 3; a++ {
					seen := map[int]bool{}
					var dfs func(x int) bool
					dfs = func(x int) bool {
						for _, y := range es[x] {
							if y == a {
								return true
							}
							if !seen[y] {
								seen[y] = true
								if dfs(y) {
									return true
								}
							}
						}
						return false
					}
					if dfs(a) {
						cyc = true
					}
				}
				for use := -1; use < 3; use++ {
					gi++
					if !cyc && gi%4 != 0 { // acyclic graphs are the common case elsewhere: a quarter of them
						continue
					}
					var b strings.Builder
					b.WriteString("JSIGHT 0.3\n")
					for a := 0; a < 3; a++ {
						fmt.Fprintf(&b, "MACRO @h%d\n(\n  TYPE @u%d_%d any\n", a, gi, a)
						for _, t := range es[a] {
							fmt.Fprintf(&b, "  PASTE @h%d\n", t)
						}
						b.WriteString(")\n")
					}
					if use >= 0 {
						fmt.Fprintf(&b, "PASTE @h%d\n", use)
					} else {
						b.WriteString("GET /x\n  200 any\n")
					}
					c := singleBuild("macro-graph3", []byte(b.String()))
					if cyc {
						c.Want = "err|recursion"
					}
					add(c)
				}
			}
		}
	}
	for i := 0; i < n/8+20; i++ {
		add(singleBuild("macro-registry", []byte(macroRegistryDoc(p))))
	}
	return cases
}

// macroRegistryDoc: macros whose bodies declare root-level entities (ENUM, TYPE, SERVER, TAG-less
// resources), pasted zero, one or several times, next to root-level declarations that may carry the
// same names: what a definition contributes on its own, and what each PASTE contributes
func macroRegistryDoc(p *PRNG) string {
	var b strings.Builder
	b.WriteString("JSIGHT 0.3\n")
	names := []string{"a", "b", "c_d", "e-f"}
	nm := 1 + p.Intn(3)
	for i := 0; i < nm; i++ {
		b.WriteString(fmt.Sprintf("MACRO @mac%d\n(\n", i))
		for k := 1 + p.Intn(2); k > 0; k-- {
			n := Pick(p, names)
			switch p.Intn(5) {
			case 0, 1:
				b.WriteString(fmt.Sprintf("  ENUM @%s\n  [\"x\", %d]\n", n, p.Intn(9)))
			case 2:
				b.WriteString(fmt.Sprintf("  TYPE @%s any\n", n))
			case 3:
				b.WriteString(fmt.Sprintf("  SERVER @%s\n    BaseUrl \"http://h/%s\"\n", n, n))
			default:
				b.WriteString(fmt.Sprintf("  GET /%s/{id}\n    200 any\n", n))
			}
		}
		b.WriteString(")\n")
	}
	for k := p.Intn(3); k > 0; k-- {
		n := Pick(p, names)
		switch p.Intn(3) {
		case 0:
			b.WriteString(fmt.Sprintf("ENUM @%s\n[1, 2]\n", n))
		case 1:
			b.WriteString(fmt.Sprintf("TYPE @%s empty\n", n))
		default:
			b.WriteString(fmt.Sprintf("PUT /%s\n  200 any\n", n))
		}
	}
	for k := p.Intn(4); k > 0; k-- {
		b.WriteString(fmt.Sprintf("PASTE @mac%d\n", p.Intn(nm)))
	}
	if p.Chance(1, 2) {
		b.WriteString("GET /z\n  200 any\n")
	}
	return b.String()
}

func renderWithExplicitMacros(doc []*DNode, l *Layout) string {
	var b strings.Builder
	for i, n := range doc {
		if n.Keyword == "MACRO" {
			// always explicit, so that following root directives are not swallowed by the implicit MACRO context
			b.WriteString("MACRO " + n.Params[0] + l.NL + "(" + l.NL)
			inner := RenderTree(n.Kids, &Layout{Indent: l.Indent, NL: l.NL, rng: NewPRNG(uint64(i))})
			for _, ln := range strings.SplitAfter(inner, l.NL) {
				if ln == l.NL {
					b.WriteString(ln) // keep empty lines empty
				} else if ln != "" {
					b.WriteString(strings.Repeat(" ", l.Indent) + ln)
				}
			}
			b.WriteString(")" + l.NL)
			continue
		}
		b.WriteString(RenderTree([]*DNode{n}, l))
	}
	return b.String()
}

func pastePost(cases []*Case, rep *Report) {
	for _, cs := range groupCases(cases) {
		if strings.HasPrefix(cs[0].Group, "paste-") {
			compareSameCatalog(rep, "C10", cs, "abstracting sibling directives into MACRO/PASTE")
		}
	}
	for _, c := range cases {
		if (c.Tag == "macro-graph" || c.Tag == "macro-graph3") && c.Want == "err|recursion" {
			k, m := buildOutcome(c)
			if k == "ok" {
				addMonitor(rep, c, "C10", "a macro reaches itself through PASTE, but the document is accepted")
			} else if k == "err" && !strings.Contains(m, "recursion") && !strings.Contains(m, "macro not found") && !strings.Contains(m, "not specified") {
				addMonitor(rep, c, "C10", "a macro reaches itself through PASTE; rejected with an unrelated error: "+m)
			}
		}
	}
}

// ---------------------------------------------------------------------------
// C15: order of top-level blocks

func sectionEntries(j string) (map[string]map[string]string, map[string][]string) {
	var top map[string]json.RawMessage
	if json.Unmarshal([]byte(j), &top) != nil {
		return nil, nil
	}
	ent := map[string]map[string]string{}
	order := map[string][]string{}
	for _, sec := range []string{"tags", "servers", "userTypes", "userEnums", "interactions"} {
		raw, ok := top[sec]
		if !ok {
			continue
		}
		var m map[string]json.RawMessage
		json.Unmarshal(raw, &m)
		ent[sec] = map[string]string{}
		for k, v := range m {
			ent[sec][k] = string(v)
		}
		order[sec] = orderedKeys(raw)
	}
	if raw, ok := top["info"]; ok {
		ent["info"] = map[string]string{"info": string(raw)}
	}
	return ent, order
}

func genOrderCases(p *PRNG, n int, tier string) []*Case {
	var cases []*Case
	add := func(c *Case) { c.ID = len(cases); cases = append(cases, c) }
	g := 0
	for len(cases) < n {
		m := GenModel(p.Fork(), 1+p.Intn(3))
		tree := ModelTree(m)
		l := RandomLayout(p.Fork())
		g++
		grp := fmt.Sprintf("order-%d", g)
		b := singleBuild("order", []byte(RenderTree(tree, l)))
		b.Group, b.Role = grp, "base"
		add(b)
		blocks := tree[1:]
		perms := 3
		if len(blocks) <= 5 && tier == "thorough" {
			perms = 24
		}
		for i := 0; i < perms; i++ {
			perm := append([]*DNode(nil), blocks...)
			for a := len(perm) - 1; a > 0; a-- {
				c := p.Intn(a + 1)
				perm[a], perm[c] = perm[c], perm[a]
			}
			doc := append([]*DNode{tree[0]}, perm...)
			v := singleBuild("order", []byte(RenderTree(doc, l)))
			v.Group, v.Role = grp, "permutation"
			add(v)
		}
	}
	return cases
}

func orderPost(cases []*Case, rep *Report) {
	for _, cs := range groupCases(cases) {
		if !strings.HasPrefix(cs[0].Group, "order-") {
			continue
		}
		base := baseOf(cs)
		bk, bm := buildOutcome(base)
		if bk != "ok" {
			continue // the property speaks about accepted documents
		}
		be, _ := sectionEntries(jsonOf(base))
		for _, v := range cs {
			if v == base {
				continue
			}
			vk, vm := buildOutcome(v)
			if vk == "crash" {
				continue
			}
			if vk == "err" {
				addMonitor(rep, v, "C15", "permuting the top-level blocks of an accepted document makes it rejected: "+vm)
				continue
			}
			ve, _ := sectionEntries(jsonOf(v))
			for sec, m := range be {
				if sec == "tags" {
					// interactions inside a tag follow the text order: compare them as sets, the rest exactly
					for k, val := range m {
						if a, b := tagCanon(val), tagCanon(ve[sec][k]); a != b {
							addMonitor(rep, v, "C15", fmt.Sprintf("after permuting the top-level blocks the tag %q differs: %s  ->  %s", k, trunc(a, 200), trunc(b, 200)))
							goto next
						}
					}
					if len(ve[sec]) != len(m) {
						addMonitor(rep, v, "C15", fmt.Sprintf("after permuting the top-level blocks there are %d tags instead of %d", len(ve[sec]), len(m)))
						goto next
					}
					continue
				}
				for k, val := range m {
					if ve[sec][k] != val {
						if sameButExamples(val, ve[sec][k]) {
							addMonitor(rep, v, "C15", fmt.Sprintf("after permuting the top-level blocks the entry %s[%q] differs only in generated examples: %s", sec, k, firstJSONDiff(val, ve[sec][k])))
						} else {
							addMonitor(rep, v, "C15", fmt.Sprintf("after permuting the top-level blocks the entry %s[%q] differs: %s", sec, k, firstJSONDiff(val, ve[sec][k])))
						}
						goto next
					}
				}
				if len(ve[sec]) != len(m) {
					addMonitor(rep, v, "C15", fmt.Sprintf("after permuting the top-level blocks section %s has %d entries instead of %d", sec, len(ve[sec]), len(m)))
					goto next
				}
			}
		next:
		}
		_ = bm
	}
}

func init() {
	generators["layout"] = genLayoutCases
	postChecks["layout"] = func(cases []*Case, rep *Report) {
		rep.Rule = "one generated model rendered in a plain layout and in k random layouts (indentation, LF/CRLF/CR, explicit vs implicit contexts, // vs /* */, quoting, # and ### comments, blank lines, trailing blanks) + LF->CRLF/CR conversions of corpus documents (accepted and rejected); the catalogs / error classes of a group must agree; non-trivial = distinct outputs"
		buildPost(cases, rep, false)
		layoutPost(cases, rep)
	}
	generators["split"] = genSplitCases
	postChecks["split"] = func(cases []*Case, rep *Report) {
		rep.Rule = "generated documents (one third with an injected rule fault) and k random cuts of each into nested INCLUDE trees (runs of 1-3 siblings at any depth, sub-directories); catalogs / error messages of a group must agree; non-trivial = distinct outputs"
		buildPost(cases, rep, false)
		splitPost(cases, rep)
	}
	generators["paste"] = genPasteCases
	postChecks["paste"] = func(cases []*Case, rep *Report) {
		rep.Rule = "generated documents and variants where random runs of sibling directives are abstracted into (nested) MACROs defined before or after their use; random macro call graphs with cycles of any length and undefined macros; non-trivial = distinct outputs"
		buildPost(cases, rep, false)
		pastePost(cases, rep)
	}
	generators["order"] = genOrderCases
	postChecks["order"] = func(cases []*Case, rep *Report) {
		rep.Rule = "generated documents and random permutations of their top-level blocks (all 24 for <=4 blocks in the thorough tier); accepted documents must stay accepted with the same entries per section; non-trivial = distinct outputs"
		buildPost(cases, rep, false)
		orderPost(cases, rep)
	}
}

// ---------------------------------------------------------------------------
// C02: model round trip

var modelOfCase = map[*Case]*Model{}

func genModelCases(p *PRNG, n int, tier string) []*Case {
	var cases []*Case
	add := func(c *Case) { c.ID = len(cases); cases = append(cases, c) }
	for len(cases) < n {
		m := GenModel(p.Fork(), 1+p.Intn(4))
		tree := ModelTree(m)
		l := RandomLayout(p.Fork())
		var c *Case
		switch p.Intn(4) {
		case 0, 1:
			c = singleBuild("model", []byte(RenderTree(tree, l)))
		case 2:
			files := map[string][]byte{}
			st := splitIntoIncludes(p, tree, l, files, "", 0)
			files["root.jst"] = []byte(RenderTree(st, l))
			c = buildCase("model-include", files, "root.jst")
		default:
			var macros []*DNode
			l.ExplicitCtx = 0
			at := abstractMacros(p, tree, "", &macros, 0)
			doc := append(append([]*DNode{}, at...), macros...)
			c = singleBuild("model-macro", []byte(renderWithExplicitMacros(doc, l)))
		}
		modelOfCase[c] = m
		add(c)
	}
	return cases
}

func modelPost(cases []*Case, rep *Report) {
	accepted := 0
	for _, c := range cases {
		m := modelOfCase[c]
		if m == nil {
			continue
		}
		k, msg := buildOutcome(c)
		switch k {
		case "ok":
			accepted++
			if r := modelMonitor(m, jsonOf(c)); r != "" {
				addMonitor(rep, c, "C02", r)
			}
		case "err":
			// the generator may produce semantically invalid schemas (e.g. infinite type recursion); these
			// rejections say nothing about the round trip and are counted in the evidence
			_ = msg
		}
	}
	rep.Notes = append(rep.Notes, fmt.Sprintf("C02: %d of %d generated models accepted and compared entity by entity", accepted, len(cases)))
}

func init() {
	generators["model"] = genModelCases
	postChecks["model"] = func(cases []*Case, rep *Report) {
		rep.Rule = "abstract API models (info, servers, tags, types, enums, URL/method trees with query, request, responses, headers, path variables, JSON-RPC) rendered in random layouts, directly / split into INCLUDE trees / abstracted into MACROs; the catalog is compared entity by entity, in document order, with the model's expected summary; non-trivial = distinct outputs"
		buildPost(cases, rep, false)
		modelPost(cases, rep)
	}
}

// tagCanon: a tag with its interaction lists sorted
func tagCanon(raw string) string {
	var t map[string]any
	if json.Unmarshal([]byte(raw), &t) != nil {
		return raw
	}
	if gs, ok := t["interactionGroups"].([]any); ok {
		for _, g := range gs {
			if gm, ok := g.(map[string]any); ok {
				if ids, ok := gm["interactions"].([]any); ok {
					var ss []string
					for _, x := range ids {
						ss = append(ss, fmt.Sprint(x))
					}
					sort.Strings(ss)
					gm["interactions"] = ss
				}
			}
		}
	}
	b, _ := json.Marshal(t)
	return string(b)
}
