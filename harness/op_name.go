package main

import (
	"fmt"
	"path/filepath"
	"regexp"
	"strings"
)

// C14: INCLUDE parameter strings, exhaustive over a path alphabet, against a project with decoys outside the root.

func genNameCases(p *PRNG, n int, tier string) []*Case {
	alpha := []string{"a", ".", "/", "\\", " "}
	maxLen := 5
	if tier == "thorough" {
		maxLen = 7
	}
	var names []string
	var rec func(prefix string, l int)
	rec = func(prefix string, l int) {
		if prefix != "" {
			names = append(names, prefix)
		}
		if l == maxLen {
			return
		}
		for _, a := range alpha {
			rec(prefix+a, l+1)
		}
	}
	rec("", 0)
	names = append(names, "", "..", ".", "../secret.jst", "a/../../secret.jst", "/etc/passwd", "a/./a", "./a", "a/.", "a/..", "...", "a\"b", "\\", "sub/../../secret.jst",
		"a//a", "a/", "a/a/a/a/a/a", strings.Repeat("a/", 40)+"a", "..a", "a..", ".a", "a.", "a/.a", "a/a.", "a/..a", "é", "\xff")
	files := map[string][]byte{
		"a":             []byte("TYPE @ta any\n"),
		"a/placeholder": nil, // replaced below: a is a file, a2 a directory
		"../secret.jst": []byte("TYPE @secret any\n"),
		"../a":          []byte("TYPE @outer any\n"),
	}
	delete(files, "a/placeholder")
	files["d/a"] = []byte("TYPE @tda any\n")
	files["d/d/a"] = []byte("TYPE @tdda any\n")
	var cases []*Case
	for _, nm := range names {
		forms := []string{}
		if !strings.ContainsAny(nm, " \"\t") && nm != "" && !strings.HasPrefix(nm, "//") && !strings.HasPrefix(nm, "/*") {
			forms = append(forms, nm)
		}
		forms = append(forms, quoteParam(nm))
		for _, f := range forms {
			fs := map[string][]byte{}
			for k, v := range files {
				fs[k] = v
			}
			root := "JSIGHT 0.3\nINCLUDE " + f + "\n"
			rootName := "root.jst"
			// also from a nested includer: d/inc.jst includes the name
			if p.Chance(1, 3) {
				fs["d/inc.jst"] = []byte("INCLUDE " + f + "\n")
				root = "JSIGHT 0.3\nINCLUDE d/inc.jst\n"
			}
			fs[rootName] = []byte(root)
			cases = append(cases, &Case{ID: len(cases), Op: "proj", Files: fs, Dirs: []string{"d/d", "e"}, Root: rootName, Tag: "include-name", Args: []string{"tree", hxs(nm)}})
		}
	}
	if tier != "thorough" && n > 0 && len(cases) > n {
		var out []*Case
		for _, c := range cases {
			if p.Intn(len(cases)) < n {
				c.ID = len(out)
				out = append(out, c)
			}
		}
		cases = out
	}
	// include graphs (cycles, diamonds, repeated includes, odd root spellings)
	for i := 0; i < n/4+200; i++ {
		c := genIncludeGraph(p)
		c.ID = len(cases)
		cases = append(cases, c)
	}
	return cases
}

var includeLineRe = regexp.MustCompile(`(?:^|[\r\n])[ \t]*INCLUDE[ \t]+("(?:[^"\\]|\\.)*"|[^ \t\r\n#]+)`)

// staticIncludes: names mentioned on INCLUDE lines of a file (over-approximation of what can be executed)
func staticIncludes(data []byte) []string {
	var out []string
	for _, m := range includeLineRe.FindAllSubmatch(data, -1) {
		s := string(m[1])
		if strings.HasPrefix(s, "\"") && len(s) >= 2 {
			s = strings.ReplaceAll(strings.ReplaceAll(s[1:len(s)-1], "\\\"", "\""), "\\\\", "\\")
		}
		out = append(out, s)
	}
	return out
}

func hasReachableCycle(c *Case) bool {
	state := map[string]int{} // 1 = on stack, 2 = done
	var dfs func(f string) bool
	dfs = func(f string) bool {
		if state[f] == 1 {
			return true
		}
		if state[f] == 2 {
			return false
		}
		state[f] = 1
		data, ok := c.Files[f]
		if ok {
			for _, inc := range staticIncludes(data) {
				t := filepath.Join(filepath.Dir(f), inc)
				if dfs(t) {
					return true
				}
			}
		}
		state[f] = 2
		return false
	}
	return dfs(filepath.Clean(c.Root))
}

// includeMonitor: C14 evaluated on the implementation's own output (file accesses, recursion errors)
func includeMonitor(c *Case) string {
	out := c.GoOut
	i := strings.Index(out, " | ")
	if !strings.HasPrefix(out, "ACC ") || i < 0 {
		return ""
	}
	acc := strings.TrimSpace(out[4:i])
	if acc != "" {
		for _, a := range strings.Split(acc, ",") {
			kv := strings.SplitN(a, ":", 2)
			if len(kv) != 2 {
				continue
			}
			path := string(unhexMust(kv[1]))
			if path == "." || path == ".." || strings.HasPrefix(path, "../") || strings.HasPrefix(path, "/") {
				return fmt.Sprintf("file system consulted outside the project: %s %q", kv[0], path)
			}
		}
	}
	rest := out[i+3:]
	if strings.HasPrefix(rest, "ERR ") {
		f := strings.Fields(rest)
		msg := string(unhexMust(f[1]))
		if strings.Contains(msg, "file dependency recursion is detected") && !hasReachableCycle(c) {
			return "recursion error, but no file includes itself directly or through other files"
		}
	}
	return ""
}

func init() {
	generators["name"] = genNameCases
	postChecks["name"] = func(cases []*Case, rep *Report) {
		rep.Rule = "every INCLUDE parameter string over {a . / \\ space} up to length 5 (quick) / 7 (thorough), bare and quoted, from the root and from a nested includer, with decoy files outside the project; plus random include graphs with cycles/diamonds/odd root spellings; non-trivial = distinct outputs"
		projPost(cases, rep)
	}
}

// projPost: the monitors that apply to every project-level case
func projPost(cases []*Case, rep *Report) {
	for _, c := range cases {
		if c.Op != "proj" {
			continue
		}
		if strings.HasPrefix(c.GoOut, "PANIC") || strings.HasPrefix(c.GoOut, "FATAL") || strings.HasPrefix(c.GoOut, "TIMEOUT") {
			d := caseDisagreement(c)
			d.Lean = "crash: " + c.GoOut + " " + c.Detail
			d.Prop = "C01"
			rep.Monitor = append(rep.Monitor, d)
			continue
		}
		if m := includeMonitor(c); m != "" {
			d := caseDisagreement(c)
			d.Lean = m
			d.Prop = "C14"
			rep.Monitor = append(rep.Monitor, d)
		}
		if m := locMonitor(c); m != "" {
			d := caseDisagreement(c)
			d.Lean = m
			d.Prop = "C07"
			rep.Monitor = append(rep.Monitor, d)
		}
	}
}
