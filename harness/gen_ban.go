package main

import (
	"fmt"
	"strings"
)

// C19: banned directives. For a document built from a tree we know which kinds occur (anywhere:
// root file, INCLUDEd files, MACRO bodies used or not).

func kindOfKeyword(k string) string {
	if len(k) == 3 && k[0] >= '1' && k[0] <= '5' {
		return "HTTP-response-code"
	}
	return k
}

func collectKinds(nodes []*DNode, out map[string]bool) {
	for _, n := range nodes {
		out[kindOfKeyword(n.Keyword)] = true
		collectKinds(n.Kids, out)
	}
}

var allBanKinds = []string{"JSIGHT", "INFO", "Title", "Version", "Description", "SERVER", "BaseUrl", "URL", "GET", "POST", "PUT", "PATCH", "DELETE",
	"Body", "Request", "HTTP-response-code", "Path", "Headers", "Query", "TYPE", "ENUM", "MACRO", "PASTE", "INCLUDE", "Protocol", "Method", "Params",
	"Result", "TAG", "Tags", "OperationId"}

func genBanCases(p *PRNG, n int, tier string) []*Case {
	var cases []*Case
	add := func(c *Case) { c.ID = len(cases); cases = append(cases, c) }
	g := 0
	for len(cases) < n {
		m := GenModel(p.Fork(), 1+p.Intn(3))
		tree := ModelTree(m)
		l := RandomLayout(p.Fork())
		l.ExplicitCtx = 0
		kinds := map[string]bool{}
		files := map[string][]byte{}
		var txt string
		switch p.Intn(3) {
		case 0: // plain
			collectKinds(tree, kinds)
			txt = RenderTree(tree, l)
		case 1: // with macros (one of them possibly unused)
			var macros []*DNode
			at := abstractMacros(p, tree, "", &macros, 0)
			if p.Chance(1, 2) {
				macros = append(macros, &DNode{Keyword: "MACRO", Params: []string{"@unused"}, Kids: []*DNode{
					{Keyword: "TYPE", Params: []string{"@neverPasted", "any"}}, {Keyword: "SERVER", Params: []string{"@neverSrv"}, Kids: []*DNode{{Keyword: "BaseUrl", Params: []string{"http://u/"}}}}}})
			}
			doc := append(append([]*DNode{}, at...), macros...)
			collectKinds(doc, kinds)
			txt = renderWithExplicitMacros(doc, l)
		default: // with includes
			st := splitIntoIncludes(p, tree, l, files, "", 0)
			collectKinds(tree, kinds)
			if len(files) > 0 {
				kinds["INCLUDE"] = true
			}
			txt = RenderTree(st, l)
		}
		files["root.jst"] = []byte(txt)
		g++
		grp := fmt.Sprintf("ban-%d", g)
		base := buildCase("ban", files, "root.jst")
		base.Group, base.Role = grp, "base"
		add(base)
		nsets := 6
		if tier == "thorough" {
			nsets = 40
		}
		for i := 0; i < nsets; i++ {
			var set []string
			set = append(set, Pick(p, allBanKinds))
			if p.Chance(1, 2) {
				set = append(set, Pick(p, allBanKinds))
			}
			// bias: half of the time make sure one banned kind occurs
			if p.Chance(1, 2) {
				var present []string
				for k := range kinds {
					present = append(present, k)
				}
				sortStrings(present)
				set[0] = Pick(p, present)
			}
			v := buildCase("ban", files, "root.jst")
			v.Args = []string{"build", strings.Join(set, ","), ""}
			v.Group, v.Role = grp, "banned "+strings.Join(set, ",")
			occurs := []string{}
			for _, k := range set {
				if kinds[k] {
					occurs = append(occurs, k)
				}
			}
			if len(occurs) > 0 {
				v.Want = "banned|" + strings.Join(occurs, ",")
			} else {
				v.Want = "neutral"
			}
			add(v)
			// the same project through the scanning phase with the model (ties the ban check of the L1 model)
			pc := &Case{Op: "proj", Files: files, Root: "root.jst", Tag: "ban-proj", Args: []string{"tree", strings.Join(set, ","), "bans"}}
			add(pc)
		}
	}
	return cases
}

func banPost(cases []*Case, rep *Report) {
	for _, cs := range groupCases(cases) {
		if !strings.HasPrefix(cs[0].Group, "ban-") {
			continue
		}
		base := baseOf(cs)
		bk, bm := buildOutcome(base)
		if bk == "crash" {
			continue
		}
		for _, v := range cs {
			if v == base {
				continue
			}
			vk, vm := buildOutcome(v)
			if vk == "crash" {
				continue
			}
			if v.Want == "neutral" {
				if bk != vk || (bk == "ok" && jsonOf(base) != jsonOf(v)) || (bk == "err" && bm != vm) {
					addMonitor(rep, v, "C19", fmt.Sprintf("no banned directive occurs (%s), yet the result differs from the build without the option: %s / %s", v.Role, trunc(base.GoOut, 80), trunc(v.GoOut, 80)))
				}
				continue
			}
			occ := strings.TrimPrefix(v.Want, "banned|")
			if vk == "ok" {
				addMonitor(rep, v, "C19", fmt.Sprintf("directive %s is banned and occurs in the project, but the build succeeds", occ))
				continue
			}
			if !strings.Contains(vm, "the directive is not allowed") {
				// a document that is rejected anyway may report its own error first only if that error precedes the banned directive;
				// for accepted base documents the ban error is the only admissible outcome
				if bk == "ok" {
					addMonitor(rep, v, "C19", fmt.Sprintf("directive %s is banned and occurs, the document is otherwise valid, but the error is %q", occ, vm))
				}
			}
		}
	}
}

func init() {
	generators["ban"] = genBanCases
	postChecks["ban"] = func(cases []*Case, rep *Report) {
		rep.Rule = "generated projects (plain, with used and unused MACROs, split into INCLUDE files) x ban sets of size <= 2 over the 31 kinds (half of them hitting a kind that occurs); banned+occurring => not-allowed error, otherwise identical to the build without the option; non-trivial = distinct outputs"
		buildPost(cases, rep, false)
		banPost(cases, rep)
	}
}
