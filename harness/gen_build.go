package main

import (
	"encoding/json"
	"fmt"
	"strings"
	"time"
)

func buildCase(tag string, files map[string][]byte, root string) *Case {
	return &Case{Op: "build", Files: files, Root: root, Tag: tag, Args: []string{"build", "", ""}}
}

func singleBuild(tag string, data []byte) *Case {
	return buildCase(tag, map[string][]byte{"root.jst": data}, "root.jst")
}

// base population of whole-project builds
func genBuildBase(p *PRNG, n int) []*Case {
	corpus := loadCorpus()
	var small []CorpusFile
	for _, f := range corpus {
		if len(f.Data) <= 4000 {
			small = append(small, f)
		}
	}
	var cases []*Case
	add := func(c *Case) { c.ID = len(cases); cases = append(cases, c) }
	for _, c := range corpusProjects() {
		c.Op = "build"
		c.Args = []string{"build", "", ""}
		add(c)
	}
	for i, f := range small {
		if i >= n/3 {
			break
		}
		add(singleBuild("corpus", f.Data))
	}
	for i, d := range schemaMatrixDocs() { // every schema position x every kind of user type, each run
		if i >= n/4 {
			break
		}
		add(singleBuild("schema-matrix", []byte(d)))
	}
	// documents with one injected fault of every class (gen_fault.go): they are expected to be refused;
	// whatever a changed builder accepts of them must still serialise to well-formed JDoc / OpenAPI
	for _, c := range genFaultCases(p.Fork(), n/10, "quick") {
		if c.Role != "base" && len(cases) < n*9/10 {
			add(buildCase("fault-doc", c.Files, c.Root))
		}
	}
	for len(cases) < n {
		switch p.Intn(10) {
		case 0, 1:
			add(singleBuild("corpus-mutated", mutate(p, Pick(p, small).Data, 1+p.Intn(2))))
		case 2, 3, 4, 5:
			m := GenModel(p.Fork(), 1+p.Intn(4))
			add(singleBuild("rendered", []byte(RenderModel(m, RandomLayout(p.Fork())))))
		case 6:
			m := GenModel(p.Fork(), 1+p.Intn(3))
			add(singleBuild("rendered-mutated", mutate(p, []byte(RenderModel(m, RandomLayout(p.Fork()))), 1+p.Intn(2))))
		case 7, 8:
			m := GenModel(p.Fork(), 1+p.Intn(3))
			l := RandomLayout(p.Fork())
			files := map[string][]byte{}
			tree := splitIntoIncludes(p, ModelTree(m), l, files, "", 0)
			files["root.jst"] = []byte(RenderTree(tree, l))
			add(buildCase("rendered-split", files, "root.jst"))
		default:
			switch p.Intn(3) {
			case 0:
				add(singleBuild("special", []byte(Pick(p, specialDocs))))
			case 1:
				add(singleBuild("path-rules", []byte(pathRuleDoc(p))))
			default:
				add(singleBuild("schema-shapes", []byte(schemaShapeDoc(p))))
			}
		}
	}
	return cases
}

// schemaShapeDoc: user types of every notation and shape (object, scalar, regex, any, empty, or-types
// with and without blanks around '|', mutually recursive or-types, allOf chains) referred to from every
// place a schema can stand (Path body / property, Headers, Query, request and response bodies, JSON-RPC
// Params / Result, allOf). Most combinations are invalid documents: they must be refused with an error
// value, and whatever is accepted must serialise
func schemaShapeDoc(p *PRNG) string {
	var b strings.Builder
	b.WriteString("JSIGHT 0.3\n")
	b.WriteString("TYPE @obj\n{\n  \"id\": 1\n}\nTYPE @rx regex\n  /[a-z]{3}/\nTYPE @an any\nTYPE @em empty\nTYPE @num\n  12\n")
	b.WriteString("TYPE @ra\n  @rb | @num\nTYPE @rb\n  @ra | @num\n") // mutually recursive
	or := Pick(p, []string{"@obj | @num", "@obj|@num", "@rx|@num", "@ra | @rb", "@num |@rx"})
	b.WriteString("TYPE @orT\n  " + or + "\n")
	b.WriteString("TYPE @holder\n{\n  \"pet\": " + Pick(p, []string{"@obj|@num", "@obj | @rx", "@ra", "@orT"}) + "\n}\n")
	ref := func() string {
		return Pick(p, []string{"@obj", "@rx", "@an", "@em", "@num", "@ra", "@orT", "@holder", "@nope"})
	}
	inline := func() string {
		switch p.Intn(4) {
		case 0:
			return "{ // {allOf: \"" + Pick(p, []string{"@holder", "@obj", "@rx", "@orT"}) + "\"}\n      \"since\": 2020\n    }"
		case 1:
			return "{\n      \"k\": " + ref() + "\n    }"
		case 2:
			return "{\n      \"k\": " + Pick(p, []string{"@obj|@num", "@ra | @rb", "@rx |@an"}) + "\n    }"
		}
		return ref()
	}
	switch p.Intn(6) {
	case 0:
		b.WriteString("GET /x/{id}\n  Path\n    " + inline() + "\n  200 any\n")
	case 1:
		b.WriteString("GET /x/{id}\n  Path\n    {\n      \"id\": " + ref() + "\n    }\n  200 any\n")
	case 2:
		b.WriteString("POST /x\n  Request\n    Headers\n      " + inline() + "\n    Body any\n  200\n    Headers\n      " + inline() + "\n    Body any\n")
	case 3:
		b.WriteString("GET /x\n  Query \"a=1\"\n    " + inline() + "\n  200\n    " + inline() + "\n")
	case 4:
		b.WriteString("URL /rpc\n  Protocol json-rpc-2.0\n  Method m\n    Params\n      " + inline() + "\n    Result\n      " + inline() + "\n")
	default:
		b.WriteString("PUT /x\n  Request " + ref() + "\n  200 " + ref() + "\n  404\n    " + inline() + "\n")
	}
	return b.String()
}

// schemaMatrixDocs: the full product of (place where a schema stands) x (what it refers to): small
// enough to run completely every time, so no combination depends on generator luck
func schemaMatrixDocs() []string {
	types := "TYPE @obj\n{\n  \"id\": 1\n}\nTYPE @rx regex\n  /[a-z]{3}/\nTYPE @an any\nTYPE @em empty\nTYPE @num\n  12\n" +
		"TYPE @ra\n  @rb | @num\nTYPE @rb\n  @ra | @num\nTYPE @orT\n  @obj|@num\nTYPE @holder\n{\n  \"pet\": @obj|@rx\n}\n" +
		"TYPE @chain\n  @rx\nTYPE @arr\n  [@obj]\n"
	refs := []string{"@obj", "@rx", "@an", "@em", "@num", "@ra", "@orT", "@holder", "@chain", "@arr", "@nope", "[@obj]", "[@rx]"}
	var schemas []string
	for _, r := range refs {
		schemas = append(schemas, r, "{\n      \"k\": "+r+"\n    }")
		if !strings.HasPrefix(r, "[") {
			schemas = append(schemas, "{ // {allOf: \""+r+"\"}\n      \"since\": 2020\n    }")
		}
	}
	places := []string{
		"GET /x/{id}\n  Path\n    %s\n  200 any\n",
		"POST /x\n  Request\n    Headers\n      %s\n    Body any\n  200 any\n",
		"GET /x\n  200\n    Headers\n      %s\n    Body any\n",
		"GET /x\n  Query \"a=1\"\n    %s\n  200 any\n",
		"POST /x\n  Request\n    %s\n  200 any\n",
		"GET /x\n  200\n    %s\n",
		"URL /rpc\n  Protocol json-rpc-2.0\n  Method m\n    Params\n      %s\n",
		"URL /rpc\n  Method m\n    Result\n      %s\n  Protocol json-rpc-2.0\n",
		"TYPE @user\n  %s\nGET /x\n  200 @user\n",
	}
	var out []string
	for _, pl := range places {
		for _, sc := range schemas {
			out = append(out, "JSIGHT 0.3\n"+types+fmt.Sprintf(pl, sc))
		}
	}
	for _, r := range refs { // as a directive parameter
		if !strings.HasPrefix(r, "[") || r == "[@obj]" || r == "[@rx]" {
			out = append(out, "JSIGHT 0.3\n"+types+"PUT /x\n  Request "+r+"\n  200 "+r+"\n")
		}
	}
	return out
}

// pathRuleDoc: paths with one to three parameters, a Path directive that describes some of them
// (at the method or at the URL), and sometimes an example that violates its own rule or a reference
// to a missing type: documents that must either be refused by the build or serialise
func pathRuleDoc(p *PRNG) string {
	params := []string{"id", "item", "n"}[:1+p.Intn(3)]
	path := ""
	for i, q := range params {
		path += fmt.Sprintf("/s%d/{%s}", i, q)
	}
	var described []string
	for _, q := range params {
		if p.Chance(2, 3) {
			described = append(described, q)
		}
	}
	if len(described) == 0 {
		described = params[:1]
	}
	var props []string
	for _, q := range described {
		switch p.Intn(6) {
		case 0:
			props = append(props, fmt.Sprintf("    \"%s\": 5 // {min: 10}", q))
		case 1:
			props = append(props, fmt.Sprintf("    \"%s\": \"A-1\" // {maxLength: 2}", q))
		case 2:
			props = append(props, fmt.Sprintf("    \"%s\": 1 // {type: \"@nope\"}", q))
		default:
			props = append(props, fmt.Sprintf("    \"%s\": 1", q))
		}
	}
	body := "  {\n" + strings.Join(props, ",\n") + "\n  }\n"
	if p.Chance(1, 5) { // the Path body is a reference to a user type of some notation
		typ := Pick(p, []string{"TYPE @pv\n{\n  \"id\": 1\n}\n", "TYPE @pv regex\n  /ab+/\n", "TYPE @pv any\n", "TYPE @pv empty\n", "TYPE @pv\n  12\n", "TYPE @pv\n  @pw | @px\nTYPE @pw\n  1\nTYPE @px\n  \"s\"\n"})
		return "JSIGHT 0.3\n" + typ + "GET " + path + "\n  Path\n    @pv\n  200 any\n"
	}
	// further interactions that extend the described path by more parameters: as a root method, as a method with
	// its own path written inside the URL, as a second URL; with and without a Path of their own
	ext := func() string {
		var b strings.Builder
		for k := p.Intn(3); k > 0; k-- {
			longer := path + fmt.Sprintf("/sub%d/{extra%d}", k, k)
			if p.Chance(1, 3) {
				longer += fmt.Sprintf("/deep/{deep%d}", k)
			}
			m := Pick(p, []string{"GET", "POST", "PUT", "PATCH"})
			switch p.Intn(3) {
			case 0:
				b.WriteString(m + " " + longer + "\n  200 any\n")
			case 1:
				b.WriteString("URL " + longer + "\n  " + m + "\n    200 any\n")
			default:
				b.WriteString(m + " " + longer + "\n  Path\n  {\n    \"" + fmt.Sprintf("extra%d", k) + "\": 1\n  }\n  200 any\n")
			}
		}
		return b.String()
	}
	if p.Chance(1, 2) {
		return "JSIGHT 0.3\nGET " + path + "\n  Path\n" + body + "  200 any\n" + ext()
	}
	inner := ""
	if p.Chance(1, 3) { // a method with its own, longer path inside the URL (it becomes a root)
		inner = "  DELETE " + path + "/toys/{toyId}\n    200 any\n"
	}
	return "JSIGHT 0.3\nURL " + path + "\n  Path\n" + body + "  GET\n    200 any\n" + inner + "  DELETE\n    200 any\n" + ext()
}

// documents aimed at notations / constructs the random model rarely combines
var specialDocs = []string{
	"JSIGHT 0.3\nTAG @reserved // never used\nTAG @used\nGET /cats\n  Tags @used\n  200 any\n",
	"JSIGHT 0.3\nGET /r\n  200 regex\n    /[/\n",
	"JSIGHT 0.3\nGET /cats/{id}\n  Path\n    {\n      \"id\": 1,\n      \"Name\": \"Tom\",\n      \"name\": \"tom\",\n      \"AGE\": 1,\n      \"age\": 2,\n      \"Zip\": 1,\n      \"zip\": 2,\n      \"ZIP\": 3\n    }\n  200 any\n",
	"JSIGHT 0.3\n\nGET /cats\n  200 // found\n    { // a cat\n      \"id\": 1\n    }\n  200\n    \"none\"\n",
	"JSIGHT 0.3\nGET /n\n  200 // first\n    1 // one\n  200 // second\n    2\n  404 @e\nTYPE @e // err type\n{ // root note\n  \"m\": \"x\" // msg\n}\n",
	"JSIGHT 0.3\nGET /x/{id}\n  Path\n  {\n    \"id\": 1,\n    \"zz\": 2,\n    \"aa\": 3\n  }\n  200 any\n",
	"JSIGHT 0.3\nTYPE @e empty\nGET /a\n  200 @e\n",
	"JSIGHT 0.3\nTYPE @a any\nGET /a\n  200 @a\n",
	"JSIGHT 0.3\nTYPE @r regex\n  /ab+c/\nGET /a\n  200 @r\n",
	"JSIGHT 0.3\nGET /x/{id}\n  Path\n  {\n    \"id\": 5 // {min: 10}\n  }\n  200 any\n",
	"JSIGHT 0.3\nGET /x/{id}\n  Path\n  {\n    \"id\": 5 // {type: \"@nope\"}\n  }\n  200 any\n",
	"JSIGHT 0.3\nGET /x/{id}\n  Path\n  {\n    \"id\": 1\n  }\n  200 any\n",
	"JSIGHT 0.3\nTYPE @t\n{\n  \"a\": 1\n}\nTYPE @u\n{ // {allOf: \"@t\"}\n  \"b\": 2\n}\nGET /a\n  200 @u\n",
	"JSIGHT 0.3\nGET /a\n  200 regex\n    /ok/\n  404 empty\n  500 any\n",
	"JSIGHT 0.3\nURL /a\n  GET\n    200 any\n    200 any\n",
	"JSIGHT 0.3\nGET /a\n  Request\n    Headers\n    {\n      \"X\": \"y\"\n    }\n    Body any\n  200\n    Headers\n    {\n      \"Y\": 1\n    }\n    Body empty\n",
	"JSIGHT 0.3\nTYPE @t\n  @u | @v\nTYPE @u\n  1\nTYPE @v\n  \"s\"\nGET /a\n  200 @t\n",
	"JSIGHT 0.3\nENUM @e\n[1, 2]\nTYPE @t\n{\n  \"k\": 1 // {enum: @e}\n}\nGET /a\n  200 [@t]\n",
	"JSIGHT 0.3\nMACRO @a\n(\n  PASTE @b\n)\nMACRO @b\n(\n  PASTE @a\n)\nGET /a\n  200 any\n",
	"JSIGHT 0.3\nMACRO @a\n(\n  PASTE @b\n)\nMACRO @b\n(\n  PASTE @a\n)\nURL /a\n  PASTE @a\n",
	"JSIGHT 0.3\nMACRO @m\n  200 any\nMACRO @n\n  PASTE\nMACRO @o\n  PASTE @o\nGET /a\n  PASTE @m\n",
	"",
	"JSIGHT 0.3\n",
	"JSIGHT 0.3\nGET /a\n",
}

func init() {
	generators["build"] = func(p *PRNG, n int, tier string) []*Case { return genBuildBase(p, n) }
	postChecks["build"] = func(cases []*Case, rep *Report) {
		rep.Rule = "whole-project builds through kit.NewJapi + ToJson/ToJsonIndent/ToOpenAPIJson/Title: corpus files and include projects, mutations, rendered models (random layouts, split into include trees), special notation documents; every case built a second time in another worker process; non-trivial = distinct outputs"
		buildPost(cases, rep, true)
	}
}

// buildPost: monitors common to every whole-project build
func buildPost(cases []*Case, rep *Report, rerun bool) {
	for _, c := range cases {
		if c.Op != "build" {
			continue
		}
		fail := func(prop, msg string) {
			d := caseDisagreement(c)
			d.Lean = msg
			d.Prop = prop
			d.Detail = ""
			rep.Monitor = append(rep.Monitor, d)
		}
		if strings.HasPrefix(c.GoOut, "PANIC") || strings.HasPrefix(c.GoOut, "FATAL") || strings.HasPrefix(c.GoOut, "TIMEOUT") {
			fail("C01", "crash: "+c.GoOut+" "+c.Detail)
			continue
		}
		if strings.HasPrefix(c.GoOut, "ERR ") {
			if m := locMonitor(c); m != "" {
				fail("C07", m)
			}
			continue
		}
		a := getAux(c)
		if a == nil {
			continue
		}
		if m := shapeMonitor(a); m != "" {
			fail("C04", m)
		} else if m := invMonitor(a); m != "" {
			fail("C05", m)
		}
		if m := repeatMonitor(a); m != "" {
			fail("C16", m)
		}
		if m := oaMonitor(a); m != "" {
			fail("C17", m)
		}
	}
	if !rerun {
		return
	}
	// C06: the same project built again, in another process (fresh map seeds), must give identical results
	var again []*Case
	for _, c := range cases {
		if c.Op != "build" {
			continue
		}
		cp := *c
		cp.GoOut, cp.Detail, cp.Oracle = "", "", nil
		again = append(again, &cp)
	}
	runWorkers(again, 30*time.Second)
	k := 0
	for _, c := range cases {
		if c.Op != "build" {
			continue
		}
		o := again[k]
		k++
		if o.GoOut != c.GoOut {
			d := caseDisagreement(c)
			d.Lean = fmt.Sprintf("two builds of the same project differ: %s  VS  %s", trunc(c.GoOut, 300), trunc(o.GoOut, 300))
			if a1, a2 := getAux(c), getAux(o); a1 != nil && a2 != nil && sameButExamples(a1.Json, a2.Json) {
				d.Lean = "two builds differ only in generated examples: " + firstExampleDiff(a1.Json, a2.Json)
			}
			d.Prop = "C06"
			d.Detail = ""
			rep.Monitor = append(rep.Monitor, d)
		}
	}
}

func stripExamples(x any) any {
	switch v := x.(type) {
	case map[string]any:
		out := map[string]any{}
		for k, c := range v {
			if k == "example" {
				continue
			}
			out[k] = stripExamples(c)
		}
		return out
	case []any:
		out := make([]any, len(v))
		for i, c := range v {
			out[i] = stripExamples(c)
		}
		return out
	}
	return x
}

func sameButExamples(j1, j2 string) bool {
	var a, b any
	if json.Unmarshal([]byte(j1), &a) != nil || json.Unmarshal([]byte(j2), &b) != nil {
		return false
	}
	x, _ := json.Marshal(stripExamples(a))
	y, _ := json.Marshal(stripExamples(b))
	return string(x) == string(y) && j1 != j2
}

func firstExampleDiff(j1, j2 string) string {
	var a, b any
	json.Unmarshal([]byte(j1), &a)
	json.Unmarshal([]byte(j2), &b)
	var walk func(x, y any, path string) string
	walk = func(x, y any, path string) string {
		switch v := x.(type) {
		case map[string]any:
			w, _ := y.(map[string]any)
			for k, c := range v {
				if r := walk(c, w[k], path+"."+k); r != "" {
					return r
				}
			}
		case []any:
			w, _ := y.([]any)
			for i, c := range v {
				if i < len(w) {
					if r := walk(c, w[i], fmt.Sprintf("%s[%d]", path, i)); r != "" {
						return r
					}
				}
			}
		default:
			if fmt.Sprint(x) != fmt.Sprint(y) {
				return fmt.Sprintf("%s: %v vs %v", path, x, y)
			}
		}
		return ""
	}
	return trunc(walk(a, b, "$"), 200)
}

// C16: every accessor sequence up to a length over {j,i,o,p,t} on accepted documents
func genAccessCases(p *PRNG, n int, tier string) []*Case {
	maxLen := 4
	if tier == "thorough" {
		maxLen = 6
	}
	var seqs []string
	var rec func(prefix string)
	rec = func(prefix string) {
		if prefix != "" {
			seqs = append(seqs, prefix)
		}
		if len(prefix) == maxLen {
			return
		}
		for _, l := range "jiopt" {
			rec(prefix + string(l))
		}
	}
	rec("")
	// a few documents get every sequence; many documents get the sequences in which one accessor
	// runs between two calls of another (what a shared cache or an in-place edit would disturb)
	// plus some random ones
	keySeqs := []string{"jj", "ii", "oo", "pp", "jij", "joj", "jpj", "iji", "ioi", "ipi", "ojo", "oio", "pjp", "jojo", "ojij", "jtj", "oto"}
	exhaustiveDocs := 2
	perDoc := len(keySeqs) + 6
	docs := exhaustiveDocs + (n-exhaustiveDocs*len(seqs))/perDoc
	if docs < exhaustiveDocs+20 {
		docs = exhaustiveDocs + 20
	}
	var cases []*Case
	for d := 0; d < docs; d++ {
		var data []byte
		switch d % 3 {
		case 0:
			data = []byte(specialDocs[(d/3)%len(specialDocs)])
		default:
			m := GenModel(p.Fork(), 1+p.Intn(3))
			// make sure regex types and references to them occur: they are what makes generation stateful
			m.Types = append(m.Types, MType{Name: "rxT", S: Schema{Notation: "regex", Body: "/[a-z]{2,4}/"}})
			if len(m.Resources) > 0 && len(m.Resources[0].Methods) > 0 {
				mm := &m.Resources[0].Methods[0]
				extra := MResponse{Code: Pick(p, []string{"418", "100", "203"}), Body: Schema{Notation: "jsight", Body: "{\n  \"r\": @rxT\n}"}}
				if p.Chance(1, 2) {
					mm.Responses = append(mm.Responses, extra)
				} else {
					mm.Responses = append([]MResponse{extra}, mm.Responses...)
				}
			}
			data = []byte(RenderModel(m, RandomLayout(p.Fork())))
		}
		use := seqs
		if d >= exhaustiveDocs {
			use = append([]string{}, keySeqs...)
			for k := 0; k < 6; k++ {
				use = append(use, Pick(p, seqs))
			}
		}
		for _, s := range use {
			c := singleBuild("access", data)
			c.Args = []string{"build", "", s}
			c.ID = len(cases)
			cases = append(cases, c)
		}
	}
	return cases
}

func init() {
	generators["access"] = genAccessCases
	postChecks["access"] = func(cases []*Case, rep *Report) {
		rep.Rule = "every sequence of ToJson, ToJsonIndent, ToOpenAPIJson, ToOpenAPIJsonIndent, Title up to length 4 (quick) / 6 (thorough) on special-notation documents and generated models with regex types; each accessor must return the same bytes at every call of a sequence and across sequences of the same document; non-trivial = distinct outputs"
		buildPost(cases, rep, false)
		// across sequences of one document: the first result of each accessor must be the same
		first := map[string]map[byte]string{}
		for _, c := range cases {
			a := getAux(c)
			if a == nil {
				continue
			}
			key := string(c.Files["root.jst"])
			if first[key] == nil {
				first[key] = map[byte]string{}
			}
			for _, call := range a.Calls {
				if f, ok := first[key][call[0]]; ok {
					if f != call {
						addMonitor(rep, c, "C16", fmt.Sprintf("accessor %c returns %s in the sequence %q, it returned %s in another sequence on the same document", call[0], call[2:], c.Args[2], f[2:]))
						break
					}
				} else {
					first[key][call[0]] = call
				}
			}
		}
	}
}
