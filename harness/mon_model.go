package main

import (
	"encoding/json"
	"fmt"
	"net/url"
	"sort"
	"strings"
)

// C02: the catalog says exactly what the model says. Both sides are reduced to an ordered
// list of summary lines; the lists must be equal.

func annNorm(s string) string { return strings.Join(strings.Fields(s), " ") }

func pathTagOf(path string) (name, title string) {
	p := strings.Split(path, "/")
	for len(p) != 0 && (p[0] == "" || p[0] == ".") {
		p = p[1:]
	}
	title = "/"
	if len(p) != 0 {
		title = "/" + p[0]
	}
	if title == "/" {
		return "@_", title
	}
	t := strings.Replace(title, "/", "@", 1)
	t = strings.ReplaceAll(t, "_", "__")
	t = url.PathEscape(t)
	t = strings.ReplaceAll(t, "%", "_")
	return t, title
}

func notationOf(s Schema) string {
	switch s.Notation {
	case "ref":
		return "jsight"
	}
	return s.Notation
}

func formatOf(s Schema) string {
	switch s.Notation {
	case "regex":
		return "plainString"
	case "any", "empty":
		return "binary"
	}
	return "json"
}

func modelSummary(m *Model) []string {
	var out []string
	if m.Info != nil {
		out = append(out, fmt.Sprintf("info|%s|%s|%s", m.Info.Title, m.Info.Version, m.Info.Description))
	}
	for _, s := range m.Servers {
		out = append(out, fmt.Sprintf("server|@%s|%s|%s", s.Name, annNorm(s.Annotation), s.BaseUrl))
	}
	type tg struct{ name, title, desc string }
	var tags []tg
	tagIdx := map[string]int{}
	for _, t := range m.Tags {
		title := annNorm(t.Annotation)
		if title == "" {
			title = "@" + t.Name
		}
		tagIdx["@"+t.Name] = len(tags)
		tags = append(tags, tg{"@" + t.Name, title, t.Description})
	}
	var inter []string
	tagMembers := map[string][]string{}
	useTags := func(id, path string, own, parent []string) []string {
		var names []string
		switch {
		case len(own) > 0:
			for _, t := range own {
				names = append(names, "@"+t)
			}
		case len(parent) > 0:
			for _, t := range parent {
				names = append(names, "@"+t)
			}
		default:
			n, title := pathTagOf(path)
			if _, ok := tagIdx[n]; !ok {
				tagIdx[n] = len(tags)
				tags = append(tags, tg{n, title, ""})
			}
			names = []string{n}
		}
		for _, n := range names {
			tagMembers[n] = append(tagMembers[n], id)
		}
		return names
	}
	for _, r := range m.Resources {
		for _, mm := range r.Methods {
			id := "http " + mm.Verb + " " + r.Path
			var parent []string
			if r.Grouped {
				parent = r.Tags
			}
			tn := useTags(id, r.Path, mm.Tags, parent)
			line := fmt.Sprintf("http|%s|%s|%s|tags=%s", id, annNorm(mm.Annotation), mm.Description, strings.Join(tn, ","))
			if mm.QuerySchema != "" {
				f := mm.QueryFormat
				if f == "" {
					f = "htmlFormEncoded"
				}
				line += fmt.Sprintf("|query=%s,%s", f, mm.QueryExample)
			}
			if mm.Request != nil {
				line += fmt.Sprintf("|request=%s,%s,headers=%v", formatOf(*mm.Request), notationOf(*mm.Request), mm.RequestHeaders != "")
			}
			for _, rs := range mm.Responses {
				line += fmt.Sprintf("|%s=%s,%s,%s,headers=%v", rs.Code, annNorm(rs.Annotation), formatOf(rs.Body), notationOf(rs.Body), rs.Headers != "")
			}
			pv := pathParams(r.Path)
			line += "|pathVars=" + strings.Join(pv, ",")
			inter = append(inter, line)
		}
	}
	for _, r := range m.Rpc {
		for _, mm := range r.Methods {
			id := "json-rpc-2.0 " + mm.Name + " " + r.Path
			tn := useTags(id, r.Path, mm.Tags, nil)
			inter = append(inter, fmt.Sprintf("rpc|%s|%s|%s|tags=%s|params=%v|result=%v", id, annNorm(mm.Annotation), mm.Description, strings.Join(tn, ","), mm.Params != "", mm.Result != ""))
		}
	}
	for _, t := range tags {
		out = append(out, fmt.Sprintf("tag|%s|%s|%s|%s", t.name, t.title, t.desc, strings.Join(tagMembers[t.name], ",")))
	}
	for _, t := range m.Types {
		out = append(out, fmt.Sprintf("type|@%s|%s|%s", t.Name, annNorm(t.Annotation), t.S.Notation))
	}
	for _, e := range m.Enums {
		out = append(out, fmt.Sprintf("enum|@%s|%s", e.Name, annNorm(e.Annotation)))
	}
	return append(out, inter...)
}

func str(x any) string {
	if s, ok := x.(string); ok {
		return s
	}
	return ""
}

func sectionOrdered(top map[string]json.RawMessage, sec string) ([]string, map[string]jobj) {
	raw, ok := top[sec]
	if !ok {
		return nil, nil
	}
	var m map[string]jobj
	json.Unmarshal(raw, &m)
	return orderedKeys(raw), m
}

func schemaNotation(x any) (format, notation string) {
	m, _ := x.(jobj)
	format = str(m["format"])
	if s, ok := m["schema"].(jobj); ok {
		notation = str(s["notation"])
	}
	return
}

func jsonSummary(j string) []string {
	var top map[string]json.RawMessage
	if json.Unmarshal([]byte(j), &top) != nil {
		return []string{"unparsable"}
	}
	var out []string
	if raw, ok := top["info"]; ok {
		var i jobj
		json.Unmarshal(raw, &i)
		out = append(out, fmt.Sprintf("info|%s|%s|%s", str(i["title"]), str(i["version"]), str(i["description"])))
	}
	ks, m := sectionOrdered(top, "servers")
	for _, k := range ks {
		out = append(out, fmt.Sprintf("server|%s|%s|%s", k, str(m[k]["annotation"]), str(m[k]["baseUrl"])))
	}
	ks, m = sectionOrdered(top, "tags")
	for _, k := range ks {
		var members []string
		groups, _ := m[k]["interactionGroups"].([]any)
		for _, g := range groups {
			gm, _ := g.(jobj)
			ids, _ := gm["interactions"].([]any)
			for _, x := range ids {
				members = append(members, str(x))
			}
		}
		out = append(out, fmt.Sprintf("tag|%s|%s|%s|%s", str(m[k]["name"]), str(m[k]["title"]), str(m[k]["description"]), strings.Join(members, ",")))
	}
	ks, m = sectionOrdered(top, "userTypes")
	for _, k := range ks {
		_, n := schemaNotation(m[k])
		out = append(out, fmt.Sprintf("type|%s|%s|%s", k, str(m[k]["annotation"]), n))
	}
	ks, m = sectionOrdered(top, "userEnums")
	for _, k := range ks {
		out = append(out, fmt.Sprintf("enum|%s|%s", k, str(m[k]["annotation"])))
	}
	ks, m = sectionOrdered(top, "interactions")
	for _, k := range ks {
		it := m[k]
		var tn []string
		ts, _ := it["tags"].([]any)
		for _, t := range ts {
			tn = append(tn, str(t))
		}
		if it["protocol"] == "http" {
			line := fmt.Sprintf("http|%s|%s|%s|tags=%s", str(it["id"]), str(it["annotation"]), str(it["description"]), strings.Join(tn, ","))
			if q, ok := it["query"].(jobj); ok {
				line += fmt.Sprintf("|query=%s,%s", str(q["format"]), str(q["example"]))
			}
			if rq, ok := it["request"].(jobj); ok {
				f, n := schemaNotation(rq["body"])
				_, hh := rq["headers"]
				line += fmt.Sprintf("|request=%s,%s,headers=%v", f, n, hh)
			}
			rs, _ := it["responses"].([]any)
			for _, r := range rs {
				rm, _ := r.(jobj)
				f, n := schemaNotation(rm["body"])
				_, hh := rm["headers"]
				line += fmt.Sprintf("|%s=%s,%s,%s,headers=%v", str(rm["code"]), str(rm["annotation"]), f, n, hh)
			}
			var pv []string
			if p, ok := it["pathVariables"].(jobj); ok {
				if s, ok := p["schema"].(jobj); ok {
					if c, ok := s["content"].(jobj); ok {
						ch, _ := c["children"].([]any)
						for _, x := range ch {
							xm, _ := x.(jobj)
							pv = append(pv, str(xm["key"]))
						}
					}
				}
			}
			sort.Strings(pv)
			line += "|pathVars=" + strings.Join(pv, ",")
			out = append(out, line)
		} else {
			_, hp := it["params"]
			_, hr := it["result"]
			out = append(out, fmt.Sprintf("rpc|%s|%s|%s|tags=%s|params=%v|result=%v", str(it["id"]), str(it["annotation"]), str(it["description"]), strings.Join(tn, ","), hp, hr))
		}
	}
	// interactions come last in the model summary as well
	return out
}

func modelMonitor(m *Model, j string) string {
	want := modelSummary(m)
	got := jsonSummary(j)
	for i := 0; i < len(want) || i < len(got); i++ {
		var w, g string
		if i < len(want) {
			w = want[i]
		}
		if i < len(got) {
			g = got[i]
		}
		if w != g {
			return fmt.Sprintf("entity #%d: the model says %q, the catalog says %q", i, w, g)
		}
	}
	return ""
}
