package main

import (
	"encoding/json"
	"flag"
	"fmt"
	"os"
	"path/filepath"
	"strconv"
	"strings"
	"time"
)

// harness run -op scan -n 20000 -seed 1 -out report.json
// harness worker            (internal)
// harness replay -file f    (re-run the cases stored in a replay file)
func main() {
	if len(os.Args) < 2 {
		fmt.Fprintln(os.Stderr, "usage: harness run|worker|replay ...")
		os.Exit(2)
	}
	switch os.Args[1] {
	case "worker":
		workerMain()
	case "run":
		runMain(os.Args[2:])
	case "conc":
		concMain(os.Args[2:])
	default:
		fmt.Fprintln(os.Stderr, "unknown command")
		os.Exit(2)
	}
}

type genFunc func(p *PRNG, n int, tier string) []*Case

var generators = map[string]genFunc{}

func runMain(args []string) {
	fs := flag.NewFlagSet("run", flag.ExitOnError)
	op := fs.String("op", "", "operation")
	n := fs.Int("n", 1000, "number of cases")
	seedS := fs.String("seed", os.Getenv("VERIF_SEED"), "seed")
	tier := fs.String("tier", "quick", "quick|thorough")
	out := fs.String("out", "", "report file")
	timeout := fs.Duration("timeout", 20*time.Second, "per-case timeout")
	fs.Parse(args)
	seed, _ := strconv.ParseUint(*seedS, 10, 64)
	gen, ok := generators[*op]
	if !ok {
		fmt.Fprintln(os.Stderr, "unknown op", *op)
		os.Exit(2)
	}
	t0 := time.Now()
	p := NewPRNG(seed ^ hashStr(*op))
	cases := gen(p, *n, *tier)
	rep := newReport(*op, seed)
	byOp := map[string][]*Case{}
	var order []string
	for _, c := range cases {
		if _, ok := byOp[c.Op]; !ok {
			order = append(order, c.Op)
		}
		byOp[c.Op] = append(byOp[c.Op], c)
	}
	for _, o := range order {
		correspond(o, byOp[o], rep, *timeout)
	}
	{
		var kept []*Case
		for _, c := range cases {
			if c.GoOut != "SKIPPED" {
				kept = append(kept, c)
			}
		}
		cases = kept
	}
	if post, ok := postChecks[*op]; ok {
		post(cases, rep)
	}
	// histogram of error messages (goes into the evidence: which rejection classes the run exercised)
	errHist := map[string]int{}
	for _, c := range cases {
		if strings.HasPrefix(c.GoOut, "ERR ") || strings.Contains(c.GoOut, "| ERR ") {
			f := strings.Fields(c.GoOut[strings.Index(c.GoOut, "ERR "):])
			if len(f) > 1 {
				errHist[digitsToN(trunc(string(unhexMust(f[1])), 60))]++
			}
		}
	}
	rep.ErrorClasses = errHist
	for i, c := range cases {
		if i%(len(cases)/5+1) == 0 && len(rep.Samples) < 6 {
			rep.Samples = append(rep.Samples, map[string]any{"op": c.Op, "tag": c.Tag, "lean_in": trunc(c.LeanIn, 400), "go": trunc(c.GoOut, 300), "lean": trunc(c.LeanOut, 300)})
		}
	}
	rep.WallS = time.Since(t0).Seconds()
	if len(rep.Disagreements) > 50 {
		rep.Notes = append(rep.Notes, fmt.Sprintf("%d disagreements, first 50 kept", len(rep.Disagreements)))
		rep.Disagreements = rep.Disagreements[:50]
	}
	if len(rep.Monitor) > 50 {
		rep.Notes = append(rep.Notes, fmt.Sprintf("%d monitor failures, at most 25 per property and message class kept", len(rep.Monitor)))
		perClass := map[string]int{}
		var kept []Disagreement
		for _, d := range rep.Monitor {
			cls := d.Prop + "|" + digitsToN(trunc(d.Lean, 50))
			perClass[cls]++
			if perClass[cls] <= 25 {
				kept = append(kept, d)
			}
		}
		rep.Monitor = kept
	}
	// directories of workers that were killed (timeouts, crashes) are left behind: sweep them
	if stale, _ := filepath.Glob(filepath.Join(os.TempDir(), "verifh-*")); len(stale) > 0 {
		for _, d := range stale {
			if fi, e := os.Stat(d); e == nil && time.Since(fi.ModTime()) > 10*time.Minute {
				os.RemoveAll(d)
			}
		}
	}
	b, _ := json.MarshalIndent(rep, "", " ")
	if *out != "" {
		os.WriteFile(*out, b, 0o644)
	} else {
		os.Stdout.Write(b)
	}
	fmt.Fprintf(os.Stderr, "op=%s cases=%d disagreements=%d monitor=%d wall=%.1fs\n", *op, rep.Evaluations, len(rep.Disagreements), len(rep.Monitor), rep.WallS)
}

// postChecks: property monitors evaluated on the implementation's own outputs
var postChecks = map[string]func(cases []*Case, rep *Report){}

func trunc(s string, n int) string {
	if len(s) > n {
		return s[:n] + "…"
	}
	return s
}

func hashStr(s string) uint64 {
	var h uint64 = 1469598103934665603
	for i := 0; i < len(s); i++ {
		h ^= uint64(s[i])
		h *= 1099511628211
	}
	return h
}

func init() {
	generators["scan"] = func(p *PRNG, n int, tier string) []*Case { return genScanCases(p, n) }
}

func digitsToN(s string) string {
	b := []byte(s)
	for i, c := range b {
		if c >= '0' && c <= '9' {
			b[i] = 'N'
		}
	}
	return string(b)
}

func init() {
	// debugging aid: VERIF_DUMP_ERRORS=1 adds the histogram of error messages to the report notes
	prev := postChecks
	_ = prev
}
