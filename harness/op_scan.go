package main

import (
	"fmt"
	"strconv"
	"strings"
	"unicode/utf8"

	"github.com/jsightapi/jsight-schema-core/fs"
	"github.com/jsightapi/jsight-schema-core/kit"
	"github.com/jsightapi/jsight-schema-core/notations/jschema"
	"github.com/jsightapi/jsight-schema-core/rules/enum"

	"github.com/jsightapi/jsight-api-core/jerr"
	"github.com/jsightapi/jsight-api-core/scanner"
)

func lexCode(t scanner.LexemeType) string {
	switch t {
	case scanner.Keyword:
		return "K"
	case scanner.Parameter:
		return "P"
	case scanner.Annotation:
		return "A"
	case scanner.Schema:
		return "S"
	case scanner.Json:
		return "J"
	case scanner.Text:
		return "T"
	case scanner.ContextExplicitOpening:
		return "O"
	case scanner.ContextExplicitClosing:
		return "C"
	case scanner.Enum:
		return "E"
	}
	return "?"
}

// canonScanMsg maps a scanner error message to the model's canonical form.
func canonScanMsg(msg string, data []byte, idx uint64) string {
	if idx < uint64(len(data)) {
		r, _ := utf8.DecodeRune(data[idx:])
		p := fmt.Sprintf("invalid character %q ", r)
		if strings.HasPrefix(msg, p) {
			return "UC|" + msg[len(p):]
		}
	}
	const e = "invalid end of file "
	if strings.HasPrefix(msg, e) {
		return "EOF|" + msg[len(e):]
	}
	return "M|" + msg
}

// lenAnswer asks schema-core what the scanner asks: extent of a jschema / enum at the head of rest.
func lenAnswer(kind string, rest []byte) (ans string) {
	defer func() {
		if r := recover(); r != nil {
			// since fix e63b935 the scanner reports the panic of the dependency as an error at the body
			ans = "!0:" + hxs(canonQuotes(fmt.Sprintf("%s: %v", "runtime failure", r)))
		}
	}()
	file := fs.NewFile("", rest)
	var l uint
	var err error
	if kind == "j" {
		l, err = jschema.FromFile(file).Len()
	} else {
		l, err = enum.FromFile(file).Len()
	}
	if err != nil {
		e := kit.ConvertError(file, err)
		return "!" + strconv.FormatUint(uint64(e.Index()), 10) + ":" + hxs(canonQuotes(e.Message()))
	}
	return strconv.FormatUint(uint64(l), 10)
}

func renderJErr(je *jerr.JApiError, data []byte) string {
	return "err:" + hxs(canonMsg(je.Msg, data, uint64(je.Index))) + ":" + strconv.FormatInt(int64(je.Index), 10)
}

func execScan(c *Case) (r workerResult) {
	data := c.Files["root"]
	f := fs.NewFile("root", data)
	s := scanner.NewJApiScanner(f)
	var lex []string
	r.Oracle = map[string]string{}
	end := ""
	func() {
		defer func() {
			if x := recover(); x != nil {
				end = "panic"
			}
		}()
		for i := 0; i < 4*len(data)+64; i++ {
			l, je := s.Next()
			if je != nil {
				end = renderJErr(je, data)
				return
			}
			if l == nil {
				end = "eof"
				return
			}
			lex = append(lex, fmt.Sprintf("%s:%d:%d", lexCode(l.Type()), int64(l.Begin()), int64(l.End())))
			switch l.Type() {
			case scanner.Schema:
				if int(l.Begin()) <= len(data) {
					r.Oracle["j@"+strconv.Itoa(int(l.Begin()))] = lenAnswer("j", data[l.Begin():])
				}
			case scanner.Enum:
				if int(l.Begin()) <= len(data) {
					r.Oracle["e@"+strconv.Itoa(int(l.Begin()))] = lenAnswer("e", data[l.Begin():])
				}
			}
		}
		end = "nonterminating"
	}()
	r.Out = "LEX " + strings.Join(lex, " ") + " | END " + end
	return r
}

func oracleField(c *Case, prefix string) string {
	if len(c.Oracle) == 0 {
		return "-"
	}
	var parts []string
	for k, v := range c.Oracle {
		if strings.HasPrefix(k, prefix) {
			parts = append(parts, k[len(prefix):]+"="+v)
		}
	}
	if len(parts) == 0 {
		return "-"
	}
	return strings.Join(parts, ",")
}

func init() {
	ops["scan"] = &opDef{
		exec: execScan,
		leanLine: func(c *Case) string {
			return "scan " + hx(c.Files["root"]) + " " + oracleField(c, "")
		},
		resolve: func(c *Case, miss string) bool {
			// miss = "j@123"
			parts := strings.SplitN(miss, "@", 2)
			if len(parts) != 2 {
				return false
			}
			pos, err := strconv.Atoi(parts[1])
			data := c.Files["root"]
			if err != nil || pos < 0 || pos > len(data) {
				return false
			}
			if c.Oracle == nil {
				c.Oracle = map[string]string{}
			}
			if _, dup := c.Oracle[miss]; dup {
				return false
			}
			c.Oracle[miss] = lenAnswer(parts[0], data[pos:])
			return true
		},
	}
}
