package main

import (
	"fmt"
	"os"
	"path/filepath"
	"regexp"
	"sort"
	"strconv"
	"strings"
	"time"

	"github.com/jsightapi/jsight-schema-core/fs"

	"github.com/jsightapi/jsight-api-core/core"
	"github.com/jsightapi/jsight-api-core/directive"
	"github.com/jsightapi/jsight-api-core/jerr"
)

var quotedRe = regexp.MustCompile(`"(\\.|[^"\\])*"`)

func canonQuotes(s string) string { return quotedRe.ReplaceAllString(s, `"_"`) }

var knownIncludeTails = map[string]bool{
	"does not exist": true, "is a directory": true, "cannot be empty": true, "cannot not start with `/`": true,
	"cannot contain `..` or `.`": true, "directories must be separated by slashes `/`": true,
}

// canonMsg: canonical form of an error message shared with the model
func canonMsg(msg string, data []byte, idx uint64) string {
	m := canonQuotes(canonScanMsg(msg, data, idx))
	const p = `M|incorrect parameter (Filename) "_": `
	if strings.HasPrefix(m, p) && !knownIncludeTails[m[len(p):]] {
		m = p + "OSERR"
	}
	return m
}

// project on disk: <tmp>/outer/proj/<files>; decoys live in <tmp>/outer
type diskProject struct {
	tmp, projDir string
}

func materialize(c *Case) (*diskProject, error) {
	// one directory per worker process, reused by every case it runs: consecutive builds of
	// different projects see the same absolute paths (what a process-wide cache keyed by path,
	// or anything else that survives a build, would confuse)
	if workerTmp == "" {
		workerTmp = os.Getenv("VERIF_WORKER_TMP")
	}
	if workerTmp == "" {
		t, err := os.MkdirTemp("", "verifh-")
		if err != nil {
			return nil, err
		}
		workerTmp = t
	}
	tmp := workerTmp
	if err := os.RemoveAll(filepath.Join(tmp, "outer")); err != nil {
		return nil, err
	}
	dp := &diskProject{tmp: tmp, projDir: filepath.Join(tmp, "outer", "proj")}
	if err := os.MkdirAll(dp.projDir, 0o755); err != nil {
		return nil, err
	}
	for _, d := range c.Dirs {
		if err := os.MkdirAll(filepath.Join(dp.projDir, d), 0o755); err != nil {
			return nil, err
		}
	}
	for name, content := range c.Files {
		p := filepath.Join(dp.projDir, name)
		if !strings.HasPrefix(p, tmp) {
			return nil, fmt.Errorf("file escapes the sandbox: %s", name)
		}
		if err := os.MkdirAll(filepath.Dir(p), 0o755); err != nil {
			return nil, err
		}
		if err := os.WriteFile(p, content, 0o644); err != nil {
			return nil, err
		}
		// every project file gets the same modification time (as archive extraction or a coarse-grained file
		// system would give): a result must not depend on time stamps, nor on what an earlier build in this
		// process read from a file of the same path, size and time
		os.Chtimes(p, fixedMtime, fixedMtime)
	}
	return dp, nil
}

var workerTmp string

var fixedMtime = time.Unix(1700000000, 0)

func (dp *diskProject) cleanup() { os.RemoveAll(filepath.Join(dp.tmp, "outer")) }

func (dp *diskProject) rel(p string) string {
	r, err := filepath.Rel(dp.projDir, p)
	if err != nil {
		return p
	}
	return r
}

func (dp *diskProject) content(c *Case, rel string) []byte { return c.Files[rel] }

func renderDirective(dp *diskProject, d *directive.Directive, depth int, out *[]string) {
	var named []string
	for _, kv := range d.VerifNamedParameters() {
		named = append(named, kv[0]+"="+hxs(kv[1]))
	}
	var unnamed []string
	for _, u := range d.UnnamedParameter() {
		unnamed = append(unnamed, hxs(u))
	}
	body := "-"
	if bf, bb, be := d.VerifBodyCoords(); bf != nil {
		body = fmt.Sprintf("%s:%d:%d", hxs(dp.rel(bf.Name())), int64(bb), int64(be))
	}
	kf, kb, ke := d.VerifKeywordCoords()
	ex := "I"
	if d.HasExplicitContext {
		ex = "E"
	}
	*out = append(*out, fmt.Sprintf("%d;%s;%s;%s;%s;%s;%s;%s;%s;%d:%d", depth, d.Type().String(), hxs(d.Keyword),
		strings.Join(named, ","), strings.Join(unnamed, ","), hxs(d.Annotation), body, ex, hxs(dp.rel(kf.Name())), int64(kb), int64(ke)))
	for _, k := range d.Children {
		renderDirective(dp, k, depth+1, out)
	}
}

func renderForest(dp *diskProject, dd []*directive.Directive) string {
	var out []string
	for _, d := range dd {
		renderDirective(dp, d, 0, &out)
	}
	return "TREE " + strings.Join(out, " ")
}

// renderBuildErr: ERR msg file idx line col quote trace
func renderBuildErr(dp *diskProject, c *Case, je *jerr.JApiError) string {
	file := ""
	var data []byte
	if je.File != nil {
		file = dp.rel(je.File.Name())
		data = je.File.Content().Data()
	}
	full := je.Error()
	var trace []string
	if strings.HasPrefix(full, je.Msg) && len(full) > len(je.Msg) {
		lines := strings.Split(full[len(je.Msg)+1:], "\n")
		for i, l := range lines {
			if i == 0 {
				continue // the error's own file:line
			}
			k := strings.LastIndex(l, ":")
			if k < 0 {
				continue
			}
			trace = append(trace, hxs(dp.rel(l[:k]))+":"+l[k+1:])
		}
	}
	return fmt.Sprintf("ERR %s %s %d %d %d %s %s", hxs(canonMsg(je.Msg, data, uint64(je.Index))), hxs(file), int64(je.Index),
		int64(je.Line), int64(je.Column), hxs(je.Quote), strings.Join(trace, ","))
}

func execProj(c *Case) (r workerResult) {
	dp, err := materialize(c)
	if err != nil {
		return workerResult{Out: "HARNESS-ERROR " + err.Error()}
	}
	defer dp.cleanup()
	var acc []string
	core.VerifFileAccessObserver = func(op, path string) { acc = append(acc, op+":"+hxs(dp.rel(path))) }
	defer func() { core.VerifFileAccessObserver = nil }()
	rootAbs := filepath.Join(dp.projDir, c.Root)
	if c.RootSpelling != "" {
		rootAbs = dp.projDir + "/" + c.RootSpelling // not cleaned: the core sees the name as the caller spelled it
	}
	defer func() {
		if x := recover(); x != nil {
			r.Out = "PANIC"
			r.Detail = panicSummary(x)
		}
	}()
	var opts []core.Option
	if len(c.Args) > 2 && c.Args[2] == "bans" && c.Args[1] != "" {
		var kinds []directive.Enumeration
		for _, k := range strings.Split(c.Args[1], ",") {
			if e, ok := kindByKeyword(k); ok {
				kinds = append(kinds, e)
			}
		}
		if c.ID%2 == 0 {
			opts = append(opts, core.WithBannedDirectives(kinds...))
		} else { // the same set, given as one option per kind
			for _, k := range kinds {
				opts = append(opts, core.WithBannedDirectives(k))
			}
		}
	}
	co := core.NewJApiCore(fs.NewFile(rootAbs, c.Files[c.Root]), opts...)
	mode := "tree"
	if len(c.Args) > 0 {
		mode = c.Args[0]
	}
	je := co.VerifScanProject()
	if je != nil {
		return workerResult{Out: "ACC " + strings.Join(acc, ",") + " | " + renderBuildErr(dp, c, je)}
	}
	r.Oracle = map[string]string{}
	var seed func(dd []*directive.Directive)
	seed = func(dd []*directive.Directive) {
		for _, d := range dd {
			if bf, bb, _ := d.VerifBodyCoords(); bf != nil && int(bb) <= len(bf.Content().Data()) {
				kind := "j"
				switch d.Type() {
				case directive.Enum:
					kind = "e"
				case directive.Description:
					kind = ""
				}
				if d.NamedParameter("SchemaNotation") == "regex" {
					kind = ""
				}
				if kind != "" {
					r.Oracle[hxs(dp.rel(bf.Name()))+"#"+kind+"@"+strconv.Itoa(int(bb))] = lenAnswer(kind, bf.Content().Data()[bb:])
				}
			}
			seed(d.Children)
		}
	}
	seed(co.VerifDirectives())
	if mode == "tree" {
		r.Out = "ACC " + strings.Join(acc, ",") + " | " + renderForest(dp, co.VerifDirectives())
		return r
	}
	if false {
		return workerResult{Out: "ACC " + strings.Join(acc, ",") + " | " + renderForest(dp, co.VerifDirectives())}
	}
	return workerResult{Out: "HARNESS-ERROR mode"}
}

func projLeanLine(c *Case) string {
	var b strings.Builder
	if c.RootSpelling != "" {
		b.WriteString("proj " + hxs(c.RootSpelling))
	} else {
		b.WriteString("proj " + hxs(c.Root))
	}
	if len(c.Args) > 2 && c.Args[2] == "bans" {
		b.WriteString(" B:" + c.Args[1])
	}
	names := sortedKeys(c.Files)
	for _, n := range names {
		b.WriteString(" " + hxs(n) + " F " + hx(c.Files[n]) + " " + oracleField(c, hxs(n)+"#"))
	}
	dirs := append([]string(nil), c.Dirs...)
	dirs = append(dirs, ".", "..")
	// every intermediate directory of a file
	seen := map[string]bool{}
	for _, n := range names {
		d := filepath.Dir(n)
		for d != "." && d != "/" && d != ".." && !seen[d] {
			seen[d] = true
			dirs = append(dirs, d)
			d = filepath.Dir(d)
		}
	}
	sort.Strings(dirs)
	prev := ""
	for _, d := range dirs {
		if d == prev {
			continue
		}
		prev = d
		b.WriteString(" " + hxs(d) + " D - -")
	}
	return b.String()
}

func projResolve(c *Case, miss string) bool {
	// miss = "<filehex> j@pos"
	parts := strings.Fields(miss)
	if len(parts) != 2 {
		return false
	}
	name := string(unhexMust(parts[0]))
	kp := strings.SplitN(parts[1], "@", 2)
	if len(kp) != 2 {
		return false
	}
	pos, err := strconv.Atoi(kp[1])
	data, ok := c.Files[name]
	if err != nil || !ok || pos < 0 || pos > len(data) {
		return false
	}
	key := parts[0] + "#" + parts[1]
	if c.Oracle == nil {
		c.Oracle = map[string]string{}
	}
	if _, dup := c.Oracle[key]; dup {
		return false
	}
	c.Oracle[key] = lenAnswer(kp[0], data[pos:])
	return true
}

func init() {
	ops["proj"] = &opDef{exec: execProj, leanLine: projLeanLine, resolve: projResolve}
}
