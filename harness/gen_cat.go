package main

// cases of op `cat`: drawn from the other generators (valid documents of every shape, single
// faults, macro graphs, include splits, ban sets, soup), relabelled
func genCatCases(p *PRNG, n int, tier string) []*Case {
	var cases []*Case
	take := func(src []*Case, keepBans bool) {
		for _, c := range src {
			nc := &Case{Op: "cat", Files: c.Files, Dirs: c.Dirs, Root: c.Root, RootSpelling: c.RootSpelling, Tag: c.Op + "/" + c.Tag}
			if keepBans && len(c.Args) > 2 && c.Args[2] == "bans" {
				nc.Args = []string{"tree", c.Args[1], "bans"}
			}
			if nc.Root == "" {
				continue
			}
			nc.ID = len(cases)
			cases = append(cases, nc)
		}
	}
	take(genBuildBase(p.Fork(), n*30/100), false)
	take(genModelCases(p.Fork(), n*20/100, tier), false)
	take(genFaultCases(p.Fork(), n*20/100, tier), false)
	take(genPasteCases(p.Fork(), n*12/100, tier), false)
	take(genOrderCases(p.Fork(), n*5/100, tier), false)
	take(genBanCases(p.Fork(), n*5/100, tier), true)
	take(genProjCases(p.Fork(), n*8/100, tier), true)
	return cases
}

func init() {
	generators["cat"] = genCatCases
}
